#!/bin/bash
# usage: refac_collect.sh <ID>  — copies /tmp/refac/<ID>/out/r1..r4 to /verif/benign/<ID>-rK and removes the worktree
id=$1; wt=/tmp/refac/$id
for r in r1 r2 r3 r4; do
  [ -f $wt/out/$r/patch.diff ] || continue
  d=/verif/benign/$id-$r; mkdir -p $d; cp $wt/out/$r/patch.diff $wt/out/$r/NOTES.md $d/ 2>/dev/null
done
git -C /repo worktree remove --force $wt || rm -rf $wt; git -C /repo worktree prune; echo collected $id
