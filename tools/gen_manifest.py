#!/usr/bin/env python3
"""Regenerates /verif/MANIFEST.json from the table below (keeps claimed / not_applicable lists consistent)."""
import json, os
HERE = os.path.dirname(os.path.dirname(os.path.abspath(__file__)))

CLAIMED = {
    "C18": dict(
        category="proof",
        text=("Inductive invariant over all API histories, discharged per function on the MIR of the current tree: R18.1 encapsulation "
              "(private fields, writers only in the defining module, no &mut leak, no transmute), R18.2 every writer/constructor of "
              "Polygon re-closes every touched ring on every normally returning path incl. Err exits (abstract path enumeration; loops "
              "unrolled twice; close-all idiom), R18.3 decision table of LineString::close, R18.4 Rect constructors/setters return only "
              "when the comparisons on the path entail min<=max on both axes, R18.5 conversions are order-preserving copies "
              "(Geometry<->concrete, Line/Triangle/Rect corner walks). Thorough tier repeats R18.1/2/4 under geo-types --all-features."),
        design_ref="DESIGN.md §4 C18",
        note="Trusted: rustc MIR + trait resolution; models of core::cmp/Try/Index/Clone/vec! in analyses/symex.py; std Vec/IterMut semantics; panicking closures excluded (unwind paths not analysed); NaN excluded for Rect as the property states.",
        technique="MIR abstract path enumeration + typestate/encapsulation rules (rustc_private driver)",
    ),
}

CLAIMED["C20"] = dict(
    category="other",
    text=("Clause-complete for geo's own code, by who-may-call and taint rules over every lib function (resolved callees): R20.1 enumeration of "
          "sources (hash iteration under RandomState, pointer->integer, clocks/RNG/env/thread id, rayon, mutable globals); R20.2 hash-order / "
          "address taint must not reach an ordered container, a tie-sensitive selection or an ordering decision (interprocedural summaries, "
          "closure parameters); R20.3 rayon confined to the delegating indexed IntoParallelIterator impls, no clock/RNG/env call, statics "
          "immutable except the LazyLock with a pure initialiser; R20.4 feature wiring. Not decided: scheduling inside i_overlay/rayon, rstar/spade."),
    design_ref="DESIGN.md §4 C20",
    note="Trusted: rustc callee resolution; dependencies pinned by Cargo.lock assumed deterministic; control dependence on hash order without data flow is not tracked; one exact-key exemption (IMSegment address tie-break, no failing input known) is listed in the evidence.",
    technique="interprocedural taint + who-may-call over resolved MIR callees",
)

CLAIMED["C03"] = dict(
    category="proof",
    text=("Exactness by construction, modulo the robust crate: R3.1 GeoNum::Ker binding (floats -> RobustKernel, ints -> SimpleKernel); R3.2 "
          "decision table of RobustKernel::orient2d (sign of robust::orient2d against literal zero, points passed unmodified in order) and "
          "of the default kernel; R3.3 in the predicate family (Line/Triangle/Rect point tests, every calculate_coordinate_position, "
          "coord_pos_relative_to_ring, bbox helpers, winding_order + least_index/lex_cmp, triangle_winding_order, line_intersection "
          "classification, is_ccw, is_convex, the relate line intersector) no SwitchInt and no returned predicate value carries the label of a "
          "rounded arithmetic result (interprocedural, parameter-sensitive taint over MIR); R3.4 every orient2d argument there and in the hull "
          "code is a bit-copy of an input coordinate; R3.5 every Kernel call in geo is dispatched through the scalar's own kernel."),
    design_ref="DESIGN.md §4 C03",
    note="Trusted: robust::orient2d is a correct adaptive predicate; IEEE comparisons of inputs are exact; integer overflow excluded by the property's hypothesis; taint is flow-insensitive per body (over-approximates).",
    technique="interprocedural taint (rounded arithmetic -> decision) + decision table of the kernel + who-may-call",
)

CLAIMED["C02"] = dict(
    category="other",
    text=("Decided clauses: R2.1 Within is the blanket contains(b,a); R2.2 exhaustive tables of the IntersectionMatrix predicates against their "
          "DE-9IM masks (all 4^k valuations of the cells read) and the LocationArray slot bijection; R2.3 every relate fall-back of Contains pairs "
          "operand order and predicate; R2.4 all 12x12 Intersects instances (resolved by rustc, bodies summarised with the trait's own calls "
          "uninterpreted) are flip / delegate(conversion) / Geometry match / any-fold / one of 11 enumerated kernels, no flip-flip cycle; R2.5 "
          "fold soundness (Intersects: any-fold behind a bbox rejection; Contains: dimension table for all/any folds); R2.6 decision tables of "
          "Rect / Triangle / Line intersects-contains-position, bbox helpers, Rect-Rect, the ring crossing step, the parity combination, "
          "Polygon exterior/hole composition and the two-member composition of MultiPolygon / MultiLineString / GeometryCollection, each "
          "against exact integer reference geometry on a witness catalogue. Not decided: loop-based kernels beyond fold class, relate itself."),
    design_ref="DESIGN.md §4 C02, Appendix A",
    note="Trusted: rustc trait resolution; symbolic models of core/alloc; reference geometry in analyses/rules/c02_kernels.py; relate (C01) for the fall-backs. One known finding (MultiLineString even end-point count) is listed in known_findings.txt.",
    technique="dispatch classification over the resolved instance graph + decision tables by abstract MIR path enumeration",
)

CLAIMED["C11"] = dict(
    category="other",
    text=("Classification table complete: the full MIR decision table of line_intersection (envelope test, four orientation signs, end-point "
          "equalities, collinear sub-case; proper_intersection uninterpreted) is walked with the atom values of every ordered pair of integer "
          "grid segments (6561 quick / 65536 thorough) and compared with exact reference geometry: None / Collinear with the exact overlap "
          "ends / single point, properness, and the input end point copied for improper points (R11.2/3); both orders are in the catalogue "
          "(R11.5); Line∩Line agrees (R11.4); decisions are arithmetic-free (R11.1, taint); proper_intersection returns the solved point only "
          "after both envelope tests, else nearest_endpoint's pick, whose comparison table is the argmin of its four distances over all "
          "256 abstract valuations (R11.6). Not decided: ulp distance of proper points to the true crossing."),
    design_ref="DESIGN.md §4 C11, Appendix A",
    note="Trusted: reference geometry in analyses/rules/c11.py; robust::orient2d; a feasible valuation the grid misses is a lost detection, never an alarm.",
    technique="decision table by abstract MIR path enumeration, compared on a witness catalogue; taint for exactness",
)

CLAIMED["C01"] = dict(
    category="other",
    text=("Only the structural consequences are decided, not the main clause: R1.1 uniform dispatch (every Relate impl is "
          "GeometryGraph::new(idx, GeometryCow::from(self)); relate() never overridden; GeometryCow::from(&Geometry) identity on variants; "
          "Rect/Triangle enter the graph as polygons); R1.2 operand-role symmetry of compute_intersection_matrix (the multiset of pipeline "
          "calls is invariant under (graph_a,0)<->(graph_b,1), joint steps take (a,b) in order) - necessary for relate(b,a) = transpose; "
          "R1.3 the only early return is the disjoint-envelope shortcut and compute_disjoint's effect table; R1.4 mod-2 tables of "
          "determine_boundary and insert_boundary_point; R1.5 the segment intersector's decisions are arithmetic-free. "
          "That noding, labelling and the matrix update compute the true DE-9IM matrix is NOT decided (data-dependent graph)."),
    design_ref="DESIGN.md §4 C01, §5",
    note="The undecided core (noding/labelling/update over a data-dependent graph) is assumed; static analysis cannot bound it. Trusted: rustc MIR, symbolic models.",
    technique="call-sequence symmetry and effect tables by abstract MIR path enumeration",
)

CLAIMED["C17"] = dict(
    category="other",
    text=("History-independence half, by ownership/typestate: R17.1 clone_for_arg_index rebuilds the planar graph with every edge re-allocated "
          "(Rc::new(RefCell::new(edge.clone()))) on every path, node storage holds no interior mutability, the requested operand index is "
          "installed; R17.2 PreparedGeometry's Relate impl only returns that clone and does not override relate(); R17.3 set_tree only from "
          "prepare_geometry, compute_self_nodes is a no-op once the flag is set, the clone carries the flag, swap_labels runs iff the index "
          "changes; R17.4 the cached bounding box is geometry.bounding_rect() and the cached graph has index 0; R17.5 both paths node with "
          "RobustLineIntersector. Equality of matrices as such follows only together with C01's undecided core and rstar's candidate enumeration."),
    design_ref="DESIGN.md §4 C17",
    note="Trusted: rstar envelope queries (dependency); C01's undecided core; symbolic Clone model (clone of Vec<Rc<_>> shares handles).",
    technique="ownership / typestate rules over MIR path tables (aggregate provenance, effect guards)",
)

CLAIMED["C14"] = dict(
    category="other",
    text=("Structural clauses on the path tables of Polygon / MultiPolygon visit_validation (loops unrolled once, calls uninterpreted): R14.1 "
          "default methods never overridden and every handler / nested-visit Result is examined (so validation_errors non-empty <=> !is_valid "
          "by construction); R14.2 every Invalid* value is built under the true edge of its own check applied to the ring(s)/member(s) it "
          "names, indices and items come from the same enumerate() element and from enumerate() over the whole collection; R14.3 DE-9IM "
          "constants of the ring/member tests; R14.4 no pair is pre-filtered before relate; R14.5 Geometry delegates to every variant. "
          "Not decided: that the checks accept exactly the valid polygons (data-dependent)."),
    design_ref="DESIGN.md §4 C14",
    note="Trusted: relate (C01); one unrolled iteration represents all iterations. Exactness of acceptance is not claimed.",
    technique="error/check pairing over MIR path tables + Result-propagation dataflow",
)

CLAIMED["C09"] = dict(
    category="other",
    text=("Structural clauses: R9.1 in every LineString entry (simplify, simplify_idx, simplify_vw, simplify_vw_idx, simplify_vw_preserve) engine "
          "work happens only on paths that tested eps <= 0 false and an identity path exists (sibling agreement of the guard); R9.2 coordinate- "
          "and index-returning Douglas-Peucker entries use the same INITIAL_MIN and forward it to compute_rdp; R9.3 every ring of a Polygon / "
          "MultiPolygon is simplified with INITIAL_MIN >= 4 in Douglas-Peucker and VW-preserve, never through the line-string impl, and "
          "compute_rdp compares the shrunk length with INITIAL_MIN; R9.4 results through Polygon::new; R9.5 all area-vs-eps comparisons of a VW "
          "engine agree at area == eps. Not decided: the eps error bound, heap invalidation, split arithmetic."),
    design_ref="DESIGN.md §4 C09",
    note="Trusted: rustc callee resolution / const generic arguments. The numeric tolerance clauses are not claimed.",
    technique="guard / sibling-agreement rules over resolved callees and MIR path tables",
)

CLAIMED["C07"] = dict(
    category="other",
    text=("Structural clauses: R7.1 all 121 Euclidean Distance instances (resolved by rustc) are flip / delegate(conversion) / Geometry match / "
          "min-fold(max_value, acc.min(distance(member, other))) or one of 8 enumerated kernels, flips well founded - symmetry and independence of "
          "typing/wrapping by construction; R7.2 every kernel with a 1-/2-dimensional operand returns the literal zero exactly under the exact "
          "intersects(a,b), decided first (empty operands excepted); R7.3 containment-branch tables of Polygon x Polygon and LineString x Polygon; "
          "R7.4 clamp table of line_segment_distance. Not decided: that the R-tree vertex/segment minimum is the true minimum; rounding."),
    design_ref="DESIGN.md §4 C07",
    note="Trusted: rstar nearest-neighbour queries; Intersects (C02/C03). Known finding: Point x LineString zero shortcut uses an epsilon test (listed in known_findings.txt).",
    technique="dispatch classification over the resolved instance graph + guard/branch tables by MIR path enumeration",
)

CLAIMED["C19"] = dict(
    category="other",
    text=("Decided: R19.1 for all 10 geometry types the sequence term of coords_iter (once / chain / copied(iter) / flat_map over members), "
          "normalised, has under the count homomorphism exactly the value coords_count returns; R19.2 exterior_coords_iter is the exterior "
          "ring (Polygon), flat_map of exteriors (MultiPolygon, GeometryCollection) or the whole traversal, and the MapCoordsIter adapters map "
          "with the right method; R19.5 merge-fold table of GeometryCollection::bounding_rect; R19.6 every trait method implemented for the "
          "Geometry enum by variant match calls the same-named method in every arm; R19.7 two-item table of extremes (each record replaced "
          "exactly under the strict comparison on its own axis, index and coord from the same item). Not decided in this revision: "
          "map_coords sibling agreement, lines_iter pairs, size hints, failing closures."),
    design_ref="DESIGN.md §4 C19",
    note="Trusted: iterator adaptor semantics encoded in the sequence normaliser; induction over members.",
    technique="sequence-term extraction from MIR + homomorphism comparison; decision tables for folds",
)

CLAIMED["C13"] = dict(
    category="other",
    text=("The algebraic laws are decided over the reals by exact polynomial / rational-function identities on terms extracted from MIR: R13.1 last "
          "row [0,0,1] from new(), preserved by compose(); R13.2 apply(compose(a,b),p) == apply(b,apply(a,p)); R13.3 inverse is None exactly on "
          "the exact test a*e-b*d == 0 and compose(t,inverse(t)) == identity; R13.4 translate/scale/rotate/skew equal T(o)·L·T(-o) for the "
          "documented linear part (sin/cos/tan opaque, snap-to-zero branches included); R13.5 scaled/translated/rotated/skewed are "
          "self.compose(&X) in that operand order; R13.6 AffineOps maps apply over the coordinates. Not decided: float rounding; commutation "
          "of every predicate and measure with exact similarity maps."),
    design_ref="DESIGN.md §4 C13",
    note="Identities hold over the reals, not over f64. Trusted: polynomial normaliser (analyses/poly.py).",
    technique="term extraction from MIR + canonical polynomial normal forms (no solver)",
)

CLAIMED["C05"] = dict(
    category="other",
    text=("Structural clauses from terms and tables extracted from MIR: R5.1 zero area for 0/1-dimensional types, sum-folds for MultiPolygon / "
          "GeometryCollection (unsigned: of absolute values), unsigned = |signed| for Polygon and Triangle; R5.2 Polygon::signed_area = "
          "sign(A_ext)·(|A_ext| − Σ|A_hole|) with the sign decided by A_ext < 0 alone and get_linestring_area = twice/2; R5.3 "
          "twice_signed_ring_area guards (short/unclosed -> 0) and the per-segment step determinant(segment − shift) with a loop-invariant "
          "ring coordinate as shift, Line::determinant = x1·y2 − y1·x2 (polynomial identity); R5.4 Rect = width·height, Triangle = Σdet/2; "
          "R5.5 winding_order table (CCW/CW/Collinear -> CounterClockwise/Clockwise/None at least_index, by the scalar's own kernel). "
          "Not decided: rounding bounds, conditioning quality, the least-vertex theorem."),
    design_ref="DESIGN.md §4 C05",
    note="Trusted: iterator fold semantics; polynomial normaliser. Numeric accuracy is not claimed.",
    technique="term extraction from MIR (folds, polynomial identities) + decision table of winding_order",
)

CLAIMED["C06"] = dict(
    category="other",
    text=("Structural clauses from tables/terms extracted from MIR: R6.1 dimension dominance of WeightedCentroid::add_assign/sub_assign (Less -> "
          "replace, Greater -> ignore, Equal -> combine accumulated AND weight with the same operator); R6.2 add_centroid stores "
          "centroid·weight, centroid() = accumulated/weight and None iff nothing was added; R6.3 early-exit guards are the strict `>` against "
          "the dimension being added; R6.4 add_geometry dispatches all 10 variants, zero-area polygon -> outline (add_line_string), zero-area "
          "ring -> point / line string by its dimensions; R6.5 ring moment step accum + (start+end)·det on segments shifted by ring[0] "
          "(polynomial identity), centroid = acc/(6·area) + shift, weight |area|, dimension Two. Not decided: numeric accuracy, equivariance in "
          "floats, hull containment."),
    design_ref="DESIGN.md §4 C06",
    note="Trusted: Area (C05). Numeric clauses are not claimed.",
    technique="decision/effect tables + polynomial terms extracted from MIR",
)

CLAIMED["C12"] = dict(
    category="other",
    text=("Structural clauses: R12.1 in all ClosestPoint impls Closest::Intersection is built only under the exact self.intersects(p) (or p == self "
          "for Point) and carries a copy of p, and an intersecting query never yields SinglePoint; R12.2 best_of_two table (Indeterminate "
          "neutral, Intersection absorbing, distance(left,p) <= distance(right,p) keeps self) and closest_of as a fold from Indeterminate with "
          "early exit exactly on Intersection; R12.3 the polygon interior-point scan line is placed against the y of every vertex of every "
          "ring and the candidate is confirmed with relate/intersects. Not decided: nearest-ness, strict interiority, panic freedom of the sweep."),
    design_ref="DESIGN.md §4 C12",
    note="Trusted: Intersects (C02/C03), relate (C01). Distance optimality is not claimed.",
    technique="guard / provenance rules and decision tables over MIR path tables",
)

CLAIMED["C08"] = dict(
    category="other",
    text=("Structural clauses: R8.1 is_ccw is strict and Graham's stack pops on Clockwise and on Collinear unless include_on_hull (tables); R8.2 "
          "no value carrying a rounded-arithmetic label is pushed as a hull vertex (taint: vertices are copies of inputs); R8.3 convex_hull() "
          "is Polygon::new(quick_hull(exterior coords)) on its only path and every hull routine closes the ring before every return; R8.4 the "
          "farthest-point selection of quick hull breaks ties with a total order; R8.5 Graham's comparator table against exact reference "
          "(counter-clockwise around the pivot, nearer first among collinear) on integer witnesses. Exactness of the side tests is C03. "
          "Not decided: minimality/containment as such, minimum_rotated_rect."),
    design_ref="DESIGN.md §4 C08",
    note="Trusted: orient2d exactness (C03). Minimality of the hull is not claimed.",
    technique="decision tables + taint provenance + path-shape rules over MIR",
)

CLAIMED["C04"] = dict(
    category="other",
    text=("Only geo's hand-off to the i_overlay engine is decided: R4.1 OpType -> OverlayRule identity on names; R4.2 boolean_op passes rings(self) "
          "as subject and rings(other) as clip with EvenOdd, the four named operations pass their own OpType, rings() is exterior-then-interiors "
          "flat-mapped over members; R4.3 ring_to_shape_path drops exactly the closing coordinate; R4.4 polygon_from_shape closes and reverses "
          "each path, first path exterior, through Polygon::new; R4.5 unary_union probes the winding per ring until found, Clockwise -> Positive "
          "else Negative, rule Subject; R4.6 clip constants (EvenOdd, ClipRule{invert: parameter, boundary_included: true}). The set-theoretic "
          "result, snapping tolerance, area identities and thread schedules are computed inside the dependency and are NOT decided."),
    design_ref="DESIGN.md §4 C04, §5",
    note="Thin by nature: the property's main clauses live in i_overlay. Trusted: the engine computes the requested overlay.",
    technique="call-argument provenance and constant tables over MIR path tables",
)

CLAIMED["C15"] = dict(
    category="other",
    text=("Plumbing clauses only: R15.1 LineString ratio forms are the distance forms of ratio·length; R15.2 clamp tables of the four Line entry "
          "points (x <= 0 -> near end, x >= bound -> far end, else interpolate(near, far, x); from_end mirrors from_start) and of the LineString "
          "distance forms (distance <= 0 -> first/last vertex, walk over lines()/rev_lines() choosing the segment by `segment_length < remaining`, "
          "past the end -> last/first vertex, sibling guards agree); R15.3 densify_between uses ceil(distance/max) pieces and inserts "
          "point_at_ratio_between(start, end, k/n) for k from 1. Not decided: arc-length identities, line_locate_point round trip, the strict "
          "length bound in floats."),
    design_ref="DESIGN.md §4 C15",
    note="Thin: the numeric identities are not claimed. Trusted: the metric space's interpolation and length.",
    technique="clamp / mirror decision tables over MIR path tables",
)

CLAIMED["C16"] = dict(
    category="other",
    text=("Only the explicit structural clauses: R16.1 every Bearing::bearing returns through (x + 360) % 360; R16.2 LengthMeasurable of Line / "
          "LineString / MultiLineString is distance(start,end) / the sum over all members for any metric space; R16.3 geographiclib is called "
          "with (lat = y, lon = x); R16.4 HaversineMeasure's Distance / Destination / InterpolatePoint methods use self.radius and never the "
          "crate constant; R16.5 the rhumb longitude difference is wrapped by exactly -2π when > π and +2π when < -π (polynomial identity per "
          "path). Round trips, ratio division, symmetry up to rounding and all other numeric identities are NOT decided."),
    design_ref="DESIGN.md §4 C16, §5",
    note="Thin by nature: the property is numeric. Trusted: geographiclib-rs, libm.",
    technique="term/constant provenance rules and polynomial identities on MIR path terms",
)

CLAIMED["C10"] = dict(
    category="other",
    text=("Three structural clauses: R10.1 ear-cut layout agreement (writer x-then-y per vertex, hole start index = vertices.len()/2 taken before "
          "the hole is written, dims = 2, reader (v[2i], v[2i+1])), hence triangle corners are polygon vertices; R10.2 decision table of "
          "MonoPoly::calculate_coordinate_position on integer witnesses incl. vertical bounding segments (boundary only on the segment); R10.3 "
          "stitch picks as exterior the ring containing ALL others. Tiling / disjointness / Delaunay faces / area conservation / the monotone "
          "sweep itself are NOT decided."),
    design_ref="DESIGN.md §4 C10, §5",
    note="Thin: the geometric guarantees live in earcutr / spade / the sweep. Known finding: MonoPoly vertical-edge point location (known_findings.txt).",
    technique="writer/reader agreement terms + decision table on witnesses + fold-kind rule",
)

NOT_YET = "rule set not implemented in this revision of /verif (see DESIGN.md §7 build order); nothing is claimed"
NA = {}


# rules added after the first seed rounds (appended to the level texts)
ADDENDA = {
    "C01": " Added: R1.5 now covers every function of the relate module (any branch on a rounded value outside three confirmed harmless sites); R1.6 tables of dimensions()/boundary_dimensions()/is_closed of the container types on all member assignments (two members unrolled).",
    "C02": " Added: R2.7 every loop-free Intersects/Contains impl between Coord, Point, Line, Rect, Triangle (33 pairs today, new kernels included) is tabulated and compared with exact convex-set reference geometry on witness catalogues.",
    "C03": " Added: R3.6 the sign-level decision tables of point-on-segment, segment-segment intersects, point-in-triangle, the ring crossing step, polygon composition and winding_order (rings with repeated vertices) against exact integer geometry.",
    "C04": " Added: every result path of boolean_op / unary_union / clip must pass through the engine call (no geo-side shortcut).",
    "C05": " Added: R5.6 path tables of winding_order for concrete (length, least index) walked with witness rings carrying repeated vertices in every position.",
    "C06": " Added: R6.6 every add_centroid weight is the non-negative measure of its dimension (1 / Euclidean length / unsigned or absolute area).",
    "C08": " Added: R8.6 the farthest-point key of quick hull is a positive multiple of cross(b-a, pt-a) in which the candidate enters only through differences with a segment end.",
    "C09": " Added: R9.6 compute_rdp culls only under farthest<=eps where farthest is the max over all interior vertices of the Euclidean point-to-SEGMENT distance to Line(first,last); R9.7 the Visvalingam loops stop exactly at area > eps.",
    "C10": " Added: R10.4 roles of the chains joined by finish_with in the monotone builder (help[0] upper, help[1] lower; def-chain provenance); R10.5 helper_chain updated on every way through the chain-continuing arms (CFG must-pass); R10.6 stitch parent test is Polygon.contains(whole ring).",
    "C12": " Added: a computed SinglePoint must be on a path that found self.intersects(p) false.",
    "C13": " Added: the composition laws are checked on every path of compose under its own path condition; compose_many is the left fold of compose; R13.7 Rotate/Scale/Skew/Translate use the documented origin (point / centroid / bounding-rect centre) and every _mut twin makes the same call.",
    "C19": " Added: R19.3 lines_iter of every type is the component-by-component window traversal (helper iterators and to_lines tables included); R19.4 map_coords rebuilds the same shape from f applied in traversal order, try_map_coords agrees with it on its Ok path, simple in-place variants store f(part).",
    "C14": " Added: R14.6 the ring simplicity helper is the complete pairwise segment test (decision alphabet, true-condition, false only after exhaustion).",
    "C15": " Added: R15.4 Densifiable for Polygon / Multi* / Rect / Triangle densifies every part on every path.",
    "C20": " Added: R20.5 no call mutates state a later call reads (PreparedGeometry hands out fresh edges on every path; inventory of interior-mutable fields).",
}


# round 4 (appended to the texts above)
ADDENDA4 = {
    "C01": " Round 4: R1.8-R1.11 exhaustive tables of the relate state layer, evaluated from MIR on concrete records: TopologyPosition / Label get-set laws, flip, swap_args (68 position records, ~50k cases); IntersectionMatrix set / set_at_least / set_at_least_if_in_both, the cells an edge / node label contributes, set_label_boundary; bundle labels (compute_label_on / _side / into_labeled over bundles of 0..3 edge ends); star labelling (propagate_side_labels on every consistent star of 1..3 bundles, compute_labeling's fill-in by operand dimension and node position). R1.12 prepared operands (C17's freshness / typestate / cached-field rules). R1.13 HasDimensions tables of Line, Rect, Triangle, LineString, Polygon on grid witnesses.",
    "C03": " Round 4: R3.7 the integer kernel (SimpleKernel::orient2d or the inherited default) as a decision table on exact integer witnesses incl. near-collinear triples with 2^30-sized coordinates whose products fit i64; conversions to f64 are evaluated as IEEE roundings, so a determinant taken in floating point is reported.",
    "C04": " Round 4: R4.7 winding_order / least_index tables (shared with C05) because unary_union derives its fill rule from them.",
    "C05": " Round 4: R5.1 collection sums decided as polynomial identities on collections of 0..3 members (|signed| counts as unsigned only for Polygon members); R5.7 least_index table on slices over {-0.0, +0.0, 1.0}.",
    "C06": " Round 4: R6.7 HasDimensions tables of the basic types (the centroid dispatches degenerate shapes on them).",
    "C07": " Round 4: R7.8 every Euclidean Distance impl between Coord, Point and Line evaluated numerically (extracted path table, helpers inlined) against the exact segment distances on a 3x3 grid; R7.9 line_string_contains_point against exact point-on-segment on grid line strings.",
    "C08": " Round 4: R8.7 both kernel bodies (robust table, integer table), R8.8 least_index (Graham's pivot).",
    "C09": " Round 4: R9.9 the metric of Douglas-Peucker, Distance<Coord, &Line>, is the distance to the segment (numeric table shared with C07).",
    "C10": " Round 4: R10.7 check_interior_intersection of the monotone sweep on all pairs of grid segments (splits only at an end point strictly inside the split segment); R10.8 find_and_fix_holes_in_exterior keeps the input polygon's interiors on every rebuilding path.",
    "C11": " Round 4: R11.7 both kernel bodies (shared with C03).",
    "C12": " Round 4: R12.4 the point-in-geometry kernels behind closest_point's intersects guard (Triangle / Line / Rect point tests, ring step, polygon composition, LineString point kernels; shared with C02).",
    "C13": " Round 4: R13.8 bounding-box tables (bounding_rect_merge and BoundingRect of the basic / Multi types on witnesses): the documented origin of scale / skew / rotate_around_center.",
    "C19": " Round 4: R19.8 bounding-box tables: bounding_rect_merge and BoundingRect of Point, Line, Triangle, Rect, LineString, MultiPoint, Polygon, MultiLineString, MultiPolygon evaluated on grid witnesses (None iff no coordinate, else min/max).",
}

# round 5
ADDENDA5 = {
    "C01": " Round 5: R1.14 the point-location kernels relate uses for isolated components and incomplete star labels (Rect / Triangle / Line position, ring step, polygon composition, LineString kernels; shared with C02); R1.15 bounding-box tables (the disjoint-envelope shortcut).",
    "C02": " Round 5: R2.9 bounding-box tables behind the has_disjoint_bboxes rejections.",
    "C04": " Round 5: R4.2 rings() decided on concrete shapes by draining the iterator: a member's exterior first, then its interiors, members in order (unary_union reads its fill rule off the first ring).",
    "C05": " Round 5: R5.9 Orient::orient for Polygon and MultiPolygon on abstract rings (identity + winding; the Winding API answered on the abstraction) for every assignment of input windings and both directions; R5.10 the Rect / Triangle / Line -> Polygon conversions (C18 R18.5).",
    "C06": " Round 5: R6.9 centroid witness tables of the basic types (degenerate shapes included); R6.10 the area rules of C05 (the weights).",
    "C07": " Round 5: R7.3 also requires that, inside a hole of one operand, the distance is measured between that hole and the OTHER operand.",
    "C08": " Round 5: R8.9 traversal tables (every exterior coordinate of every member reaches the hull, empty members in the middle included); R8.10 minimum_rotated_rect tries every hull edge as a direction (hull rings of 3 and 4 vertices, exact unrolling).",
    "C09": " Round 5: R9.1 additionally: a path that does no engine work may depend on eps only through eps <= 0.",
    "C10": " Round 5: R10.9 contains_point of the collection impls (Vec<G> and its slice twin) is the disjunction over the members for every valuation.",
    "C11": " Round 5: R11.8 proper_intersection on every properly crossing pair of grid segments equals the exact rational crossing (numeric evaluation of the extracted table).",
    "C12": " Round 5: R12.5 closest_point witness tables (Point, Line, LineString, Triangle, Rect, Polygon, MultiPoint; an awkward-float witness for the rounded projection); R12.6 the scan-line height is the bbox mid-height or strictly between it and the next-closest vertex height (polynomial identity).",
    "C15": " Round 5: R15.6 arc-length laws of the InterpolatableLine entry points on witnesses; R15.7 the deprecated twins line_interpolate_point / line_locate_point on three-segment line strings.",
    "C16": " Round 5: R16.7 the laws the property states (non-negativity, zero, symmetry, textbook length, bearing range, destination(a, bearing, distance) = b, ratio points) evaluated for Haversine and Rhumb on 132 ordered witness pairs through the extracted path tables.",
    "C17": " Round 5: R17.1 requires the re-allocated edge to be a clone of the WHOLE cached edge and reports a GeometryGraph::clone_for_arg_index path that returns a derived clone.",
    "C18": " Round 5: R18.6 also tabulates Rect::to_lines, Triangle::to_lines and From<[c; 3]> for Triangle.",
    "C19": " Round 5: R19.9 coords_iter / exterior_coords_iter / coords_count on concrete shapes with empty members, iterators drained step by step.",
    "C20": " Round 5: the IMSegment address tie-break is armed (known finding with a failing input).",
}

ADDENDA6 = {
    "C01": " Round 6: R1.16 the exact classification table of C11 run on RobustLineIntersector::compute_intersection itself (every ordered pair of grid segments).",
    "C02": " Round 6: R2.6 also holds a witness table of Polygon::calculate_coordinate_position (0, 1 and 2 holes, both hole orders, a hole in the notch of an L-shaped hole). R2.12 Contains folds over collections (Point contains a collection = non-empty and all members; MultiPolygon contains MultiPoint = all intersect and some interior; collection contains Coord = some member) on 0..3 abstract members; MultiPoint point-location table in R2.6.",
    "C07": " Round 6: R7.12 the point-location tables the zero shortcut and the containment branch stand on (shared with C02). R7.13 distance of a Point / Line to a LineString and to a Polygon with a hole on a witness catalogue (segment kernels compositional): exact minimum over the segments of every ring, zero in the closed region.",
    "C08": " Round 6: R8.11 least_and_greatest_index on slices of 1..4 coordinates (equal-x runs included); R8.12 orient2d arguments in the hull code and in is_convex are bit-copies of inputs (C03 R3.4). R8.13 = R3.8 (tie-break of the Graham scan).",
    "C12": " Round 6: R12.7 the Bentley-Ottmann step of the sweep interior_point's scan line runs on (right-end / point / left-end event on an abstract active list of 3..5 segments: pair tested, list afterwards); R12.8 intersect_line_ordered never hands back a point sorting before self.left().",
    "C13": " Round 6: R13.10 map_coords / try_map_coords / map_coords_in_place / try_map_coords_in_place of every geometry type on concrete shapes with an abstract function (96 tables): every coordinate mapped exactly once, in place.",
    "C14": " Round 6: R14.9 collection wrap tables (the defect of member j reaches the handler as Invalid*(GeometryIndex(j), ..); every member validated; Geometry wraps variant by variant); R14.10 Coord / Point / Line / Rect / Triangle / LineString tables: errors reported = exactly the defining checks that hold, no other decision.",
    "C15": " Round 6: R15.7 witnesses also at scale 1e-9 and 1e6; R15.9 LineString / MultiLineString length tables (shared with C16).",
    "C16": " Round 6: R16.9 LineString::length = sum over all consecutive pairs on every coordinate sequence over three positions (0..5 coordinates) and on a line string of 300 coordinates; MultiLineString::length on 0..3 members.",
    "C17": " Round 6: R17.7 every candidate pair of the segment index reaches add_intersections with the edges of its own graph (no filter between two graphs; within one graph only the documented same-edge exception); R17.8 no Relate impl overrides relate() (C01 R1.1).",
    "C18": " Round 6: R18.8 container tables (From<Vec>, FromIterator, From<member>, new, into_iter, iter of MultiPoint / MultiLineString / MultiPolygon / GeometryCollection / LineString keep every member in order, unchanged). R18.3 is now a table: close() on all 31 coordinate sequences of length 0..4 over two concrete values.",
    "C03": " Round 6: R3.8 Kernel::square_euclidean_distance on mixed-sign witnesses.",
    "C06": " Round 6: R6.7 also holds the container folds of dimensions / boundary_dimensions (C01 R1.6).",
    "C10": " Round 6: R10.11 MonoPoly point location (chains of 2 and 3 coordinates, vertical end edges, every query of a grid): Outside exactly when outside the polygon made of the two chains.",
    "C11": " Round 6: R11.2 / R11.4 also walk every ordered pair of segments among four collinear points (horizontal, vertical, both diagonals).",
    "C19": " Round 6: R19.4 is now the value-level map_coords tables of C13 R13.10 (96 tables) plus the stop-at-first-error rule; R19.10 also holds the container folds of dimensions (C01 R1.6).",
}

ADDENDA7 = {
    "C01": " Round 7: R1.17 the orientation kernel rules of C03 (binding, robust body without pre-filter, exact integer kernel beyond 2^53).",
    "C02": " Round 7: R2.13 = kernel rules of C03.",
    "C04": " Round 7: R4.8 = kernel rules of C03.",
    "C05": " Round 7: R5.4 rewritten as value-level tables; R5.11 = kernel rules of C03; R5.12 signed_area of Triangle / Rect / Polygon ring translated by 1e8 within 1e-6 of the exact rational area (found and fixed: Triangle::signed_area).",
    "C06": " Round 7: R6.8 Rect::center also for extents beyond the largest float; R6.12 = R5.12 (areas are the centroid weights); R6.13 centroid of a numerically flat, not collinear triangle is finite (found and fixed).",
    "C07": " Round 7: R7.7 the point kernel on witnesses at 2^600 / 2^-600 (value-level); R7.8 point-segment kernels also translated by (1e15, 2e15); R7.14 Line-Line intersects table (C11 R11.4).",
    "C09": " Round 7: R9.9 includes the far-offset witnesses of R7.8.",
    "C10": " Round 7: R10.12 = kernel rules of C03; R10.13 snap_or_register_point on witnesses near the origin and translated by 1e6 (snaps exactly below the given radius).",
    "C11": " Round 7: R11.8 also on the grid scaled by 2^-27, 2^-40 and 2^20; R11.9 the comparison helpers value_in_between / point_in_rect, also at 2^-600 / 2^600.",
    "C12": " Round 7: R12.9 = kernel rules of C03; R12.10 = point kernel (R7.7).",
    "C13": " Round 7: R13.11 = point kernel (R7.7); R13.12 AffineTransform::skew on tiny angles evaluated with the machine epsilon of f64 and of f32.",
    "C14": " Round 7: R14.11 = kernel rules of C03; R14.12 = relate exactness (C01 R1.5), incl. orientation-test arguments that are arithmetic-filled struct fields.",
    "C15": " Round 7: R15.10 = Rhumb wrap and Haversine / Rhumb laws (C16 R16.5 / R16.7).",
    "C17": " Round 7: R17.6 GeometryCow (what a PreparedGeometry answers HasDimensions with) delegates is_empty / dimensions / boundary_dimensions to the wrapped geometry, variant by variant.",
    "C18": " Round 7: R18.6 also tabulates Triangle::new (UTM-like offsets, rational reference) and Coord::eq (integers beyond 2^53).",
    "C19": " Round 7: R19.3 rewritten as drained lines_iter tables; R19.12 Triangle::new table (MapCoords for Triangle rebuilds through it).",
}

def main():
    props = [json.loads(l) for l in open(os.path.join(HERE, "properties.jsonl"))]
    checks = []
    na = []
    for p in props:
        pid = p["id"]
        if pid in CLAIMED:
            c = CLAIMED[pid]
            checks.append({
                "property_id": pid,
                "quick_cmd": "./check %s --tier quick" % pid,
                "thorough_cmd": "./check %s --tier thorough" % pid,
                "evidence_file": "/verif/evidence/%s.json" % pid,
                "replay_cmd_template": "./check %s --explain {path}" % pid,
                "engine": "geofacts+rules",
                "level_claimed": {"category": c["category"], "text": c["text"] + ADDENDA.get(pid, "") + ADDENDA4.get(pid, "") + ADDENDA5.get(pid, "") + ADDENDA6.get(pid, "") + ADDENDA7.get(pid, ""), "design_ref": c["design_ref"]},
                "level_note": c["note"],
                "technique": c["technique"],
            })
        else:
            na.append({"property_id": pid, "reason": NA.get(pid, NOT_YET)})
    m = {
        "version": 1,
        "setup_cmd": "cd /verif/driver && CARGO_NET_OFFLINE=true cargo build --release --offline",
        "hooks": {
            "guard": "georust_geo_verif",
            "enable": "none needed: the checks analyse the unmodified lib targets through a rustc_private driver (RUSTC_WRAPPER); no source hooks exist",
            "baseline_off_cmd": "cd /repo && cargo test --workspace --no-fail-fast --offline",
            "source_commits": [],
            "add_only": True,
        },
        "engines": [
            {"name": "geofacts", "path": "/verif/driver", "serves_properties": sorted(CLAIMED), "kind_free_text": "rustc_private driver dumping type-checked MIR, items and the monomorphic dispatch graph of /repo's current tree"},
            {"name": "rules", "path": "/verif/analyses", "serves_properties": sorted(CLAIMED), "kind_free_text": "Python static analyses over the facts: CFG path rules, dataflow/taint, dispatch classification, abstract path enumeration (decision tables), term extraction"},
        ],
        "checks": checks,
        "not_applicable": na,
        "notes": "Static analysis only: no check executes geo. Exit 2 (no VIOLATION line) means infrastructure failure, e.g. /repo does not compile.",
    }
    with open(os.path.join(HERE, "MANIFEST.json"), "w") as f:
        json.dump(m, f, indent=1)
    print("claimed:", sorted(CLAIMED), "not_applicable:", len(na))

if __name__ == "__main__":
    main()
