#!/usr/bin/env python3
"""Mutation probe (a cross-check of the checks, not a check): simple operator mutants of the lib code named by each property's anchors.

  mutate.py run --shard i/n --out /tmp/mut/run_i.jsonl [--per-file K] [--props C01,C02]
For every mutant: apply it to GEO_REPO (a scratch snapshot, e.g. `vp run --with-repo`), run the property's own quick check; a mutant the
check does not report is then run against the crate's own unit tests (`cargo test -p <crate> --lib`), because only mutants the existing
tests do NOT notice are the realistic ones.  Survivors of both are leads: equivalent mutants or gaps of the rules.
"""
import json, os, random, re, subprocess, sys, time
VERIF = os.path.dirname(os.path.dirname(os.path.abspath(__file__)))
REPO = os.environ.get("GEO_REPO") or os.environ.get("VP_RUN_REPO") or "/repo"
OPS = [(r"<=", "<"), (r">=", ">"), (r"(?<![<>=!-])<(?![<=])(?=\s)", "<="), (r"(?<![<>=!-])>(?![>=])(?=\s)", ">="), (r"==", "!="), (r"!=", "=="), (r"&&", "||"), (r"\|\|", "&&"),
       (r"(?<=\s)\+(?=\s)", "-"), (r"(?<=\s)-(?=\s)", "+"), (r"\.any\(", ".all("), (r"\.all\(", ".any("), (r"\.min\(", ".max("), (r"\.max\(", ".min("),
       (r"::zero\(\)", "::one()"), (r"\.x\b", ".y"), (r"\.y\b", ".x"), (r"\.start\b", ".end"), (r"\.end\b", ".start"), (r"\[0\]", "[1]")]


def sh(cmd, cwd=None, timeout=3600, env=None):
    e = dict(os.environ, GEO_REPO=REPO, CARGO_NET_OFFLINE="true")
    if env:
        e.update(env)
    p = subprocess.run(cmd, shell=True, cwd=cwd, stdout=subprocess.PIPE, stderr=subprocess.STDOUT, text=True, timeout=timeout, env=e)
    return p.returncode, p.stdout


def lib_lines(path):
    """(line number, text) of non-test, non-comment code lines"""
    out = []
    depth_test = None
    lines = open(path).read().split("\n")
    in_test = False
    for i, l in enumerate(lines):
        if re.match(r"\s*#\[cfg\(test\)\]", l):
            in_test = True
        if in_test:
            continue
        s = l.strip()
        if not s or s.startswith("//") or s.startswith("#[") or s.startswith("use ") or s.startswith("///") or "debug!" in s or "assert" in s or "warn!" in s or "error!" in s or "trace!" in s:
            continue
        out.append((i, l))
    return lines, out


def mutants_of(rel, k, rng):
    path = os.path.join(REPO, rel)
    if not os.path.exists(path) or not rel.endswith(".rs") or "/fuzz/" in rel or rel.endswith("lib.rs") or rel.endswith("/mod.rs") and os.path.getsize(path) < 1500:
        return []
    lines, code = lib_lines(path)
    cands = []
    for i, l in code:
        body = l.split("//")[0]
        for pat, rep_ in OPS:
            for m in re.finditer(pat, body):
                if "->" in body[max(0, m.start() - 1):m.end() + 1] or "=>" in body[max(0, m.start() - 1):m.end() + 1]:
                    continue
                if re.search(r"\bfn\b|\bimpl\b|\bwhere\b|<[A-Z]\w*[,>]|: &|Option<|Vec<|\bfor<", body) and pat in (r"(?<![<>=!-])<(?![<=])(?=\s)", r"(?<![<>=!-])>(?![>=])(?=\s)"):
                    continue
                cands.append((i, m.start(), m.end(), rep_))
    rng.shuffle(cands)
    return [(rel, i, a, b, r) for i, a, b, r in cands[:k]]


def apply(m):
    rel, i, a, b, r = m
    path = os.path.join(REPO, rel)
    lines = open(path).read().split("\n")
    old = lines[i]
    lines[i] = old[:a] + r + old[b:]
    open(path, "w").write("\n".join(lines))
    return old.strip(), lines[i].strip()


def main():
    args = sys.argv[2:]
    shard = args[args.index("--shard") + 1] if "--shard" in args else "0/1"
    out = args[args.index("--out") + 1]
    per = int(args[args.index("--per-file") + 1]) if "--per-file" in args else 6
    only = args[args.index("--props") + 1].split(",") if "--props" in args else None
    si, sn = (int(x) for x in shard.split("/"))
    os.makedirs(os.path.dirname(out), exist_ok=True)
    if not os.path.exists(os.path.join(VERIF, "driver", "target", "release", "geofacts")):
        rc, o = sh("cargo build --release --offline", cwd=os.path.join(VERIF, "driver"))
        assert rc == 0, o[-1000:]
    if not os.path.exists(os.path.join(REPO, "Cargo.lock")):
        import shutil
        shutil.copyfile("/repo/Cargo.lock", os.path.join(REPO, "Cargo.lock"))
    props = [json.loads(l) for l in open(os.path.join(VERIF, "properties.jsonl"))]
    rng = random.Random(20261002)
    todo = []
    for p in props:
        if only and p["id"] not in only:
            continue
        for rel in p["anchors"]["files"]:
            for m in mutants_of(rel, per, rng):
                todo.append((p["id"], m))
    todo = [t for k, t in enumerate(todo) if k % sn == si]
    print("shard %s: %d mutants" % (shard, len(todo)), flush=True)
    target = os.path.join(os.path.dirname(REPO.rstrip("/")), "mut-target")
    with open(out, "a") as f:
        for pid, m in todo:
            t0 = time.time()
            sh("git checkout -- .", cwd=REPO)
            old, new = apply(m)
            rc, o = sh("./check %s --tier quick" % pid, cwd=VERIF)
            keys = []
            if rc == 1:
                rp = os.path.join(VERIF, "evidence", "replay", "%s.json" % pid)
                if os.path.exists(rp):
                    keys = [v["key"] for v in json.load(open(rp))["violations"]][:3]
            rec = {"prop": pid, "file": m[0], "line": m[1] + 1, "old": old, "new": new, "check_exit": rc, "keys": keys}
            if rc == 0:
                crate = "geo-types" if m[0].startswith("geo-types/") else "geo"
                trc, to = sh("cargo test -p %s --lib --offline 2>&1 | tail -5" % crate, cwd=REPO, env={"CARGO_TARGET_DIR": target})
                mres = re.search(r"test result: (\w+)\. (\d+) passed; (\d+) failed", to)
                rec["tests"] = "compile-error" if not mres else ("%s failed" % mres.group(3))
                # baseline: geo lib has 3 failing tests (geodesic), geo-types 0
                rec["killed_by_tests"] = (not mres) or int(mres.group(3)) > (3 if crate == "geo" else 0)
            rec["wall_s"] = round(time.time() - t0, 1)
            f.write(json.dumps(rec) + "\n")
            f.flush()
            print(pid, m[0].split("/")[-1], m[1] + 1, "check=%d" % rc, rec.get("tests", ""), flush=True)
    sh("git checkout -- .", cwd=REPO)
    print("done")


if __name__ == "__main__":
    main()
