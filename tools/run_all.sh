#!/bin/bash
# usage: tools/run_all.sh [quick|thorough]  — runs all 20 checks in parallel (shared fact cache is lock-protected); prints one line per check
cd "$(dirname "$0")/.."
T=${1:-quick}
./check C18 --tier $T >/dev/null 2>&1   # warm the fact cache once
printf "%s\n" C01 C02 C03 C04 C05 C06 C07 C08 C09 C10 C11 C12 C13 C14 C15 C16 C17 C18 C19 C20 | \
  xargs -P ${P:-10} -I{} sh -c './check {} --tier '$T' > /tmp/run_all_{}.log 2>&1; echo "{} exit=$? $(grep -c "^  violated" /tmp/run_all_{}.log) violations"' | sort
