#!/usr/bin/env python3
"""Re-runs the quick check of each mutant of tools/data/mutation_survivors_round5.json (mutants that an earlier revision of the checks did not
report and that the repository's own unit tests do not notice either) against the current checks.
  vp run --with-repo -- python3 tools/mut_recheck.py --shard i/n --out /tmp/mut2/run_i.jsonl [--props C02,C03]
A cross-check of the checks (leads for new rules), not a check."""
import json, os, subprocess, sys
VERIF = os.path.dirname(os.path.dirname(os.path.abspath(__file__)))
REPO = os.environ.get("GEO_REPO") or os.environ.get("VP_RUN_REPO") or "/repo"
args = sys.argv[1:]
shard = args[args.index("--shard") + 1] if "--shard" in args else "0/1"
out = args[args.index("--out") + 1]
only = args[args.index("--props") + 1].split(",") if "--props" in args else None
si, sn = (int(x) for x in shard.split("/"))
os.makedirs(os.path.dirname(out), exist_ok=True)
env = dict(os.environ, GEO_REPO=REPO, CARGO_NET_OFFLINE="true")
if not os.path.exists(os.path.join(VERIF, "driver", "target", "release", "geofacts")):
    subprocess.run("cargo build --release --offline", shell=True, cwd=os.path.join(VERIF, "driver"), env=env, check=True)
if not os.path.exists(os.path.join(REPO, "Cargo.lock")):
    import shutil
    shutil.copyfile("/repo/Cargo.lock", os.path.join(REPO, "Cargo.lock"))
todo = json.load(open(os.path.join(VERIF, "tools", "data", "mutation_survivors_round5.json")))
todo = [r for r in todo if not only or r["prop"] in only]
todo = [r for k, r in enumerate(todo) if k % sn == si]
with open(out, "a") as f:
    for r in todo:
        path = os.path.join(REPO, r["file"])
        lines = open(path).read().split("\n")
        i = r["line"] - 1
        if lines[i].strip() != r["old"].strip():
            continue
        ind = lines[i][:len(lines[i]) - len(lines[i].lstrip())]
        lines[i] = ind + r["new"].strip()
        open(path, "w").write("\n".join(lines))
        p = subprocess.run("./check %s --tier quick" % r["prop"], shell=True, cwd=VERIF, stdout=subprocess.PIPE, stderr=subprocess.STDOUT, text=True, env=env)
        subprocess.run("git checkout -- .", shell=True, cwd=REPO)
        viol = [l.strip()[:200] for l in p.stdout.splitlines() if l.startswith("  violated")][:1]
        rec = dict(r, exit=p.returncode, viol=viol)
        f.write(json.dumps(rec) + "\n")
        f.flush()
        print(r["prop"], r["file"], r["line"], "exit=%d" % p.returncode, flush=True)
print("done")
