#!/usr/bin/env python3
"""Independently re-confirms sub-agent seeds in one scratch worktree (outside /repo and /verif):
  demo passes without the patch, fails with it; the repository's own suite gives the baseline summary with it.
Confirmed seeds are moved from seeded/_incoming_<id>/<x>/ to seeded/<id>-<x>/ with a meta.json."""
import json, os, re, shutil, subprocess, sys, time
VERIF = "/verif"; REPO = "/repo"
CDIR = os.environ.get("CONFIRM_DIR", "/tmp/confirm"); WT = CDIR + "/wt"; TARGET = CDIR + "/target"
BASE = {"geo-lib": (772, 3), "geo-doc": (166, 1)}

def sh(cmd, cwd=None, timeout=3600):
    env = dict(os.environ, CARGO_TARGET_DIR=TARGET, CARGO_NET_OFFLINE="true")
    p = subprocess.run(cmd, shell=True, cwd=cwd, env=env, stdout=subprocess.PIPE, stderr=subprocess.STDOUT, text=True, timeout=timeout)
    return p.returncode, p.stdout

def suite_summary(out):
    lines = sorted(l.strip() for l in out.splitlines() if l.startswith("test result"))
    lines = [re.sub(r"finished in .*", "", l) for l in lines]
    failed = sorted(l.strip() for l in out.splitlines() if l.endswith("... FAILED"))
    return lines, failed

def main():
    only = sys.argv[1:]
    os.makedirs(CDIR, exist_ok=True)
    if os.path.exists(WT):
        sh("git -C %s worktree remove --force %s" % (REPO, WT))
    rc, out = sh("git -C %s worktree add --detach %s HEAD" % (REPO, WT))
    assert rc == 0, out
    head = subprocess.check_output("git -C %s rev-parse --short HEAD" % REPO, shell=True, text=True).strip()
    # baseline summary at HEAD (once)
    rc, out = sh("cargo test --workspace --no-fail-fast --offline", cwd=WT)
    base_lines, base_failed = suite_summary(out)
    print("baseline at %s: %d result lines, failed=%s" % (head, len(base_lines), base_failed), flush=True)
    redo = "--all" in only
    only = [o for o in only if o != "--all"]
    todo = []
    for d in sorted(os.listdir(os.path.join(VERIF, "seeded"))):
        if d.startswith("_incoming_"):
            pid = d.replace("_incoming_", "")
            for x in "abcdefghijklmnopqr":
                todo.append((pid, "%s-%s" % (pid, x), os.path.join(VERIF, "seeded", d, x)))
        elif redo and re.match(r"^C\d\d-[a-z]$", d):
            todo.append((d[:3], d, os.path.join(VERIF, "seeded", d)))
    for pid, name, src in todo:
        if True:
            if only and name not in only:
                continue
            if not os.path.exists(os.path.join(src, "patch.diff")):
                continue
            t0 = time.time()
            demo = open(os.path.join(src, "demo.rs")).read()
            head_txt = "\n".join(demo.splitlines()[:25])
            m = re.search(r"((?:geo|geo-types)/tests/[A-Za-z0-9_]+\.rs)", head_txt)
            loc = m.group(1) if m else "geo/tests/demo_seed.rs"
            m = re.search(r"cargo test (-p [^\n]*)", head_txt)
            args = m.group(1).strip() if m else "-p geo --test %s --offline" % os.path.basename(loc)[:-3]
            args = re.sub(r"\s+2>&1.*", "", args)
            if "--offline" not in args:
                args += " --offline"
            sh("git checkout -- . && git clean -fdq -e out", cwd=WT)
            os.makedirs(os.path.dirname(os.path.join(WT, loc)), exist_ok=True)
            shutil.copyfile(os.path.join(src, "demo.rs"), os.path.join(WT, loc))
            rc0, out0 = sh("cargo test %s" % args, cwd=WT)
            rc, o = sh("git apply %s" % os.path.join(src, "patch.diff"), cwd=WT)
            applies = rc == 0
            res = {"property": pid, "seed": name, "repo_head": head, "applies_at_head": applies, "demo_location": loc,
                   "demo_cmd": "cargo test " + args, "demo_passes_without_patch": rc0 == 0}
            if applies:
                rc1, out1 = sh("cargo test %s" % args, cwd=WT)
                res["demo_fails_with_patch"] = rc1 != 0
                os.unlink(os.path.join(WT, loc))
                rc2, out2 = sh("cargo test --workspace --no-fail-fast --offline", cwd=WT)
                lines, failed = suite_summary(out2)
                res["suite_matches_baseline_with_patch"] = (lines == base_lines and failed == base_failed)
                res["suite_failed_with_patch"] = failed
                if lines != base_lines:
                    res["suite_lines_with_patch"] = lines
            res["confirmed"] = bool(applies and res["demo_passes_without_patch"] and res.get("demo_fails_with_patch") and res.get("suite_matches_baseline_with_patch"))
            res["wall_s"] = round(time.time() - t0, 1)
            notes = open(os.path.join(src, "NOTES.md")).read() if os.path.exists(os.path.join(src, "NOTES.md")) else ""
            res["needs_to_manifest"] = ""
            res["what_i_ran"] = ["git worktree add /tmp/confirm/wt HEAD", "cargo test %s   (clean tree: must pass)" % args,
                                 "git apply patch.diff; cargo test %s   (must fail)" % args,
                                 "cargo test --workspace --no-fail-fast --offline   (with patch, demo removed: summary must equal the clean-tree summary)"]
            print(name, json.dumps({k: res[k] for k in res if k not in ("what_i_ran", "suite_lines_with_patch")}), flush=True)
            dst = os.path.join(VERIF, "seeded", name)
            if res["confirmed"]:
                os.makedirs(dst, exist_ok=True)
                for f in ("patch.diff", "demo.rs", "NOTES.md"):
                    if os.path.exists(os.path.join(src, f)) and os.path.abspath(src) != os.path.abspath(dst):
                        shutil.copyfile(os.path.join(src, f), os.path.join(dst, f))
                old = {}
                if os.path.exists(os.path.join(dst, "meta.json")):
                    old = json.load(open(os.path.join(dst, "meta.json")))
                for k in ("detected_by", "needs_to_manifest", "matrix"):
                    if old.get(k):
                        res[k] = old[k]
                json.dump(res, open(os.path.join(dst, "meta.json"), "w"), indent=1)
            else:
                json.dump(res, open(os.path.join(src, "confirm_failed.json"), "w"), indent=1)
    sh("git -C %s worktree remove --force %s" % (REPO, WT))
    sh("git -C %s worktree prune" % REPO)
    shutil.rmtree(TARGET, ignore_errors=True)
    print("done")

if __name__ == "__main__":
    main()
