#!/bin/sh
# Runs the repository's own suite (guard off) and prints a summary comparable with the baseline:
# geo lib 772 passed / 3 failed (geodesic), geo doc 166 / 1 failed (geodesic), geo-types lib 85, geo-types doc 115.
cd /repo && cargo test --workspace --no-fail-fast --offline 2>&1 | grep -E "^test result|\.\.\. FAILED" | sort | uniq -c
