#!/bin/bash
# usage: seed_setup.sh <Cnn> [...]   — creates a scratch worktree /tmp/seed/<Cnn> of /repo HEAD with the property text and the prompt
set -e
BASE=${SEED_BASE:-/tmp/seed}
mkdir -p $BASE
for id in "$@"; do
  wt=$BASE/$id
  [ -d "$wt" ] && { git -C /repo worktree remove --force "$wt" || rm -rf "$wt"; }
  git -C /repo worktree add --detach "$wt" HEAD >/dev/null 2>&1
  mkdir -p "$wt/out"
  python3 - "$id" "$wt" <<'PY'
import json, sys
pid, wt = sys.argv[1], sys.argv[2]
for l in open("/verif/properties.jsonl"):
    p = json.loads(l)
    if p["id"] == pid:
        json.dump(p, open(wt + "/out/PROPERTY.json", "w"), indent=1)
open(wt + "/out/PROMPT.md", "w").write(open(__import__("os").environ.get("SEED_PROMPT","/verif/tools/SEED_PROMPT.md")).read().replace("@ID@", pid))
PY
  echo "$wt ready"
done
