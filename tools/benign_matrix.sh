#!/bin/bash
# usage: tools/benign_matrix.sh [ids...]  — applies each behaviour-preserving patch in /verif/benign, runs ALL checks, reverts; any report is a false alarm
cd /verif
for d in ${@:-$(ls benign)}; do
  P=/verif/benign/$d/patch.diff
  [ -f $P ] || continue
  cd /repo; if ! git apply --check $P 2>/dev/null; then echo "$d: patch does not apply at HEAD"; cd /verif; continue; fi
  git apply $P; cd /verif
  out=$(tools/run_all.sh quick | grep -v "exit=0")
  if [ -z "$out" ]; then echo "$d: silent"; else echo "$d: FALSE ALARM: $(echo $out)"; for f in /tmp/run_all_C*.log; do grep "^  violated" $f | cut -c1-240 | sed "s/^/     $(basename $f .log | sed s/run_all_//) /"; done; fi
  cd /repo; git checkout -- .; cd /verif
done
