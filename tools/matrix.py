#!/usr/bin/env python3
"""Shardable seed / benign matrix that can run from any checkout of /verif against any checkout of georust/geo
(GEO_REPO, default /repo) — meant for `vp run --with-repo -- python3 tools/matrix.py ...`, which gives the run its own
snapshot of both, so several shards run side by side without touching /repo.

  matrix.py seeds  --shard i/n --out /tmp/matrix/seeds_i.jsonl     each seed against its own property's check (+ EXTRA)
  matrix.py benign --shard i/n --out /tmp/matrix/benign_i.jsonl    each refactoring against ALL 20 checks (any report = false alarm)
  matrix.py merge  /tmp/matrix/*.jsonl                             (run in /verif) updates seeded/*/meta.json, seeded/RESULTS.md, benign/RESULTS.md

The driver is built in the snapshot if missing.  Results are a cross-check for DESIGN.md, not evidence."""
import json, os, re, subprocess, sys, time
VERIF = os.path.dirname(os.path.dirname(os.path.abspath(__file__)))
REPO = os.environ.get("GEO_REPO") or os.environ.get("VP_RUN_REPO") or "/repo"
PROPS = ["C%02d" % i for i in range(1, 21)]
EXTRA = {"C02-b": ["C03"], "C03-b": ["C02"], "C05-b": ["C03"], "C01-b": ["C02"], "C10-a": ["C20"]}


def sh(cmd, cwd=None, timeout=3600, env=None):
    e = dict(os.environ, GEO_REPO=REPO)
    if env:
        e.update(env)
    p = subprocess.run(cmd, shell=True, cwd=cwd, stdout=subprocess.PIPE, stderr=subprocess.STDOUT, text=True, timeout=timeout, env=e)
    return p.returncode, p.stdout


def ensure_driver():
    if not os.path.exists(os.path.join(VERIF, "driver", "target", "release", "geofacts")):
        rc, out = sh("CARGO_NET_OFFLINE=true cargo build --release --offline", cwd=os.path.join(VERIF, "driver"))
        assert rc == 0, out[-2000:]


def run_check(pid):
    rc, out = sh("./check %s --tier quick" % pid, cwd=VERIF)
    keys = []
    rp = os.path.join(VERIF, "evidence", "replay", "%s.json" % pid)
    if rc == 1 and os.path.exists(rp):
        keys = [v["key"] for v in json.load(open(rp))["violations"]]
    return rc, keys, out


def shard_of(items, spec):
    i, n = (int(x) for x in spec.split("/"))
    return [x for k, x in enumerate(items) if k % n == i]


def main():
    mode = sys.argv[1]
    if mode == "merge":
        return merge(sys.argv[2:])
    args = sys.argv[2:]
    shard = args[args.index("--shard") + 1] if "--shard" in args else "0/1"
    out = args[args.index("--out") + 1]
    only = [a for a in args if re.match(r"^[A-Z]\d\d-", a)]
    prefix = args[args.index("--prefix") + 1] if "--prefix" in args else None
    os.makedirs(os.path.dirname(out), exist_ok=True)
    ensure_driver()
    if not os.path.exists(os.path.join(REPO, "Cargo.lock")):
        # Cargo.lock is git-ignored in georust/geo: a snapshot worktree lacks it; the pinned one lives in /repo
        import shutil
        shutil.copyfile("/repo/Cargo.lock", os.path.join(REPO, "Cargo.lock"))
    rc, o = sh("git status --porcelain", cwd=REPO)
    assert not o.strip(), "repo %s not clean: %s" % (REPO, o[:200])
    src = "seeded" if mode == "seeds" else "benign"
    names = sorted(d for d in os.listdir(os.path.join(VERIF, src)) if re.match(r"^[A-Z]\d\d-[a-z0-9]+$", d) and os.path.exists(os.path.join(VERIF, src, d, "patch.diff")))
    if only:
        names = [n for n in names if n in only]
    if prefix:
        names = [n for n in names if n.startswith(prefix)]
    names = shard_of(names, shard)
    head = subprocess.check_output("git -C %s rev-parse --short HEAD" % VERIF, shell=True, text=True).strip()
    with open(out, "a") as f:
        for d in names:
            patch = os.path.join(VERIF, src, d, "patch.diff")
            t0 = time.time()
            rc, o = sh("git apply --check %s" % patch, cwd=REPO)
            if rc != 0:
                rec = {"mode": mode, "name": d, "applies": False, "verif_head": head}
            else:
                sh("git apply %s" % patch, cwd=REPO)
                det = {}
                try:
                    for c in ([d[:3]] + EXTRA.get(d, []) if mode == "seeds" else PROPS):
                        rc, keys, o = run_check(c)
                        det[c] = {"exit": rc, "violations": keys[:6]}
                        if rc == 2:
                            det[c]["tail"] = o[-600:]
                finally:
                    sh("git checkout -- . && git clean -fdq", cwd=REPO)
                rec = {"mode": mode, "name": d, "applies": True, "detected_by": det, "verif_head": head, "wall_s": round(time.time() - t0, 1)}
            f.write(json.dumps(rec) + "\n")
            f.flush()
            print(d, {c: v["exit"] for c, v in rec.get("detected_by", {}).items() if v["exit"] != 0} or rec.get("applies"), flush=True)
    print("done")


def merge(files):
    recs = {}
    for fn in files:
        for l in open(fn):
            r = json.loads(l)
            recs[(r["mode"], r["name"])] = r
    # seeds -> meta.json + RESULTS.md
    for (mode, name), r in recs.items():
        if mode != "seeds":
            continue
        mp = os.path.join(VERIF, "seeded", name, "meta.json")
        meta = json.load(open(mp)) if os.path.exists(mp) else {}
        meta["applies_at_head_now"] = r["applies"]
        if r["applies"]:
            meta["detected_by"] = r["detected_by"]
            meta["matrix_verif_head"] = r["verif_head"]
        json.dump(meta, open(mp, "w"), indent=1)
    with open(os.path.join(VERIF, "seeded", "RESULTS.md"), "w") as f:
        f.write("# Seeded changes versus the registered quick checks\n\n| seed | own property check | violations reported |\n|---|---|---|\n")
        for d in sorted(os.listdir(os.path.join(VERIF, "seeded"))):
            mp = os.path.join(VERIF, "seeded", d, "meta.json")
            if not re.match(r"^C\d+-[a-z]$", d) or not os.path.exists(mp):
                continue
            meta = json.load(open(mp))
            det = meta.get("detected_by") or {}
            own = det.get(d[:3])
            if own is None:
                f.write("| %s | not run | |\n" % d)
                continue
            f.write("| %s | %s | %s |\n" % (d, "DETECTED" if own["exit"] == 1 else "missed (exit %d)" % own["exit"],
                                              "; ".join("%s: %s" % (c, ",".join(v["violations"]) or "-") for c, v in det.items())))
    ben = sorted((n, r) for (m, n), r in recs.items() if m == "benign")
    if ben:
        with open(os.path.join(VERIF, "benign", "RESULTS.md"), "w") as f:
            f.write("# Behaviour-preserving refactorings versus ALL quick checks (any report is a false alarm)\n\n| refactoring | result | reports |\n|---|---|---|\n")
            for n, r in ben:
                if not r["applies"]:
                    f.write("| %s | patch does not apply at HEAD | |\n" % n)
                    continue
                bad = {c: v for c, v in r["detected_by"].items() if v["exit"] != 0}
                f.write("| %s | %s | %s |\n" % (n, "silent" if not bad else "FALSE ALARM", "; ".join("%s(exit %d): %s" % (c, v["exit"], ",".join(v["violations"][:3])) for c, v in bad.items())))
    s_all = [r for (m, n), r in recs.items() if m == "seeds" and r["applies"]]
    print("seeds: %d run, %d detected by own check; benign: %d run, %d silent" % (
        len(s_all), sum(1 for r in s_all if r["detected_by"][r["name"][:3]]["exit"] == 1),
        len([1 for n, r in ben if r["applies"]]), sum(1 for n, r in ben if r["applies"] and all(v["exit"] == 0 for v in r["detected_by"].values()))))


if __name__ == "__main__":
    main()
