#!/bin/sh
# usage: tools/try_seed.sh <patch.diff> <Cnn> [<Cnn> ...]   — applies the patch to /repo, runs the checks, reverts.
P="$1"; shift
cd /repo || exit 2
git apply --check "$P" || { echo "patch does not apply"; exit 2; }
git apply "$P"
cd /verif
for c in "$@"; do ./check "$c" --tier ${TIER:-quick} 2>&1 | grep -v "^\[extract\]" | cut -c1-${W:-260}; echo "exit=$?"; done
cd /repo && git checkout -- . && git status --short | head -3
