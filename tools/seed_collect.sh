#!/bin/bash
# usage: seed_collect.sh <Cnn> <x> <y>  — copies out/a,out/b of the scratch worktree to seeded/_incoming_<Cnn>/<x>,<y> and removes the worktree
set -e
id=$1; x=${2:-a}; y=${3:-b}
wt=/tmp/seed/$id
dst=/verif/seeded/_incoming_$id
mkdir -p $dst
[ -d $wt/out/a ] && { rm -rf $dst/$x; cp -r $wt/out/a $dst/$x; }
[ -d $wt/out/b ] && { rm -rf $dst/$y; cp -r $wt/out/b $dst/$y; }
rm -f $dst/*/suite_with_change.log
git -C /repo worktree remove --force $wt || rm -rf $wt
git -C /repo worktree prune
echo collected $id
