#!/usr/bin/env python3
"""Runs every confirmed seed in /verif/seeded against its own property's check (and optionally others):
applies the patch to /repo, runs ./check, reverts.  Results go to seeded/<id>/meta.json (detected_by) and
seeded/RESULTS.md.  /repo must be clean."""
import json, os, re, subprocess, sys, time
VERIF = "/verif"; REPO = "/repo"
EXTRA = {"C02-b": ["C03"], "C03-b": ["C02"], "C05-b": ["C03"], "C01-b": ["C02"], "C10-a": ["C20"]}

def sh(cmd, cwd=None, timeout=1800):
    p = subprocess.run(cmd, shell=True, cwd=cwd, stdout=subprocess.PIPE, stderr=subprocess.STDOUT, text=True, timeout=timeout)
    return p.returncode, p.stdout

def main():
    only = sys.argv[1:]
    rc, out = sh("git status --porcelain", cwd=REPO)
    assert not out.strip(), "repo not clean"
    rows = []
    for d in sorted(os.listdir(os.path.join(VERIF, "seeded"))):
        m = re.match(r"^(C\d+)-([a-z])$", d)
        if not m or (only and d not in only):
            continue
        pid = m.group(1)
        patch = os.path.join(VERIF, "seeded", d, "patch.diff")
        rc, out = sh("git apply --check %s" % patch, cwd=REPO)
        meta_p = os.path.join(VERIF, "seeded", d, "meta.json")
        meta = json.load(open(meta_p)) if os.path.exists(meta_p) else {}
        if rc != 0:
            rows.append((d, "patch does not apply at HEAD", ""))
            meta["applies_at_head_now"] = False
            json.dump(meta, open(meta_p, "w"), indent=1)
            continue
        sh("git apply %s" % patch, cwd=REPO)
        det = {}
        try:
            for c in [pid] + EXTRA.get(d, []):
                rc, out = sh("./check %s --tier quick" % c, cwd=VERIF)
                keys = []
                rp = os.path.join(VERIF, "evidence", "replay", "%s.json" % c)
                if rc == 1 and os.path.exists(rp):
                    keys = [v["key"] for v in json.load(open(rp))["violations"]]
                det[c] = {"exit": rc, "violations": keys[:6]}
        finally:
            sh("git checkout -- .", cwd=REPO)
        meta["detected_by"] = det
        meta["applies_at_head_now"] = True
        json.dump(meta, open(meta_p, "w"), indent=1)
        own = det[pid]
        rows.append((d, "DETECTED" if own["exit"] == 1 else "missed (exit %d)" % own["exit"], "; ".join("%s: %s" % (c, ",".join(v["violations"]) or "-") for c, v in det.items())))
        print(rows[-1], flush=True)
    # RESULTS.md is rebuilt from every seed's meta.json (so partial runs keep the other rows)
    with open(os.path.join(VERIF, "seeded", "RESULTS.md"), "w") as f:
        f.write("# Seeded changes versus the registered quick checks\n\n| seed | own property check | violations reported |\n|---|---|---|\n")
        for d in sorted(os.listdir(os.path.join(VERIF, "seeded"))):
            mp = os.path.join(VERIF, "seeded", d, "meta.json")
            if not re.match(r"^C\d+-[a-z]$", d) or not os.path.exists(mp):
                continue
            meta = json.load(open(mp))
            det = meta.get("detected_by") or {}
            own = det.get(d[:3])
            if own is None:
                f.write("| %s | not run | |\n" % d)
                continue
            f.write("| %s | %s | %s |\n" % (d, "DETECTED" if own["exit"] == 1 else "missed (exit %d)" % own["exit"],
                                              "; ".join("%s: %s" % (c, ",".join(v["violations"]) or "-") for c, v in det.items())))
    print("done")

if __name__ == "__main__":
    main()
