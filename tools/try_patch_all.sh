#!/bin/bash
# usage: tools/try_patch_all.sh <abs patch>  — applies the patch to /repo, runs all checks, reverts; prints the checks that report
P="$1"
cd /repo || exit 2
git apply --check "$P" || { echo "patch does not apply"; exit 2; }
git apply "$P"
/verif/tools/run_all.sh quick | grep -v "exit=0" 
for f in /tmp/run_all_C*.log; do grep "^  violated" $f | cut -c1-${W:-220}; done
cd /repo && git checkout -- . && git status --short | head -3
