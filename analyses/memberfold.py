"""Evaluation of a container method's path table on a concrete *member assignment*.

The paths come from analyses/symex.py with every call uninterpreted and loops unrolled.  A member assignment gives, for
each of the first k members the loop visits, the value of every attribute method the body may ask (e.g. `dimensions`,
`is_closed`), and the value of whole-collection attribute calls.  Each `Iterator::next` call of a path (in order of its
effect id) yields the next member or None.  Exactly one returning path must be selected by an assignment whose member
count is within the unrolling bound; its result term is then evaluated under the same assignment.
"""
from .evalterm import Evaluator, Enum, NoModel


def subterms(t, out):
    if isinstance(t, tuple):
        out.append(t)
        for x in t:
            if isinstance(x, tuple):
                subterms(x, out)
    return out


def method(path):
    return path.rsplit("::", 1)[-1]


class MemberEval(Evaluator):
    def __init__(self, F, path, members, whole, attrs, calls=None):
        Evaluator.__init__(self, F, {}, calls or {})
        self.members = members
        self.whole = whole
        self.attrs = attrs
        nexts = []
        for t, _ in path.pc:
            for s in subterms(t, []):
                if s and s[0] == "call" and len(s) == 4 and method(s[1]) == "next" and s not in nexts:
                    nexts.append(s)
        if path.ret is not None:
            for s in subterms(path.ret, []):
                if s and s[0] == "call" and len(s) == 4 and method(s[1]) == "next" and s not in nexts:
                    nexts.append(s)
        nexts.sort(key=lambda s: s[3])
        self.order = {s: i for i, s in enumerate(nexts)}

    def call(self, t):
        path = t[1]
        m = method(path)
        if m == "next" and t in self.order:
            k = self.order[t]
            if k < len(self.members):
                return Enum("core::option::Option", "Some", [("member", k)])
            return Enum("core::option::Option", "None")
        if m in ("into_iter", "iter", "iter_mut"):
            return ("iter",)
        if m in self.attrs and t[2]:
            v = self.ev(t[2][0])
            if isinstance(v, tuple) and len(v) == 2 and v[0] == "member":
                return self.members[v[1]][m]
            if v == "WHOLE" or v is self.whole:
                if m in self.whole:
                    return self.whole[m]
                raise NoModel("whole-collection attribute %s" % m)
        return Evaluator.call(self, t)

    def ev(self, t):
        if t == ("arg", 1):
            return "WHOLE"
        if isinstance(t, tuple) and t and t[0] == "havoc":
            # an iterator advanced by next(): its identity does not matter
            return ("iter",)
        return Evaluator.ev(self, t)


def select(F, paths, members, whole, attrs):
    """-> (path, value) of the unique returning/panicking path selected by the assignment; None if only cut paths match"""
    hits = []
    for p in paths:
        ev = MemberEval(F, p, members, whole, attrs)
        ok = True
        for t, v in p.pc:
            val = ev.ev(t)
            if isinstance(val, bool):
                val = 1 if val else 0
            if isinstance(val, Enum):
                val = ev.discr_of(val)
            if isinstance(v, tuple) and v and v[0] == "notin":
                if val in v[1]:
                    ok = False
                    break
            elif val != v:
                ok = False
                break
        if ok:
            hits.append((p, ev))
    return hits
