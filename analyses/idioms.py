"""Recognisers for loop idioms in symbolic path traces (bounded abstract unrolling)."""
import re

MUT_ITER_CREATE = re.compile(
    r"^<&'a mut alloc::vec::Vec<T, A> as core::iter::traits::collect::IntoIterator>::into_iter$"
    r"|^<&'a mut \[T\] as core::iter::traits::collect::IntoIterator>::into_iter$"
    r"|^core::slice::<impl \[T\]>::iter_mut$")
MUT_ITER_NEXT = re.compile(r"^<core::slice::iter::IterMut<'a, T> as core::iter::traits::iterator::Iterator>::next$")


def is_mut_iter_creation(ev):
    return ev[0] == "call" and MUT_ITER_CREATE.search(ev[1]) is not None


def contains_call_uid(t, uid):
    if not isinstance(t, tuple) or not t:
        return False
    if t[0] == "call" and len(t) > 3 and t[3] == uid:
        return True
    return any(contains_call_uid(x, uid) for x in t if isinstance(x, tuple))


def is_iter_value(t, uid):
    """t is the iterator created by call #uid itself (behind borrows / after having been advanced)."""
    while isinstance(t, tuple) and t and t[0] in ("&", "havoc"):
        t = t[1] if t[0] == "&" else t[2]
    return isinstance(t, tuple) and len(t) > 3 and t[0] == "call" and t[3] == uid


def complete_apply_all(path, iter_uid, fn_re, closure_applies=None):
    """The iterator created by call #iter_uid is driven to exhaustion by plain `next` calls and every element it
    yields is passed (as the `&mut` it is) to a function matching fn_re before the following `next`.
    -> (ok, explanation)"""
    pc = dict(path.pc)
    tr = path.trace
    idx = None
    for i, e in enumerate(tr):
        if e[0] == "call" and e[3] == iter_uid:
            idx = i
    if idx is None:
        return False, "iterator creation not found"
    nexts = []
    for i in range(idx + 1, len(tr)):
        e = tr[i]
        if e[0] == "call" and e[1].endswith("::for_each") and len(e[2]) == 2 and is_iter_value(e[2][0], iter_uid) and closure_applies is not None and not nexts:
            # iter_mut().for_each(|r| r.close()): for_each drives the iterator to exhaustion and applies the closure to every element
            if closure_applies(e[2][1]):
                return True, "for_each over the whole iterator with a closing closure"
            return False, "for_each with a closure that does not apply the closing function to its element"
        if e[0] != "call" or e[3] is None:
            continue
        if any(is_iter_value(a, iter_uid) for a in e[2]):
            if MUT_ITER_NEXT.search(e[1]):
                nexts.append((i, e))
            elif e[1].endswith("::for_each") and len(e[2]) == 2 and closure_applies is not None and not nexts:
                # iter_mut().for_each(|r| r.close()): for_each drives the iterator to exhaustion and applies the closure to every element
                if closure_applies(e[2][1]):
                    return True, "for_each over the whole iterator with a closing closure"
                return False, "for_each with a closure that does not apply the closing function to its element"
            else:
                return False, "the iterator is passed to %s (only a plain `next` loop is recognised)" % e[1]
    if not nexts:
        return False, "the iterator is never advanced"
    n_some = 0
    for k, (i, e) in enumerate(nexts):
        term = ("call", e[1], e[2], e[3])
        d = None
        for t, v in path.pc:
            if t[0] == "discr" and t[1] == term:
                d = v
        last = k == len(nexts) - 1
        if d is None:
            return False, "outcome of next() is not examined"
        if d == 0:
            if not last:
                return False, "next() after None"
            return True, "%d element(s) unrolled, each closed, then None" % n_some
        # Some(payload): must be closed before the following next / end of path
        n_some += 1
        payload = ("field", ("as", term, "Some"), "0")
        end = nexts[k + 1][0] if not last else len(tr)
        hit = False
        for j in range(i + 1, end):
            x = tr[j]
            if x[0] == "call" and re.search(fn_re, x[1]) and len(x) > 6 and any(l == (("S", payload), ()) for l in x[6]):
                hit = True
        if not hit:
            return False, "element %d yielded by next() is not passed to the closing function before the next step" % n_some
        if last:
            return False, "the loop is left before the iterator is exhausted"
    return False, "?"


def call_scope(F, fn, prefix, stop=()):
    """fn, the private helpers under the def-path `prefix` that it calls (transitively), and all their closures: rules that look for a call
    or a closure `in this algorithm` use the scope, so that extracting or inlining a helper does not hide what they look for.
    -> (functions, closures)"""
    seen, todo = [], [fn]
    while todo:
        g = todo.pop()
        if g in seen:
            continue
        seen.append(g)
        for c in g.calls():
            h = F.fns.get(c.path or "")
            if h is not None and h.kind != "Closure" and h.path.startswith(prefix) and not any(h.path.endswith(x) for x in stop) and h not in seen:
                todo.append(h)
        for cl in F.closures_of(g):
            if cl not in seen:
                todo.append(cl)
    return [g for g in seen if g.kind != "Closure"], [g for g in seen if g.kind == "Closure"]
