"""Rule-instance bookkeeping, known findings, evidence files, VIOLATION / KNOWN-FINDING lines."""
import json
import os
import sys
import time

VERIF = os.path.dirname(os.path.dirname(os.path.abspath(__file__)))
KNOWN = os.path.join(VERIF, "known_findings.txt")


def thorough():
    """True when the running check was started with --tier thorough (larger catalogues / deeper unrolling)"""
    return os.environ.get("VERIF_TIER_EFFECTIVE") == "thorough"


def load_known():
    """finding: property=<id> key=<rule:key> :: text   |   fixed: property=<id> <commit> key=<...> :: text"""
    findings = {}
    if not os.path.exists(KNOWN):
        return findings
    for line in open(KNOWN):
        line = line.strip()
        if not line.startswith("finding:"):
            continue
        body = line[len("finding:"):].strip()
        head, _, text = body.partition(" :: ")
        import re as _re
        m = _re.match(r"^property=(\S+)\s+key=(.*)$", head.strip())      # a key may contain spaces (type paths such as `<X as Trait>::f`)
        if m:
            findings[(m.group(1), m.group(2).strip())] = text.strip()
    return findings


class Report:
    def __init__(self, pid, tier, level, checker_cmd):
        self.pid = pid
        self.tier = tier
        self.level = level
        self.checker_cmd = checker_cmd
        self.t0 = time.time()
        self.instances = []      # (rule, key, ok)
        self.violations = []     # dicts
        self.controls = {}       # rule -> fired?
        self.notes = {}
        self.samples = []
        self.assumptions = []
        self.trusted = []
        self.explanation = ""
        self.rules = {}          # rule id -> description
        self.info = {}

    # ---- recording
    def rule(self, rid, text):
        self.rules[rid] = text

    def ok(self, rule, key, sample=None):
        self.instances.append((rule, key, True))
        if sample is not None and len([s for s in self.samples if s.get("rule") == rule]) < 3:
            self.samples.append({"rule": rule, "instance": key, "detail": sample})

    def bad(self, rule, key, msg, where=None, detail=None):
        """A violated rule instance. `key` must be stable (no line numbers)."""
        self.instances.append((rule, key, False))
        k = "%s:%s" % (rule, key)
        for v in self.violations:
            if v["key"] == k:
                v["count"] = v.get("count", 1) + 1
                return
        self.violations.append({"rule": rule, "key": k, "msg": msg, "where": where, "detail": detail})

    def floor(self, rule, what, count, minimum):
        self.info.setdefault("floors", {})["%s:%s" % (rule, what)] = {"count": count, "floor": minimum}
        if count < minimum:
            self.bad(rule, "floor:%s" % what,
                     "rule matched %d instance(s) of %s, fewer than the %d confirmed on the pinned tree: the rule can no longer see what it has to check (fail closed)" % (count, what, minimum))

    def control(self, rule, fired):
        self.controls[rule] = self.controls.get(rule, False) or bool(fired)

    def expect_control(self, rule):
        self.controls.setdefault(rule, False)

    # ---- finishing
    def finish(self):
        known = load_known()
        wall = time.time() - self.t0
        out_lines = []
        new = []
        suppressed = []
        for v in self.violations:
            k = (self.pid, v["key"])
            if k in known:
                suppressed.append(v)
                out_lines.append("KNOWN-FINDING: property=%s %s — %s" % (self.pid, v["key"], known[k]))
            else:
                new.append(v)
        infra = [r for r, fired in self.controls.items() if not fired]
        os.makedirs(os.path.join(VERIF, "evidence", "replay"), exist_ok=True)
        replay = os.path.join(VERIF, "evidence", "replay", "%s.json" % self.pid)
        if not new and os.path.exists(replay):
            os.unlink(replay)       # a replay file only exists for the violations of the latest run
        if new:
            with open(replay, "w") as f:
                json.dump({"property": self.pid, "tier": self.tier, "violations": new}, f, indent=1)
        n_inst = len(self.instances)
        n_ok = sum(1 for i in self.instances if i[2])
        distinct = len({(r, k) for r, k, _ in self.instances})
        per_rule = {}
        for r, k, ok in self.instances:
            d = per_rule.setdefault(r, {"instances": 0, "passed": 0})
            d["instances"] += 1
            d["passed"] += 1 if ok else 0
        for r, d in per_rule.items():
            d["rule"] = self.rules.get(r, "")
        cov = {
            "obligations": n_inst,
            "discharged": n_ok,
            "checker_cmd": self.checker_cmd,
            "trusted_base": self.trusted,
            "evaluations": max(n_inst, 1),
            "distinct_nontrivial": distinct,
            "rule": "one evaluation = one rule instance (a function, call site, path, dispatch edge or decision-table row selected from the type-checked MIR of /repo's current tree); distinct = distinct (rule, instance key) pairs; all are non-trivial in the sense that each is a construct the property depends on",
            "samples": self.samples[:12] or [{"note": "no instance"}],
            "explanation": self.explanation,
            "rules": per_rule,
            "controls_fired": self.controls,
            "known_findings_reported": [v["key"] for v in suppressed],
            "exhaustive": True,
        }
        cov.update(self.info)
        ev = {
            "property_id": self.pid,
            "tier": self.tier,
            "seed": int(os.environ.get("VERIF_SEED", "0") or 0),
            "level": self.level,
            "coverage": cov,
            "assumptions": self.assumptions,
            "wall_s": round(wall, 2),
            "violations": len(new),
        }
        with open(os.path.join(VERIF, "evidence", "%s.json" % self.pid), "w") as f:
            json.dump(ev, f, indent=1, sort_keys=False)
        for l in out_lines:
            print(l)
        print("[%s] tier=%s rules=%d instances=%d passed=%d known=%d new=%d controls=%s wall=%.1fs" % (
            self.pid, self.tier, len(per_rule), n_inst, n_ok, len(suppressed), len(new),
            "ok" if not infra else "MISSING:" + ",".join(infra), wall))
        if infra:
            print("INFRASTRUCTURE: positive control(s) did not fire for rule(s) %s — the checker is broken, no verdict" % ",".join(infra), file=sys.stderr)
            return 2
        if new:
            for v in new[:12]:
                print("  violated %s at %s: %s%s" % (v["key"], v.get("where"), v["msg"], " (x%d)" % v["count"] if v.get("count") else ""))
            if len(new) > 12:
                print("  ... and %d more (see the replay file)" % (len(new) - 12))
            print("VIOLATION property=%s replay=%s" % (self.pid, replay))
            return 1
        return 0


class Alias:
    """forwards a rule set written for another property to this report under one rule id (shared rules)"""
    def __init__(self, rep, rule, suffix=""):
        self.rep, self.r, self.suffix = rep, rule, suffix
        self.info = rep.info

    def rule(self, rid, text):
        pass

    def ok(self, rid, key, sample=None):
        self.rep.ok(self.r, key, sample=sample)

    def bad(self, rid, key, msg, where=None, detail=None):
        self.rep.bad(self.r, key, msg + self.suffix, where=where, detail=detail)

    def floor(self, rid, *a):
        self.rep.floor(self.r, *a)

    # positive controls of the original rule set are run by its own property's check; under an alias they are not repeated
    def expect_control(self, *a, **kw):
        pass

    def control(self, *a, **kw):
        pass
