"""E2 helpers: access-path canonicalisation (copy/borrow provenance of MIR temporaries) and a small
forward taint engine over MIR locals with interprocedural summaries."""
from .facts import op_place, place_str, Call


class AccessPaths:
    """Canonical access paths for the places of one MIR body.

    MIR temporaries are (almost always) assigned once: `_5 = &mut (*_1).exterior`.  For every local
    with exactly one assignment whose rvalue is a borrow / copy / move / pointer cast of a place, the
    local is an alias of that place.  canon(place) expands aliases until it reaches an argument, a
    multiply-assigned local or a call result, giving e.g. ('arg1', 'deref', 'exterior').
    A borrow `&p` followed by a deref cancels out.
    """

    def __init__(self, fn):
        self.fn = fn
        self.defs = {}      # local -> list of (bb, rvalue | ('call', Call))
        for bb in fn.normal_blocks():
            for st in fn.stmts(bb):
                if st[0] == "assign" and not st[1]["p"]:
                    self.defs.setdefault(st[1]["l"], []).append((bb, st[2]))
            t = fn.term(bb)
            if t["k"] == "call" and not t["dest"]["p"]:
                self.defs.setdefault(t["dest"]["l"], []).append((bb, ("call", bb)))
        self._memo = {}

    def single_def(self, local):
        d = self.defs.get(local, [])
        return d[0] if len(d) == 1 else None

    def root(self, local):
        """-> (kind, payload, projection-tuple) where kind in arg|local|call|const|agg|other"""
        if local in self._memo:
            return self._memo[local]
        self._memo[local] = ("local", local, ())      # cycle guard
        res = ("local", local, ())
        if 1 <= local <= self.fn.arg_count:
            res = ("arg", local, ())
        else:
            d = self.single_def(local)
            if d is not None:
                bb, rv = d
                if rv[0] == "call":
                    res = ("call", rv[1], ())
                elif rv[0] == "use":
                    p = op_place(rv[1])
                    if p is not None:
                        res = self.canon(p)
                    else:
                        res = ("const", rv[1].get("const"), ())
                elif rv[0] in ("ref", "rawptr"):
                    k, pl, pr = self.canon(rv[2])
                    res = (k, pl, pr + ("&",))
                elif rv[0] == "cast" and rv[1] in ("PtrToPtr", "Transmute") or (rv[0] == "cast" and rv[1].startswith("PointerCoercion")):
                    p = op_place(rv[2])
                    if p is not None:
                        res = self.canon(p)
                elif rv[0] == "agg":
                    res = ("agg", (bb, local), ())
        self._memo[local] = res
        return res

    def canon(self, place):
        k, pl, pr = self.root(place["l"])
        pr = list(pr)
        for e in place["p"]:
            if e[0] == "deref":
                if pr and pr[-1] == "&":
                    pr.pop()
                else:
                    pr.append("*")
            elif e[0] == "field":
                pr.append(e[2] if e[2] is not None else str(e[1]))
            elif e[0] == "downcast":
                pr.append("as:%s" % e[2])
            elif e[0] == "index":
                pr.append("[]")
            elif e[0] == "cindex":
                pr.append("[%s%d]" % ("-" if e[3] else "", e[1]))
            else:
                pr.append("<%s>" % e[0])
        return (k, pl, tuple(pr))

    def canon_op(self, op):
        p = op_place(op)
        if p is None:
            return ("const", op.get("const"), ())
        return self.canon(p)

    def show(self, c):
        k, pl, pr = c
        base = {"arg": "arg%s", "local": "_%s", "call": "call@bb%s", "const": "const(%s)", "agg": "agg%s"}.get(k, "?%s") % (pl,)
        return base + "".join("." + x for x in pr)


def strip_ref(c):
    """Drop trailing borrow / leading deref noise to compare 'the same storage'."""
    k, pl, pr = c
    pr = tuple(x for x in pr if x not in ("&", "*"))
    return (k, pl, pr)


# ---------------------------------------------------------------------------------------------------
class Taint:
    """Forward taint over MIR locals (flow- and field-insensitive inside a body) with label sets and
    parameter-sensitive interprocedural summaries.

    A label is either a source description (str) or ("param", i).  The summary of a function is
        ret      : labels reaching the return value
        muts[i]  : labels written through the `&mut` parameter i
    computed with every parameter i carrying ("param", i); at a call site ("param", i) is replaced by the labels
    of the i-th argument.  Closures passed to a call are analysed with their parameters carrying the labels of the
    call's other arguments; what they return flows into the call's result.

    policy:
      source(call) / source_stmt(fn, rv) -> label or None
      sanitizer(call) -> bool                      result clean, nothing flows
      transfer(call) -> None | list of arg indices whose labels reach the result (library knowledge)
      taints_mut_arg(call, i) -> bool              may the call store argument data through its &mut argument i?
      stmt_blocks(fn, rv) -> bool                  rvalue does not propagate (e.g. ==, != for address taint)
    """

    def __init__(self, facts, policy, crates=("geo", "geo_types"), extra_crates=()):
        self.F = facts
        self.policy = policy
        self.crates = tuple(crates) + tuple(extra_crates)
        self.summ = {}            # fn key -> (frozenset ret, {i: frozenset})
        self.closure_in = {}      # closure key -> frozenset labels for its params ; "env:"+key for captures
        self.local_maps = {}      # fn key -> {local: frozenset}
        self.sources = {}         # (fn key, line, label)
        self.fns = [f for f in facts.by_key.values() if f.crate in self.crates and f.kind in ("Fn", "AssocFn", "Closure")]
        self._aps = {}
        self._keys = {f.key for f in self.fns}

    def run(self, max_rounds=25):
        # dependency-driven fixpoint: a function is re-analysed when a callee's summary, one of its closures'
        # summaries, or (for a closure) the labels handed to it changed
        callers = {}
        by_key = {f.key: f for f in self.fns}
        for f in self.fns:
            for c in f.calls():
                r = c.raw["func"].get("fn", {}).get("resolved") if not c.indirect else None
                if r and r["key"] in by_key:
                    callers.setdefault(r["key"], set()).add(f.key)
            if f.kind == "Closure" and f.parent in by_key:
                callers.setdefault(f.key, set()).add(f.parent)
        dirty = set(by_key)
        for rounds in range(max_rounds):
            if not dirty:
                break
            nxt = set()
            for fn in self.fns:
                if fn.key not in dirty:
                    continue
                before = self.summ.get(fn.key)
                self._touched = set()
                s = self.analyse(fn)
                if s != before:
                    self.summ[fn.key] = s
                    nxt |= callers.get(fn.key, set())
                for ck in self._touched:
                    if ck in by_key:
                        nxt.add(ck)
            dirty = nxt
        return self

    _touched = set()

    # -- helpers
    def ap(self, fn):
        a = self._aps.get(fn.key)
        if a is None:
            a = self._aps[fn.key] = AccessPaths(fn)
        return a

    def root_of(self, ap, place):
        k, pl, _ = ap.canon(place)
        if k in ("arg", "local"):
            return pl
        if k == "call":
            return ap.fn.term(pl)["dest"]["l"]
        if k == "agg":
            return pl[1]
        return place["l"]

    def labels(self, fn, local):
        return self.local_maps.get(fn.key, {}).get(local, frozenset())

    def real(self, labs):
        """labels that are genuine sources (not parameter placeholders)"""
        return frozenset(l for l in labs if not isinstance(l, tuple))

    def analyse(self, fn):
        pol = self.policy
        ap = self.ap(fn)
        T = {}

        def get(l):
            return T.get(l, frozenset())

        def of_place(p):
            s = get(self.root_of(ap, p)) | get(p["l"])
            return s

        def of_op(o):
            p = op_place(o)
            return of_place(p) if p is not None else frozenset()

        def add(p, labs):
            if not labs:
                return False
            ch = False
            for l in {self.root_of(ap, p), p["l"]}:
                old = T.get(l, frozenset())
                new = old | labs
                if new != old:
                    T[l] = new
                    ch = True
            return ch

        if fn.kind == "Closure":
            pin = self.closure_in.get(fn.key, frozenset())
            for i in range(2, fn.arg_count + 1):
                T[i] = pin | {("param", i)}
            T[1] = self.closure_in.get("env:" + fn.key, frozenset()) | {("param", 1)}
        else:
            for i in range(1, fn.arg_count + 1):
                T[i] = frozenset([("param", i)])

        closure_of_local = {}
        for bb, pl, rv, line in fn.all_assigns():
            if rv[0] == "agg" and isinstance(rv[1], dict) and "closure" in rv[1] and not pl["p"]:
                closure_of_local[pl["l"]] = (rv[1]["key"], rv[2])

        def closure_of(op):
            p = op_place(op)
            if p is None:
                return None
            return closure_of_local.get(self.root_of(ap, p)) or closure_of_local.get(p["l"])

        changed = True
        it = 0
        while changed and it < 40:
            it += 1
            changed = False
            for bb in fn.normal_blocks():
                for st in fn.stmts(bb):
                    if st[0] != "assign":
                        continue
                    pl, rv, line = st[1], st[2], st[3]
                    labs = frozenset()
                    s = pol.source_stmt(fn, rv) if hasattr(pol, "source_stmt") else None
                    if s:
                        labs = frozenset([s])
                        self.sources[(fn.key, line, s)] = fn
                    ops = []
                    if rv[0] == "use":
                        ops = [rv[1]]
                    elif rv[0] in ("ref", "rawptr"):
                        labs |= of_place(rv[2])
                    elif rv[0] == "bin":
                        ops = [rv[2], rv[3]]
                    elif rv[0] in ("un", "cast"):
                        ops = [rv[2]]
                    elif rv[0] == "agg":
                        ops = rv[2]
                    elif rv[0] == "discr":
                        labs |= of_place(rv[1])
                    elif rv[0] == "repeat":
                        ops = [rv[1]]
                    if not (hasattr(pol, "stmt_blocks") and pol.stmt_blocks(fn, rv)):
                        for o in ops:
                            labs |= of_op(o)
                    # writing through a projection with a tainted *index* does not taint the container's values
                    if add(pl, labs):
                        changed = True
                t = fn.term(bb)
                if t["k"] != "call":
                    continue
                c = Call(fn, bb, t)
                arg_labs = [of_op(a) for a in c.args]
                ret = frozenset()
                muts = {}
                src = pol.source(c)
                if src:
                    ret = frozenset([src])
                    self.sources[(fn.key, c.line, src)] = fn
                elif pol.sanitizer(c):
                    ret = frozenset()
                else:
                    r = c.raw["func"].get("fn", {}).get("resolved") if not c.indirect else None
                    summ = self.summ.get(r["key"]) if r else None
                    if summ is None and r and r["key"] in self._keys:
                        summ = (frozenset(), {})      # not analysed yet: bottom (the caller is re-analysed when it appears)
                    tr = pol.transfer(c) if hasattr(pol, "transfer") else None
                    if tr is not None:
                        for i in tr:
                            if i < len(arg_labs):
                                ret |= arg_labs[i]
                    elif summ is not None and r["crate"] in self.crates:
                        sret, smuts = summ
                        for l in sret:
                            if isinstance(l, tuple):
                                if l[1] - 1 < len(arg_labs):
                                    ret |= arg_labs[l[1] - 1]
                            else:
                                ret |= {l}
                        for i, ls in smuts.items():
                            acc = frozenset()
                            for l in ls:
                                if isinstance(l, tuple):
                                    if l[1] - 1 < len(arg_labs):
                                        acc |= arg_labs[l[1] - 1]
                                else:
                                    acc |= {l}
                            muts[i - 1] = acc
                    else:
                        # unknown callee: everything flows to the result, and into &mut arguments if the policy says so
                        for ls in arg_labs:
                            ret |= ls
                        tys = c.raw.get("arg_tys", [])
                        for i, ty in enumerate(tys):
                            if ty.startswith("&mut") and pol.taints_mut_arg(c, i):
                                acc = frozenset()
                                for j, ls in enumerate(arg_labs):
                                    if j != i:
                                        acc |= ls
                                muts[i] = acc
                    # closures passed to the call
                    for i, a in enumerate(c.args):
                        ck = closure_of(a)
                        if not ck:
                            continue
                        others = frozenset()
                        for j, ls in enumerate(arg_labs):
                            if j != i:
                                others |= ls
                        others = frozenset(l for l in others)
                        old = self.closure_in.get(ck[0], frozenset())
                        if not others <= old:
                            self.closure_in[ck[0]] = old | others
                            self._touched.add(ck[0])
                        cap = frozenset()
                        for o in ck[1]:
                            cap |= of_op(o)
                        olde = self.closure_in.get("env:" + ck[0], frozenset())
                        if not cap <= olde:
                            self.closure_in["env:" + ck[0]] = olde | cap
                            self._touched.add(ck[0])
                        cs = self.summ.get(ck[0])
                        if cs:
                            ret |= frozenset(l for l in cs[0] if not isinstance(l, tuple))
                            # data written by the closure through captured &mut places
                            for l in cs[1].get(1, frozenset()):
                                if not isinstance(l, tuple):
                                    for o in ck[1]:
                                        p = op_place(o)
                                        # only captures by `&mut` can be written by the closure
                                        if p is not None and fn.locals[p["l"]].startswith("&mut") and add(p, frozenset([l])):
                                            changed = True
                for i, ls in muts.items():
                    if i < len(c.args):
                        p = op_place(c.args[i])
                        if p is not None and add(p, ls):
                            changed = True
                if add(t["dest"], ret):
                    changed = True
        self.local_maps[fn.key] = T
        ret = T.get(0, frozenset())
        muts = {}
        for i in range(1, fn.arg_count + 1):
            ty = fn.locals[i]
            if ty.startswith("&mut") or fn.kind == "Closure" and i == 1:
                ls = T.get(i, frozenset()) - {("param", i)}
                if ls:
                    muts[i] = ls
        return (ret, muts)

    # -- queries after run()
    def tainted_calls(self, fn):
        """[(Call, [labels per arg])] for calls of fn with at least one argument carrying a real label."""
        out = []
        ap = self.ap(fn)
        T = self.local_maps.get(fn.key, {})
        for c in fn.calls():
            ls = []
            for a in c.args:
                p = op_place(a)
                s = frozenset()
                if p is not None:
                    s = T.get(self.root_of(ap, p), frozenset()) | T.get(p["l"], frozenset())
                ls.append(self.real(s))
            if any(ls):
                out.append((c, ls))
        return out

    def switch_labels(self, fn):
        """[(bb, line, labels)] for SwitchInt terminators whose discriminant carries a real label."""
        out = []
        ap = self.ap(fn)
        T = self.local_maps.get(fn.key, {})
        for bb in fn.normal_blocks():
            t = fn.term(bb)
            if t["k"] == "switch":
                p = op_place(t["discr"])
                if p is not None:
                    s = self.real(T.get(self.root_of(ap, p), frozenset()) | T.get(p["l"], frozenset()))
                    if s:
                        out.append((bb, t.get("line"), s))
        return out
