"""E2 helpers: access-path canonicalisation (copy/borrow provenance of MIR temporaries) and a small
forward taint engine over MIR locals with interprocedural summaries."""
from .facts import op_place, place_str


class AccessPaths:
    """Canonical access paths for the places of one MIR body.

    MIR temporaries are (almost always) assigned once: `_5 = &mut (*_1).exterior`.  For every local
    with exactly one assignment whose rvalue is a borrow / copy / move / pointer cast of a place, the
    local is an alias of that place.  canon(place) expands aliases until it reaches an argument, a
    multiply-assigned local or a call result, giving e.g. ('arg1', 'deref', 'exterior').
    A borrow `&p` followed by a deref cancels out.
    """

    def __init__(self, fn):
        self.fn = fn
        self.defs = {}      # local -> list of (bb, rvalue | ('call', Call))
        for bb in fn.normal_blocks():
            for st in fn.stmts(bb):
                if st[0] == "assign" and not st[1]["p"]:
                    self.defs.setdefault(st[1]["l"], []).append((bb, st[2]))
            t = fn.term(bb)
            if t["k"] == "call" and not t["dest"]["p"]:
                self.defs.setdefault(t["dest"]["l"], []).append((bb, ("call", bb)))
        self._memo = {}

    def single_def(self, local):
        d = self.defs.get(local, [])
        return d[0] if len(d) == 1 else None

    def root(self, local):
        """-> (kind, payload, projection-tuple) where kind in arg|local|call|const|agg|other"""
        if local in self._memo:
            return self._memo[local]
        self._memo[local] = ("local", local, ())      # cycle guard
        res = ("local", local, ())
        if 1 <= local <= self.fn.arg_count:
            res = ("arg", local, ())
        else:
            d = self.single_def(local)
            if d is not None:
                bb, rv = d
                if rv[0] == "call":
                    res = ("call", rv[1], ())
                elif rv[0] == "use":
                    p = op_place(rv[1])
                    if p is not None:
                        res = self.canon(p)
                    else:
                        res = ("const", rv[1].get("const"), ())
                elif rv[0] in ("ref", "rawptr"):
                    k, pl, pr = self.canon(rv[2])
                    res = (k, pl, pr + ("&",))
                elif rv[0] == "cast" and rv[1] in ("PtrToPtr", "Transmute") or (rv[0] == "cast" and rv[1].startswith("PointerCoercion")):
                    p = op_place(rv[2])
                    if p is not None:
                        res = self.canon(p)
                elif rv[0] == "agg":
                    res = ("agg", (bb, local), ())
        self._memo[local] = res
        return res

    def canon(self, place):
        k, pl, pr = self.root(place["l"])
        pr = list(pr)
        for e in place["p"]:
            if e[0] == "deref":
                if pr and pr[-1] == "&":
                    pr.pop()
                else:
                    pr.append("*")
            elif e[0] == "field":
                pr.append(e[2] if e[2] is not None else str(e[1]))
            elif e[0] == "downcast":
                pr.append("as:%s" % e[2])
            elif e[0] == "index":
                pr.append("[]")
            elif e[0] == "cindex":
                pr.append("[%s%d]" % ("-" if e[3] else "", e[1]))
            else:
                pr.append("<%s>" % e[0])
        return (k, pl, tuple(pr))

    def canon_op(self, op):
        p = op_place(op)
        if p is None:
            return ("const", op.get("const"), ())
        return self.canon(p)

    def show(self, c):
        k, pl, pr = c
        base = {"arg": "arg%s", "local": "_%s", "call": "call@bb%s", "const": "const(%s)", "agg": "agg%s"}.get(k, "?%s") % (pl,)
        return base + "".join("." + x for x in pr)


def strip_ref(c):
    """Drop trailing borrow / leading deref noise to compare 'the same storage'."""
    k, pl, pr = c
    pr = tuple(x for x in pr if x not in ("&", "*"))
    return (k, pl, pr)


# ---------------------------------------------------------------------------------------------------
class Taint:
    """Flow-insensitive, field-insensitive forward taint over the locals of MIR bodies with
    interprocedural summaries (return value tainted?) and closure-parameter propagation.

    policy object:
      source(call)            -> label or None         (call result becomes tainted)
      source_stmt(fn, rv)     -> label or None         (rvalue is a source, e.g. pointer->int cast)
      sanitizer(call)         -> bool                  (result is clean whatever the arguments)
      sink(call, targs, T)    -> message or None       (called with the indices of tainted args)
    """

    def __init__(self, facts, policy, crates=("geo", "geo_types")):
        self.F = facts
        self.policy = policy
        self.crates = crates
        self.summ_ret = {}          # fn key -> label when the return value is tainted (without tainted params)
        self.closure_params = {}    # closure key -> label
        self.findings = []
        self.sources = []

    def run(self, extra_crates=()):
        fns = [f for f in self.F.by_key.values() if f.crate in self.crates + tuple(extra_crates) and f.kind in ("Fn", "AssocFn", "Closure")]
        changed = True
        rounds = 0
        while changed and rounds < 12:
            rounds += 1
            changed = False
            self.findings = []
            self.sources = []
            for fn in fns:
                r = self.analyse(fn)
                if r and self.summ_ret.get(fn.key) != r:
                    self.summ_ret[fn.key] = r
                    changed = True
            # closure params may have been discovered during the round
            if self._closure_changed:
                changed = True
            self._closure_changed = False
        return self.findings

    _closure_changed = False

    def root_of(self, ap, place):
        k, pl, _ = ap.canon(place)
        if k in ("arg", "local"):
            return pl
        if k == "call":
            # result of a call: the local that received it
            t = ap.fn.term(pl)
            return t["dest"]["l"]
        if k == "agg":
            return pl[1]
        return place["l"]

    def analyse(self, fn):
        pol = self.policy
        ap = AccessPaths(fn)
        tainted = {}     # root local -> label

        def t_of_place(p):
            r = self.root_of(ap, p)
            if r in tainted:
                return tainted[r]
            if p["l"] in tainted:
                return tainted[p["l"]]
            for e in p["p"]:
                if e[0] == "index" and e[1] in tainted:
                    return tainted[e[1]]
            return None

        def t_of_op(op):
            p = op_place(op)
            return t_of_place(p) if p is not None else None

        def taint_place(p, label):
            ch = False
            for l in {self.root_of(ap, p), p["l"]}:
                if l not in tainted:
                    tainted[l] = label
                    ch = True
            return ch

        # closure bodies whose parameters were tainted by a caller
        if fn.kind == "Closure" and fn.key in self.closure_params:
            for i in range(2, fn.arg_count + 1):
                tainted[i] = self.closure_params[fn.key]
        if fn.kind == "Closure" and ("env:" + fn.key) in self.closure_params:
            tainted[1] = self.closure_params["env:" + fn.key]

        closure_of_local = {}
        for bb, pl, rv, line in fn.all_assigns():
            if rv[0] == "agg" and isinstance(rv[1], dict) and "closure" in rv[1] and not pl["p"]:
                closure_of_local[pl["l"]] = (rv[1]["key"], rv[2])

        findings = {}
        changed = True
        it = 0
        while changed and it < 30:
            it += 1
            changed = False
            for bb in fn.normal_blocks():
                for st in fn.stmts(bb):
                    if st[0] != "assign":
                        continue
                    pl, rv, line = st[1], st[2], st[3]
                    lab = None
                    s = pol.source_stmt(fn, rv) if hasattr(pol, "source_stmt") else None
                    if s:
                        lab = s
                        self.sources.append((s, fn, line))
                    else:
                        ops = []
                        if rv[0] == "use":
                            ops = [rv[1]]
                        elif rv[0] in ("ref", "rawptr"):
                            lab = t_of_place(rv[2])
                        elif rv[0] == "bin":
                            ops = [rv[2], rv[3]]
                        elif rv[0] in ("un", "cast"):
                            ops = [rv[2]]
                        elif rv[0] == "agg":
                            ops = rv[2]
                        elif rv[0] == "discr":
                            lab = t_of_place(rv[1])
                        elif rv[0] == "repeat":
                            ops = [rv[1]]
                        for o in ops:
                            lab = lab or t_of_op(o)
                        if lab and hasattr(pol, "stmt_blocks") and pol.stmt_blocks(fn, rv):
                            lab = None
                    if lab and taint_place(pl, lab):
                        changed = True
                t = fn.term(bb)
                if t["k"] == "switch":
                    continue
                if t["k"] != "call":
                    continue
                from .facts import Call
                c = Call(fn, bb, t)
                targs = [i for i, a in enumerate(c.args) if t_of_op(a)]
                lab = None
                src = pol.source(c)
                if src:
                    lab = src
                    self.sources.append((src, fn, c.line))
                elif pol.sanitizer(c):
                    lab = None
                else:
                    if targs:
                        lab = t_of_op(c.args[targs[0]])
                    # callee summary
                    r = c.raw["func"].get("fn", {}).get("resolved")
                    if r and r["key"] in self.summ_ret:
                        lab = lab or self.summ_ret[r["key"]]
                if targs:
                    msg = pol.sink(c, targs, self)
                    if msg:
                        findings[(fn.key, bb)] = (fn, c, msg, t_of_op(c.args[targs[0]]))
                    # closures handed a tainted stream: their parameters are tainted
                    for i, a in enumerate(c.args):
                        p = op_place(a)
                        if p is None or i in targs:
                            continue
                        ck = closure_of_local.get(self.root_of(ap, p)) or closure_of_local.get(p["l"])
                        if ck and ck[0] not in self.closure_params:
                            self.closure_params[ck[0]] = t_of_op(c.args[targs[0]])
                            self._closure_changed = True
                    # &mut arguments may receive tainted data
                    if not pol.sanitizer(c):
                        for i, (a, ty) in enumerate(zip(c.args, c.raw.get("arg_tys", []))):
                            if i not in targs and ty.startswith("&mut"):
                                p = op_place(a)
                                if p is not None and pol.taints_mut_arg(c, i):
                                    if taint_place(p, t_of_op(c.args[targs[0]])):
                                        changed = True
                # closures capturing tainted locals
                for i, a in enumerate(c.args):
                    p = op_place(a)
                    if p is None:
                        continue
                    ck = closure_of_local.get(self.root_of(ap, p)) or closure_of_local.get(p["l"])
                    if ck:
                        caplab = None
                        for o in ck[1]:
                            caplab = caplab or t_of_op(o)
                        if caplab and ("env:" + ck[0]) not in self.closure_params:
                            self.closure_params["env:" + ck[0]] = caplab
                            self._closure_changed = True
                if lab and taint_place(t["dest"], lab):
                    changed = True
        for v in findings.values():
            self.findings.append(v)
        if fn.kind == "Closure" and (fn.key in self.closure_params or ("env:" + fn.key) in self.closure_params):
            return None      # closure results are accounted for at the adaptor call
        return tainted.get(0)
