"""E2 helpers: access-path canonicalisation (copy/borrow provenance of MIR temporaries) and a small
forward taint engine over MIR locals with interprocedural summaries."""
from .facts import op_place, place_str


class AccessPaths:
    """Canonical access paths for the places of one MIR body.

    MIR temporaries are (almost always) assigned once: `_5 = &mut (*_1).exterior`.  For every local
    with exactly one assignment whose rvalue is a borrow / copy / move / pointer cast of a place, the
    local is an alias of that place.  canon(place) expands aliases until it reaches an argument, a
    multiply-assigned local or a call result, giving e.g. ('arg1', 'deref', 'exterior').
    A borrow `&p` followed by a deref cancels out.
    """

    def __init__(self, fn):
        self.fn = fn
        self.defs = {}      # local -> list of (bb, rvalue | ('call', Call))
        for bb in fn.normal_blocks():
            for st in fn.stmts(bb):
                if st[0] == "assign" and not st[1]["p"]:
                    self.defs.setdefault(st[1]["l"], []).append((bb, st[2]))
            t = fn.term(bb)
            if t["k"] == "call" and not t["dest"]["p"]:
                self.defs.setdefault(t["dest"]["l"], []).append((bb, ("call", bb)))
        self._memo = {}

    def single_def(self, local):
        d = self.defs.get(local, [])
        return d[0] if len(d) == 1 else None

    def root(self, local):
        """-> (kind, payload, projection-tuple) where kind in arg|local|call|const|agg|other"""
        if local in self._memo:
            return self._memo[local]
        self._memo[local] = ("local", local, ())      # cycle guard
        res = ("local", local, ())
        if 1 <= local <= self.fn.arg_count:
            res = ("arg", local, ())
        else:
            d = self.single_def(local)
            if d is not None:
                bb, rv = d
                if rv[0] == "call":
                    res = ("call", rv[1], ())
                elif rv[0] == "use":
                    p = op_place(rv[1])
                    if p is not None:
                        res = self.canon(p)
                    else:
                        res = ("const", rv[1].get("const"), ())
                elif rv[0] in ("ref", "rawptr"):
                    k, pl, pr = self.canon(rv[2])
                    res = (k, pl, pr + ("&",))
                elif rv[0] == "cast" and rv[1] in ("PtrToPtr", "Transmute") or (rv[0] == "cast" and rv[1].startswith("PointerCoercion")):
                    p = op_place(rv[2])
                    if p is not None:
                        res = self.canon(p)
                elif rv[0] == "agg":
                    res = ("agg", (bb, local), ())
        self._memo[local] = res
        return res

    def canon(self, place):
        k, pl, pr = self.root(place["l"])
        pr = list(pr)
        for e in place["p"]:
            if e[0] == "deref":
                if pr and pr[-1] == "&":
                    pr.pop()
                else:
                    pr.append("*")
            elif e[0] == "field":
                pr.append(e[2] if e[2] is not None else str(e[1]))
            elif e[0] == "downcast":
                pr.append("as:%s" % e[2])
            elif e[0] == "index":
                pr.append("[]")
            elif e[0] == "cindex":
                pr.append("[%s%d]" % ("-" if e[3] else "", e[1]))
            else:
                pr.append("<%s>" % e[0])
        return (k, pl, tuple(pr))

    def canon_op(self, op):
        p = op_place(op)
        if p is None:
            return ("const", op.get("const"), ())
        return self.canon(p)

    def show(self, c):
        k, pl, pr = c
        base = {"arg": "arg%s", "local": "_%s", "call": "call@bb%s", "const": "const(%s)", "agg": "agg%s"}.get(k, "?%s") % (pl,)
        return base + "".join("." + x for x in pr)


def strip_ref(c):
    """Drop trailing borrow / leading deref noise to compare 'the same storage'."""
    k, pl, pr = c
    pr = tuple(x for x in pr if x not in ("&", "*"))
    return (k, pl, pr)
