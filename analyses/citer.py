"""Concrete iterators for analyses/symex.py (opt-in: Symex(concrete_iters=True)).

When a slice / Vec / array value has a *concrete number of elements* (the elements themselves stay symbolic), iterator
adaptors over it can be stepped exactly instead of being treated as opaque sequence terms: a `for` loop then unrolls to
exactly the right number of iterations and the path table of a loop kernel becomes a complete decision table for inputs
of that size ("bounded-exhaustive" tables: every ring of N coordinates, every line string of N segments ...).

An iterator value is the pure term the adaptor calls build (slice::iter(arr), windows(arr, n), map(it, f), enumerate(it),
skip / take / chain / zip / rev / copied / cloned / filter(it, ..)), plus two internal forms that record progress:
    ("citer", items, pos)          a base iterator over concrete items, `pos` consumed
    ("cenum", inner, k)            enumerate() that has handed out k indices
`step` yields (state, item | None, advanced iterator).  Closures are invoked through the path enumerator (they may
fork on symbolic data and have effects, which stay in program order because everything is lazy).
"""
import re
from .symex import _call_closure_paths, _fork_bool, _ret, Unanalysable, UNIT

NONE = ("adt", "core::option::Option", "None", ())


def some(x):
    return ("adt", "core::option::Option", "Some", (x,))


class NotConcrete(Exception):
    pass


def _strip(v):
    while isinstance(v, tuple) and v and v[0] == "&":
        v = v[1]
    return v


def _array_items(ex, st, v):
    """elements of a slice / array / Vec value with a concrete length, as places-by-value; None otherwise"""
    for _ in range(8):
        if v[0] == "ref":
            v = ex.load(st, v[1])
        elif v[0] in ("&", "deref"):
            v = v[1]
        else:
            break
    v = ex.canon(st, v)
    v = _strip(v)
    if v[0] == "array":
        return list(v[1])
    if v[0] == "call" and v[1] == "vec!" and v[2] and _strip(v[2][0])[0] == "array":
        return list(_strip(v[2][0])[1])
    if v[0] == "call" and v[1].rsplit("::", 1)[-1] in ("deref", "as_slice", "as_ref", "borrow") and v[2]:
        return _array_items(ex, st, v[2][0])
    return None


def method(path):
    return path.rsplit("::", 1)[-1]


def call_fn_value(ex, st, f, argvals):
    """invoke a closure or a fn item on explicit arguments; yields (state, value)"""
    fv = f
    if f[0] == "ref":
        fv = ex.load(st, f[1])
    elif f[0] == "&":
        fv = f[1]
    if fv[0] == "closure":
        yield from _call_closure_paths(ex, st, f, argvals)
        return
    if fv[0] == "fn":
        if fv[1] in ex.models:
            # a function item with a model (e.g. `.map(Into::into)` where the caller declared the conversion to be the identity)
            try:
                r = ex.models[fv[1]](ex, st, None, list(argvals))
            except (AttributeError, TypeError):
                r = NotImplemented
            if r is not NotImplemented:
                for s2, kind, val in r:
                    if kind == "ret":
                        yield s2, val
                return
        if any(r.search(fv[1]) for r in ex.no_inline):
            yield st, ("call", fv[1], tuple(ex.canon(st, a) for a in argvals))
            return
        adt = ex.facts.adts.get(fv[1])
        if adt is not None and adt.get("kind") == "Struct":
            # a tuple-struct constructor used as a function value, e.g. `.map(Wrapper)`
            yield st, ("adt", fv[1], fv[1].rsplit("::", 1)[-1], tuple(argvals))
            return
        cands = [g for g in (ex.facts.fns.get(fv[1]),) if g is not None]
        if not cands and argvals:
            # a trait method used as a function value (`.flat_map(Trait::method)`): resolved by the concrete type of the receiver
            recv = argvals[0]
            for _ in range(4):
                if recv[0] == "ref":
                    recv = ex.load(st, recv[1])
                elif recv[0] == "&":
                    recv = recv[1]
                else:
                    break
            if recv[0] == "adt" and "::" in fv[1]:
                trait, meth = fv[1].rsplit("::", 1)
                for im in ex.facts.impls_of(trait):
                    if im["self_ty"].split("<")[0] == recv[1]:
                        g = ex.facts.impl_fn(im, meth)
                        if g is not None:
                            cands = [g]
                            break
        if cands:
            for s2, kind, val in ex.call_fn(cands[0], list(argvals), st, None):
                if kind == "ret":
                    yield s2, val
            return
    raise NotConcrete("callee %s" % (fv[0],))


_DELEG = {}
_DELEG_MAP = {}      # adt path -> capture-free closure applied to every item (`self.f.next().map(closure)`)


def delegating_field(ex, adt_path):
    """index of the field f such that `<Adt as Iterator>::next(self)` is exactly `self.f.next()`, else None"""
    if adt_path in _DELEG:
        return _DELEG[adt_path]
    res = None
    from .symex import Symex, bare
    import re
    cands = [g for g in ex.facts.fns.values() if g.kind != "Closure" and g.path.endswith("as core::iter::traits::iterator::Iterator>::next")
             and re.match(r"^<%s(<.*>)? as " % re.escape(adt_path), g.path)]
    if len(cands) == 1:
        try:
            ps = [p for p in Symex(ex.facts, inline_crates=()).run(cands[0]) if p.kind == "ret"]
            adt = ex.facts.adts.get(adt_path)
            names = [f["name"] for f in adt["variants"][0]["fields"]] if adt else []
            if len(ps) == 1 and not ps[0].pc:
                m = re.match(r"^next\(a1\.(\w+)\)$", bare(ps[0].ret))
                if m and m.group(1) in names:
                    res = names.index(m.group(1))
            elif len(ps) == 2 and all(len(p.pc) == 1 for p in ps):
                # `self.f.next().map(|x| E(x))`: None when the inner iterator is exhausted, Some(E(item)) otherwise
                none = [p for p in ps if bare(p.ret) == "Option::None()" and p.pc[0][1] == 0]
                some = [p for p in ps if p.ret[0] == "adt" and p.ret[2] == "Some" and p.pc[0][1] == 1]
                if len(none) == 1 and len(some) == 1 and none[0].pc[0][0] == some[0].pc[0][0]:
                    d = some[0].pc[0][0]
                    m = re.match(r"^discr\(next\(a1\.(\w+)\)\)$", bare(d))
                    if m and m.group(1) in names and d[0] == "discr":
                        res = names.index(m.group(1))
                        _DELEG_MAP[adt_path] = (some[0].ret[3][0], ("field", ("as", d[1], "Some"), "0"))
        except Exception:
            res = None
    _DELEG[adt_path] = res
    return res


def _subst(t, hole, val):
    if t == hole:
        return val
    if isinstance(t, tuple):
        return tuple(_subst(x, hole, val) for x in t)
    return t


def step(ex, st, T):
    """yield (state, item or None, advanced iterator term)"""
    if T[0] == "ref":
        T = ex.load(st, T[1])
    T = _strip(T)          # no canonicalisation here: closures inside the term keep their live `&mut` captures
    k = T[0]
    if k == "citer":
        items, pos = T[1], T[2]
        if pos < len(items):
            yield st, items[pos], ("citer", items, pos + 1)
        else:
            yield st, None, T
        return
    if k == "cflat":
        outer, f, sub = T[1], T[2], T[3]
        if sub is not None:
            for s2, it, sub2 in step(ex, st, sub):
                if it is not None:
                    yield s2, it, ("cflat", outer, f, sub2)
                else:
                    yield from step(ex, s2, ("cflat", outer, f, None))
            return
        for s2, it, outer2 in step(ex, st, outer):
            if it is None:
                yield s2, None, ("cflat", outer2, f, None)
                continue
            if f is None:
                yield from step(ex, s2, ("cflat", outer2, f, ("call", "core::iter::IntoIterator::into_iter", (it,))))
            else:
                for s3, v in call_fn_value(ex, s2, f, [it]):
                    yield from step(ex, s3, ("cflat", outer2, f, ("call", "core::iter::IntoIterator::into_iter", (v,))))
        return
    if k == "cenum":
        inner, n = T[1], T[2]
        for s2, it, inner2 in step(ex, st, inner):
            if it is None:
                yield s2, None, ("cenum", inner2, n)
            else:
                yield s2, ("tuple", (("const", n), it)), ("cenum", inner2, n + 1)
        return
    if k == "adt" and T[1] == "core::ops::range::Range" and len(T[3]) == 2:
        lo, hi = T[3]
        if lo[0] == "const" and hi[0] == "const" and isinstance(lo[1], int) and isinstance(hi[1], int):
            if lo[1] < hi[1]:
                yield st, lo, ("adt", T[1], T[2], (("const", lo[1] + 1), hi))
            else:
                yield st, None, T
            return
        raise NotConcrete("range with symbolic bounds")
    if k == "adt" and T[1] == "core::option::Option":
        # Option<T> as IntoIterator: zero or one item
        if T[2] == "Some":
            yield st, T[3][0], ("adt", T[1], "None", ())
        else:
            yield st, None, T
        return
    if k == "adt":
        # a user-defined iterator struct whose `next` only forwards to the `next` of one of its fields (checked on its MIR)
        fi = delegating_field(ex, T[1])
        if fi is None:
            # not a plain forwarding struct: run its own `next` on a scratch location holding the iterator value
            nf = None
            for im in ex.facts.impls_of("core::iter::traits::iterator::Iterator"):
                if im["self_ty"].split("<")[0] == T[1] and im.get("crate") in ("geo", "geo_types", "geo_verif_roots"):
                    nf = ex.facts.impl_fn(im, "next")
            if nf is None:
                raise NotConcrete("iterator struct %s" % T[1])
            ptr = ("scratch-iter", st.fresh())
            st.mem[("S", ptr)] = T
            for s2, kind, val in ex.call_fn(nf, [ptr], st, None):
                if kind != "ret":
                    raise NotConcrete("next() of %s does not return" % T[1])
                adv = s2.mem.pop(("S", ptr), T)
                v = val
                if v[0] != "adt" or v[1] != "core::option::Option":
                    raise NotConcrete("next() of %s returns a symbolic Option" % T[1])
                yield s2, (None if v[2] == "None" else v[3][0]), adv
            return
        mapper = _DELEG_MAP.get(T[1])
        for s2, it, inner2 in step(ex, st, T[3][fi]):
            fields = list(T[3])
            fields[fi] = inner2
            T2 = ("adt", T[1], T[2], tuple(fields))
            if it is None or mapper is None:
                yield s2, it, T2
            else:
                expr, hole = mapper
                yield s2, _subst(expr, hole, it), T2
        return
    if k == "array" or (k == "call" and T[1] == "vec!"):
        # a collection used where an IntoIterator is expected (e.g. the second operand of chain): iterate its elements by reference
        items = _array_items(ex, st, T)
        if items is None:
            raise NotConcrete("collection of unknown length")
        yield from step(ex, st, ("citer", tuple(("&", x) for x in items), 0))
        return
    if k != "call":
        raise NotConcrete("iterator value %s" % (k,))
    m = method(T[1])
    a = T[2]
    if m == "once" and len(a) == 1 and "iter" in T[1]:
        yield from step(ex, st, ("citer", (a[0],), 0))
        return
    if m == "empty" and len(a) == 0 and "iter" in T[1]:
        yield from step(ex, st, ("citer", (), 0))
        return
    if m in ("iter", "iter_mut") and len(a) == 1:
        items = _array_items(ex, st, a[0])
        if items is None:
            raise NotConcrete("iter over a collection of unknown length")
        if m == "iter_mut" and ex.live_iter_mut and a[0][0] == "ref":
            root, path = a[0][1]
            yield from step(ex, st, ("citer", tuple(("ref", (root, tuple(path) + (("idx", ("const", i)),)), "mut") for i in range(len(items))), 0))
            return
        yield from step(ex, st, ("citer", tuple(("&", x) for x in items), 0))
        return
    if m == "into_iter" and len(a) == 1:
        inner = _strip(a[0])
        items = _array_items(ex, st, a[0])
        if items is not None and ex.live_iter_mut and a[0][0] == "ref" and a[0][2] == "mut":
            root, path = a[0][1]
            yield from step(ex, st, ("citer", tuple(("ref", (root, tuple(path) + (("idx", ("const", i)),)), "mut") for i in range(len(items))), 0))
            return
        if items is not None:
            by_ref = a[0][0] in ("&", "ref")
            yield from step(ex, st, ("citer", tuple((("&", x) if by_ref else x) for x in items), 0))
            return
        yield from step(ex, st, inner)       # IntoIterator for an iterator is the identity
        return
    if m == "windows" and len(a) == 2 and a[1][0] == "const":
        items = _array_items(ex, st, a[0])
        if items is None:
            raise NotConcrete("windows over unknown length")
        n = a[1][1]
        yield from step(ex, st, ("citer", tuple(("&", ("array", tuple(items[i:i + n]))) for i in range(max(0, len(items) - n + 1))), 0))
        return
    if m in ("chunks", "chunks_exact") and len(a) == 2:
        n_ = ex.canon(st, a[1])
        items = _array_items(ex, st, a[0])
        if items is None or n_[0] != "const" or not isinstance(n_[1], int) or n_[1] <= 0:
            raise NotConcrete("chunks over unknown length / size")
        n = n_[1]
        parts = [items[i:i + n] for i in range(0, len(items), n)]
        if m == "chunks_exact":
            parts = [q for q in parts if len(q) == n]
        yield from step(ex, st, ("citer", tuple(("&", ("array", tuple(q))) for q in parts), 0))
        return
    if m in ("copied", "cloned") and len(a) == 1:
        for s2, it, inner2 in step(ex, st, a[0]):
            if it is None:
                yield s2, None, ("call", T[1], (inner2,))
            else:
                v = it
                if v[0] == "&":
                    v = v[1]
                elif v[0] == "ref":
                    v = ex.load(s2, v[1])
                yield s2, v, ("call", T[1], (inner2,))
        return
    if m == "map" and len(a) == 2:
        for s2, it, inner2 in step(ex, st, a[0]):
            if it is None:
                yield s2, None, ("call", T[1], (inner2, a[1]))
            else:
                for s3, v in call_fn_value(ex, s2, a[1], [it]):
                    yield s3, v, ("call", T[1], (inner2, a[1]))
        return
    if m == "flat_map" and len(a) == 2:
        yield from step(ex, st, ("cflat", a[0], a[1], None))
        return
    if m == "flatten" and len(a) == 1:
        yield from step(ex, st, ("cflat", a[0], None, None))
        return
    if m == "enumerate" and len(a) == 1:
        yield from step(ex, st, ("cenum", a[0], 0))
        return
    if m == "skip" and len(a) == 2 and a[1][0] == "const":
        def drop(s, inner, n):
            if n == 0:
                yield from step(ex, s, inner)
                return
            for s2, it, inner2 in step(ex, s, inner):
                if it is None:
                    yield s2, None, inner2
                else:
                    yield from drop(s2, inner2, n - 1)
        yield from drop(st, a[0], a[1][1])
        return
    if m == "take" and len(a) == 2 and a[1][0] == "const":
        if a[1][1] <= 0:
            yield st, None, T
            return
        for s2, it, inner2 in step(ex, st, a[0]):
            yield s2, it, ("call", T[1], (inner2, ("const", a[1][1] - 1)))
        return
    if m == "chain" and len(a) == 2:
        for s2, it, first2 in step(ex, st, a[0]):
            if it is not None:
                yield s2, it, ("call", T[1], (first2, a[1]))
            else:
                for s3, it2, second2 in step(ex, s2, a[1]):
                    yield s3, it2, ("call", T[1], (first2, second2))
        return
    if m == "zip" and len(a) == 2:
        for s2, x, a2 in step(ex, st, a[0]):
            if x is None:
                yield s2, None, ("call", T[1], (a2, a[1]))
                continue
            for s3, y, b2 in step(ex, s2, a[1]):
                if y is None:
                    yield s3, None, ("call", T[1], (a2, b2))
                else:
                    yield s3, ("tuple", (x, y)), ("call", T[1], (a2, b2))
        return
    if m == "rev" and len(a) == 1:
        base = list(drain_pure(ex, st, a[0]))
        yield from step(ex, st, ("citer", tuple(reversed(base)), 0))
        return
    if m == "filter" and len(a) == 2:
        def nxt(s, inner):
            for s2, it, inner2 in step(ex, s, inner):
                if it is None:
                    yield s2, None, ("call", T[1], (inner2, a[1]))
                    continue
                for s3, v in call_fn_value(ex, s2, a[1], [("&", it)]):
                    for s4, b in _fork_bool(ex, s3, v):
                        if b:
                            yield s4, it, ("call", T[1], (inner2, a[1]))
                        else:
                            yield from nxt(s4, inner2)
        yield from nxt(st, a[0])
        return
    if m == "filter_map" and len(a) == 2:
        def nxt2(s, inner):
            for s2, it, inner2 in step(ex, s, inner):
                if it is None:
                    yield s2, None, ("call", T[1], (inner2, a[1]))
                    continue
                for s3, v in call_fn_value(ex, s2, a[1], [it]):
                    for s4, payload in fork_option(ex, s3, v):
                        if payload is None:
                            yield from nxt2(s4, inner2)
                        else:
                            yield s4, payload, ("call", T[1], (inner2, a[1]))
        yield from nxt2(st, a[0])
        return
    if len(a) == 1 and T[1].count("::") >= 1:
        # a trait method that builds an iterator from a concrete geo value (`g.coords_iter()` inside a generic helper iterator, left
        # unresolved in polymorphic MIR): resolved by the concrete type of the receiver and inlined
        recv = a[0]
        for _ in range(8):
            if recv[0] == "ref":
                recv = ex.load(st, recv[1])
            elif recv[0] in ("&", "deref"):
                recv = recv[1]
            else:
                break
        if recv[0] == "adt":
            for im in ex.facts.impls:
                if im.get("trait") and im["self_ty"].split("<")[0] == recv[1] and im["trait"].rsplit("::", 1)[-1] in T[1] and im.get("crate") in ("geo", "geo_types"):
                    g = ex.facts.impl_fn(im, m)
                    if g is not None and g.arg_count == 1:
                        for s2, kind, val in ex.call_fn(g, [("&", recv)], st, None):
                            if kind == "ret":
                                yield from step(ex, s2, val)
                        return
    if m in ("lines", "coords", "points", "rev_lines", "triangles"):
        raise NotConcrete("uninlined geo iterator %s" % m)
    raise NotConcrete("adaptor %s [%s; %d args: %s]" % (m, T[1], len(a), [str(x)[:60] for x in a]))


def fork_option(ex, st, v):
    """yield (state, payload or None) for an Option-valued term, forking on its discriminant when it is symbolic"""
    v = ex.canon(st, v)
    if v[0] == "adt" and v[1].endswith("option::Option"):
        yield st, (v[3][0] if v[2] == "Some" else None)
        return
    d = ("discr", v)
    if d in st.pc:
        yield st, (("field", ("as", v, "Some"), "0") if st.pc[d] == 1 else None)
        return
    for val in (0, 1):
        s2 = st.clone()
        s2.assume(d, val)
        yield s2, (("field", ("as", v, "Some"), "0") if val == 1 else None)


def drain_pure(ex, st, T):
    """all remaining items of an iterator whose stepping does not fork or call closures (base iterators, windows, copied, enumerate)"""
    out = []
    cur = T
    for _ in range(4096):
        res = list(step(ex, st, cur))
        if len(res) != 1:
            raise NotConcrete("rev over a forking iterator")
        s2, it, cur = res[0]
        if it is None:
            return out
        out.append(it)
    raise NotConcrete("iterator too long")


def _iter_arg(ex, st, a):
    """the iterator value behind the first argument (by value or by &mut) and a setter for the advanced value"""
    if a[0] == "ref":
        loc = a[1]
        return ex.load(st, loc), (lambda s, v: ex.store(s, loc, v, log=False))
    if a[0] == "&":
        return a[1], (lambda s, v: None)
    return a, (lambda s, v: None)


def m_next(ex, st, call, args):
    T, setter = _iter_arg(ex, st, args[0])

    def gen():
        for s2, it, T2 in step(ex, st, T):
            setter(s2, T2)
            yield s2, "ret", (NONE if it is None else some(it))
    try:
        # probe: raise NotConcrete before yielding anything
        probe = step(ex, st.clone(), T)
        first = next(probe, None)
    except NotConcrete:
        return NotImplemented
    except Unanalysable:
        return NotImplemented
    return gen()


def _as_citer(ex, st, T):
    """a plain iterator over a concrete collection (iter / iter_mut / an already started one) as ("citer", items, pos), else None"""
    T = _strip(T)
    if T[0] == "citer":
        return T
    if T[0] == "call" and method(T[1]) in ("iter", "iter_mut") and len(T[2]) == 1:
        a = T[2]
        items = _array_items(ex, st, a[0])
        if items is None:
            return None
        if method(T[1]) == "iter_mut" and ex.live_iter_mut and a[0][0] == "ref":
            root, path = a[0][1]
            return ("citer", tuple(("ref", (root, tuple(path) + (("idx", ("const", i)),)), "mut") for i in range(len(items))), 0)
        return ("citer", tuple(("&", x) for x in items), 0)
    return None


def m_next_back(ex, st, call, args):
    """DoubleEndedIterator::next_back on a plain iterator over a concrete collection"""
    T, setter = _iter_arg(ex, st, args[0])
    c = _as_citer(ex, st, T)
    if c is None:
        return NotImplemented
    items, pos = c[1], c[2]

    def gen():
        if pos < len(items):
            setter(st, ("citer", tuple(items[:-1]), pos))
            yield st, "ret", some(items[-1])
        else:
            setter(st, c)
            yield st, "ret", NONE
    return gen()


def _consume(ex, st, T, on_item, on_end, acc):
    """generic driver: for each item on_item(state, acc, item) yields (state, acc', stop_value|None)"""
    def rec(s, cur, acc_):
        for s2, it, cur2 in step(ex, s, cur):
            if it is None:
                yield from on_end(s2, acc_)
                continue
            for s3, acc2, stop in on_item(s2, acc_, it):
                if stop is not None:
                    yield s3, "ret", stop
                else:
                    yield from rec(s3, cur2, acc2)
    return rec(st, T, acc)


def consumer(ex, st, call, args):
    """all / any / find / position / count / fold / for_each / last / collect / sum / min_by / max_by over a concrete iterator"""
    m = call.method
    T, setter = _iter_arg(ex, st, args[0])
    try:
        probe = step(ex, st.clone(), T)
        next(probe, None)
    except (NotConcrete, Unanalysable):
        return NotImplemented
    TRUE, FALSE = ("const", True), ("const", False)
    if m in ("all", "any") and len(args) == 2:
        def on_item(s, acc, it):
            for s2, v in call_fn_value(ex, s, args[1], [it]):
                for s3, b in _fork_bool(ex, s2, v):
                    if m == "all" and not b:
                        yield s3, acc, FALSE
                    elif m == "any" and b:
                        yield s3, acc, TRUE
                    else:
                        yield s3, acc, None
        return _consume(ex, st, T, on_item, lambda s, acc: _ret(s, TRUE if m == "all" else FALSE), None)
    if m in ("find", "position") and len(args) == 2:
        def on_item(s, acc, it):
            for s2, v in call_fn_value(ex, s, args[1], [("&", it) if m == "find" else it]):
                for s3, b in _fork_bool(ex, s2, v):
                    if b:
                        yield s3, acc, some(it if m == "find" else ("const", acc))
                    else:
                        yield s3, acc + 1, None
        return _consume(ex, st, T, on_item, lambda s, acc: _ret(s, NONE), 0)
    if m == "len" and len(args) == 1:
        # ExactSizeIterator::len(&it): the number of remaining items; the iterator itself is not advanced
        try:
            n_items = len(drain_pure(ex, st.clone(), T))
        except (NotConcrete, Unanalysable):
            return NotImplemented
        return _ret(st, ("const", n_items))
    if m == "sum" and len(args) == 1:
        def add(s_, acc, it):
            it = ex.canon(s_, it)
            if acc[0] == "const" and it[0] == "const" and not isinstance(it[1], bool):
                yield s_, ("const", acc[1] + it[1]), None
            else:
                yield s_, ("bin", "Add", acc, it), None
        return _consume(ex, st, T, add, lambda s_, acc: _ret(s_, acc), ("const", 0))
    if m == "count" and len(args) == 1:
        return _consume(ex, st, T, lambda s, acc, it: iter([(s, acc + 1, None)]), lambda s, acc: _ret(s, ("const", acc)), 0)
    if m == "fold" and len(args) == 3:
        def on_item(s, acc, it):
            for s2, v in call_fn_value(ex, s, args[2], [acc, it]):
                yield s2, v, None
        return _consume(ex, st, T, on_item, lambda s, acc: _ret(s, acc), args[1])
    if m == "try_fold" and len(args) == 3:
        dest = str(call.raw.get("dest_ty", ""))
        if dest.startswith("core::result::Result"):
            adt_p, ok_v, stop_v = "core::result::Result", "Ok", "Err"
        elif dest.startswith("core::option::Option"):
            adt_p, ok_v, stop_v = "core::option::Option", "Some", "None"
        elif dest.startswith("core::ops::control_flow::ControlFlow"):
            adt_p, ok_v, stop_v = "core::ops::control_flow::ControlFlow", "Continue", "Break"
        else:
            return NotImplemented

        def on_item(s, acc, it):
            for s2, v in call_fn_value(ex, s, args[2], [acc, it]):
                v = ex.canon(s2, v)
                if v[0] != "adt" or v[1] != adt_p:
                    raise Unanalysable("try_fold step does not return a concrete %s" % adt_p)
                if v[2] == ok_v:
                    yield s2, v[3][0], None
                else:
                    yield s2, acc, v
        return _consume(ex, st, T, on_item, lambda s, acc: _ret(s, ("adt", adt_p, ok_v, (acc,))), args[1])
    if m == "try_for_each" and len(args) == 2:
        dest = str(call.raw.get("dest_ty", ""))
        if dest.startswith("core::result::Result"):
            adt_p, ok_v, stop_v = "core::result::Result", "Ok", "Err"
        elif dest.startswith("core::option::Option"):
            adt_p, ok_v, stop_v = "core::option::Option", "Some", "None"
        elif dest.startswith("core::ops::control_flow::ControlFlow"):
            adt_p, ok_v, stop_v = "core::ops::control_flow::ControlFlow", "Continue", "Break"
        else:
            return NotImplemented

        def on_item(s, acc, it):
            for s2, v in call_fn_value(ex, s, args[1], [it]):
                v = ex.canon(s2, v)
                if v[0] == "adt" and v[1] == adt_p:
                    if v[2] == ok_v:
                        yield s2, acc, None
                    else:
                        yield s2, acc, v
                    continue
                # a symbolic outcome (e.g. the answer of a caller-supplied handler): both continuations
                d = ("discr", v, adt_p)
                names = [n for n, _ in ex.enum_variants(adt_p)] if ex.enum_variants(adt_p) else [ok_v, stop_v]
                for val, name in enumerate(names):
                    if d in s2.pc and s2.pc[d] != val:
                        continue
                    s3 = s2.clone()
                    s3.assume(d, val)
                    if name == ok_v:
                        yield s3, acc, None
                    else:
                        yield s3, acc, v
        return _consume(ex, st, T, on_item, lambda s, acc: _ret(s, ("adt", adt_p, ok_v, (UNIT,))), None)
    if m == "for_each" and len(args) == 2:
        def on_item(s, acc, it):
            for s2, v in call_fn_value(ex, s, args[1], [it]):
                yield s2, acc, None
        return _consume(ex, st, T, on_item, lambda s, acc: _ret(s, UNIT), None)
    if m == "last" and len(args) == 1:
        return _consume(ex, st, T, lambda s, acc, it: iter([(s, some(it), None)]), lambda s, acc: _ret(s, acc), NONE)
    if m in ("min_by", "max_by") and len(args) == 2:
        # core: min_by keeps the first of several minimal elements (replace only on Greater), max_by the last (keep only on Greater)
        from .symex import _ord_cases

        def on_item(s, acc, it):
            if acc is None:
                yield s, (it,), None
                return
            cur = acc[0]
            for s2, v in call_fn_value(ex, s, args[1], [("&", cur), ("&", it)]):
                for s3, name, _ in _ord_cases(ex, s2, v):
                    if m == "min_by":
                        yield s3, ((it,) if name == "Greater" else acc), None
                    else:
                        yield s3, (acc if name == "Greater" else (it,)), None
        return _consume(ex, st, T, on_item, lambda s, acc: _ret(s, NONE if acc is None else some(acc[0])), None)
    dest_ty = str(call.raw.get("dest_ty", ""))
    if m == "collect" and len(args) == 1 and re.match(r"^core::result::Result<\s*(alloc::vec::)?Vec<", dest_ty):
        # collecting Results: the first Err ends the iteration and is the result, otherwise Ok(vec of the payloads)
        def on_item(s, acc, it):
            v = ex.canon(s, it)
            if v[0] == "adt" and v[1] == "core::result::Result":
                if v[2] == "Ok":
                    yield s, acc + (v[3][0],), None
                else:
                    yield s, acc, ("adt", "core::result::Result", "Err", (v[3][0],))
                return
            d = ("discr", v, "core::result::Result")
            for val, name in ((0, "Ok"), (1, "Err")):
                if d in s.pc and s.pc[d] != val:
                    continue
                s2 = s.clone()
                s2.assume(d, val)
                payload = ("field", ("as", v, name), "0")
                if name == "Ok":
                    yield s2, acc + (payload,), None
                else:
                    yield s2, acc, ("adt", "core::result::Result", "Err", (payload,))
        return _consume(ex, st, T, on_item, lambda s, acc: _ret(s, ("adt", "core::result::Result", "Ok", (("call", "vec!", (("array", acc),)),))), ())
    if m == "collect" and len(args) == 1 and re.match(r"^(geo_types|geo)::", dest_ty):
        # collecting into one of the repository's own containers: its FromIterator impl
        head = dest_ty.split("<")[0]
        for im in ex.facts.impls_of("core::iter::traits::collect::FromIterator"):
            if im["self_ty"].split("<")[0] == head and im.get("crate") in ("geo", "geo_types"):
                g = ex.facts.impl_fn(im, "from_iter")
                if g is not None:
                    return ex.call_fn(g, [T], st, None)
        return NotImplemented
    if m == "collect" and len(args) == 1 and re.match(r"^(alloc::vec::)?Vec<", dest_ty):
        return _consume(ex, st, T, lambda s, acc, it: iter([(s, acc + (it,), None)]),
                        lambda s, acc: _ret(s, ("call", "vec!", (("array", acc),))), ())
    return NotImplemented



def drain_value(F, val, limit=64, distinct_opaques=False):
    """All items of an iterator VALUE built from concrete shapes (a pure adaptor term, or an iterator struct of geo / geo_types, stepped through
    its own `next`): the list of canonical item terms.  Raises Unanalysable when a step forks or the iterator does not end."""
    from .symex import Symex, St, Unanalysable, show_pc, show
    from .facts import short

    def next_fn(adt):
        for im in F.impls_of("core::iter::traits::iterator::Iterator"):
            if im["self_ty"].split("<")[0] == adt and im.get("crate") in ("geo", "geo_types"):
                return F.impl_fn(im, "next")
        return None
    out = []
    cur = val
    for _ in range(limit):
        nf = next_fn(cur[1]) if cur[0] == "adt" else None
        ex = Symex(F, concrete_iters=True, loop_bound=12, inline_crates=("geo", "geo_types"), max_depth=14)
        ex.live_iter_mut = True
        ex.resolve_by_receiver = True
        if distinct_opaques:
            ex.distinct_opaques = True
            ex.fold_ground_eq = True
        if nf is not None:
            ps = [p for p in ex.run(nf, args=[("arg", 1)], mem={("arg", 1): cur}) if p.kind != "cut"]
            if len(ps) != 1 or ps[0].pc or ps[0].kind != "ret":
                raise Unanalysable("a step of %s forks / panics on a concrete shape: %s" % (short(cur[1]), [show_pc(p.pc)[:80] for p in ps][:2]))
            p = ps[0]
            cur = ex.canon(p.st, p.st.mem.get(("S", ("arg", 1)), cur))
            r = p.ret
            if r[0] != "adt":
                raise Unanalysable("next() does not return a concrete Option: %s" % show(r)[:80])
            if r[2] == "None":
                return out
            out.append(r[3][0])
        else:
            try:
                res = list(step(ex, St(), cur))
            except NotConcrete as e:
                raise Unanalysable(str(e))
            if len(res) != 1:
                raise Unanalysable("a step forks on a concrete shape")
            st, it, cur = res[0]
            if it is None:
                return out
            out.append(ex.canon(st, it))
    raise Unanalysable("iterator does not end")
