"""Numeric evaluation of extracted decision tables / result terms on witness valuations (floating-point kernels).

ArithEval (analyses/evalterm.py) interprets the arithmetic of a generic scalar on python numbers; this subclass adds the
floating-point vocabulary of geo's kernels (hypot, sqrt, abs, powi, mul_add, min / max, epsilon, max_value, NumCast / to_f64,
is_zero ...), evaluated in IEEE doubles.  It is used only on small integer witness configurations, where the reference value is
known exactly and a tolerance of 1e-9 separates every right answer from every wrong one.  geo is not executed: the term that is
interpreted is the path table extracted from its MIR."""
import math
from .evalterm import ArithEval, Enum, NoModel

OPT = "core::option::Option"


class NumEval(ArithEval):
    def ev(self, t):
        # memo by object identity: the terms of a path table share sub-term objects and stay alive while the evaluator does
        if isinstance(t, tuple):
            memo = self.__dict__.setdefault("_memo", {})
            k = id(t)
            if k in memo:
                return memo[k]
            v = self._ev(t)
            memo[k] = v
            return v
        return self._ev(t)

    def _ev(self, t):
        if isinstance(t, tuple) and t and t[0] == "field" and str(t[2]) == "0":
            b = self.ev(t[1])
            if isinstance(b, dict) and "0" not in b and "x" in b:
                return b                   # Point(c).0 where the witness stores the coordinate itself
            if isinstance(b, dict) and "0" in b:
                return b["0"]
            if isinstance(b, (list, tuple)):
                return b[0]
            if isinstance(b, Enum):
                return b.payload[0]
        if isinstance(t, tuple) and t and t[0] == "field" and str(t[2]) in ("x", "y"):
            b0 = self.ev(t[1])
            if isinstance(b0, (list, tuple)) and len(b0) == 2 and not isinstance(b0[0], (dict, list, tuple)):
                return b0[0 if str(t[2]) == "x" else 1]
        if isinstance(t, tuple) and t and t[0] == "constitem":
            consts = self.__dict__.get("consts") or {}
            if t[1] in consts:
                return consts[t[1]]
            std = {"core::f64::consts::PI": math.pi, "core::f64::consts::FRAC_PI_2": math.pi / 2, "core::f64::consts::FRAC_PI_4": math.pi / 4, "core::f64::consts::TAU": 2 * math.pi,
                   "core::f64::EPSILON": 2.220446049250313e-16, "core::f64::MAX": 1.7976931348623157e308}
            if t[1] in std:
                return std[t[1]]
            raise NoModel("constant %s" % t[1])
        if isinstance(t, tuple) and t and t[0] == "bin" and t[1] == "Rem":
            return math.fmod(float(self.ev(t[2])), float(self.ev(t[3])))
        if isinstance(t, tuple) and t and t[0] == "field" and str(t[2]) in ("x", "y"):
            b = self.ev(t[1])
            if isinstance(b, dict) and str(t[2]) not in b and "0" in b and isinstance(b["0"], dict):
                return b["0"][str(t[2])]        # Point -> Coord conversions are the identity on the payload
            if isinstance(b, dict):
                return b[str(t[2])]
        if isinstance(t, tuple) and t and t[0] == "cmp" and t[1] == "eq":
            a, b = self.ev(t[2]), self.ev(t[3])
            unwrap = lambda v: v["0"] if isinstance(v, dict) and set(v) == {"0"} else v
            return unwrap(a) == unwrap(b)
        return ArithEval.ev(self, t)

    def call(self, t):
        m = t[1].rsplit("::", 1)[-1]
        a = t[2]
        if self.sym is not None:
            v = self.sym(t)
            if v is not None:
                return v
        try:
            if m == "hypot" and len(a) == 2:
                return math.hypot(float(self.ev(a[0])), float(self.ev(a[1])))
            if m == "sqrt" and len(a) == 1:
                return math.sqrt(float(self.ev(a[0])))
            if m == "powi" and len(a) == 2:
                return float(self.ev(a[0])) ** int(self.ev(a[1]))
            if m == "mul_add" and len(a) == 3:
                return self.ev(a[0]) * self.ev(a[1]) + self.ev(a[2])
            if m in ("sin", "cos", "tan", "asin", "acos", "atan", "ln", "exp", "sinh", "cosh", "tanh", "floor", "ceil", "round", "trunc") and len(a) == 1:
                f = {"ln": math.log, "round": lambda v: float(round(v))}.get(m) or getattr(math, m)
                return float(f(float(self.ev(a[0]))))
            if m == "atan2" and len(a) == 2:
                return math.atan2(float(self.ev(a[0])), float(self.ev(a[1])))
            if m == "sin_cos" and len(a) == 1:
                v = float(self.ev(a[0]))
                return (math.sin(v), math.cos(v))
            if m == "to_radians" and len(a) == 1:
                return math.radians(float(self.ev(a[0])))
            if m == "to_degrees" and len(a) == 1:
                return math.degrees(float(self.ev(a[0])))
            if m == "rem" and len(a) == 2:
                return math.fmod(float(self.ev(a[0])), float(self.ev(a[1])))
            if m == "signum" and len(a) == 1:
                v = float(self.ev(a[0]))
                return math.copysign(1.0, v)
            if m in ("from", "from_f64", "from_f32", "from_i32", "from_usize", "from_u32") and len(a) == 1 and ("NumCast" in t[1] or "FromPrimitive" in t[1] or "num_traits" in t[1]):
                return Enum(OPT, "Some", [self.ev(a[0])])
            if m == "epsilon" and not a:
                return 2.220446049250313e-16
            if m in ("max_value", "infinity") and not a:
                return float("inf") if m == "infinity" else 1.7976931348623157e308
            if m in ("min_value", "neg_infinity") and not a:
                return -float("inf") if m == "neg_infinity" else -1.7976931348623157e308
            if m in ("to_f64", "to_f32") and len(a) == 1:
                return Enum(OPT, "Some", [float(self.ev(a[0]))])
            if m in ("is_zero", "is_nan", "is_finite", "is_infinite", "is_sign_negative", "is_sign_positive") and len(a) == 1:
                v = self.ev(a[0])
                return {"is_zero": v == 0, "is_nan": v != v, "is_finite": math.isfinite(v), "is_infinite": math.isinf(float(v)),
                        "is_sign_negative": math.copysign(1.0, v) < 0, "is_sign_positive": math.copysign(1.0, v) > 0}[m]
            if m == "div" and len(a) == 2:
                x, y = self.ev(a[0]), self.ev(a[1])
                if y == 0:
                    x = float(x)
                    return float("nan") if x == 0 or x != x else math.copysign(float("inf"), x) * math.copysign(1.0, float(y))
                return float(x) / float(y)
            if m == "length" and len(a) == 2 and "length" in t[1]:
                # LengthMeasurable::length(&geometry, &Euclidean) (R16.2 decides that it is the sum of the segment distances)
                g = self.ev(a[0])
                if isinstance(g, dict) and "start" in g:
                    return math.hypot(g["end"]["x"] - g["start"]["x"], g["end"]["y"] - g["start"]["y"])
                if isinstance(g, dict) and "0" in g and isinstance(g["0"], list):
                    cs = g["0"]
                    return sum(math.hypot(cs[i + 1]["x"] - cs[i]["x"], cs[i + 1]["y"] - cs[i]["y"]) for i in range(len(cs) - 1))
            if m == "cmp" and len(a) == 2:
                x, y = self.ev(a[0]), self.ev(a[1])
                if isinstance(x, Enum):
                    x, y = self.discr_of(x), self.discr_of(y)
                return Enum("core::cmp::Ordering", "Less" if x < y else "Greater" if x > y else "Equal")
            if t[1] == "vec!" and len(a) == 1:
                return self.ev(a[0])
            if m in ("deref", "as_slice", "as_ref") and len(a) == 1:
                return self.ev(a[0])
            if m == "contains" and len(a) == 2 and "slice" in t[1]:
                seq, x = self.ev(a[0]), self.ev(a[1])
                if isinstance(seq, dict) and "0" in seq:
                    seq = seq["0"]
                return any(x == y for y in seq)
            if m in ("x", "y") and len(a) == 1:
                v = self.ev(a[0])
                if isinstance(v, dict) and "0" in v:
                    v = v["0"]
                if isinstance(v, dict) and m in v:
                    return v[m]
            if m in ("dx", "dy") and len(a) == 1:
                v = self.ev(a[0])
                if isinstance(v, dict) and "start" in v:
                    k = m[1]
                    return v["end"][k] - v["start"][k]
        except (ValueError, OverflowError, ZeroDivisionError) as e:
            raise NoModel("numeric error in %s: %s" % (m, e))
        return ArithEval.call(self, t)


def seg_dist(p, a, b):
    """exact-enough distance from point p to the closed segment a-b (python floats on small integers)"""
    ax, ay, bx, by, px, py = a["x"], a["y"], b["x"], b["y"], p["x"], p["y"]
    dx, dy = bx - ax, by - ay
    if dx == 0 and dy == 0:
        return math.hypot(px - ax, py - ay)
    t = ((px - ax) * dx + (py - ay) * dy) / float(dx * dx + dy * dy)
    t = max(0.0, min(1.0, t))
    return math.hypot(px - (ax + t * dx), py - (ay + t * dy))


def orient(a, b, c):
    v = (b["x"] - a["x"]) * (c["y"] - b["y"]) - (b["y"] - a["y"]) * (c["x"] - b["x"])
    return (v > 0) - (v < 0)


def on_seg(p, a, b):
    return orient(a, b, p) == 0 and min(a["x"], b["x"]) <= p["x"] <= max(a["x"], b["x"]) and min(a["y"], b["y"]) <= p["y"] <= max(a["y"], b["y"])


def segs_intersect(a, b, c, d):
    o1, o2, o3, o4 = orient(a, b, c), orient(a, b, d), orient(c, d, a), orient(c, d, b)
    if o1 * o2 < 0 and o3 * o4 < 0:
        return True
    return on_seg(c, a, b) or on_seg(d, a, b) or on_seg(a, c, d) or on_seg(b, c, d)


def seg_seg_dist(a, b, c, d):
    if segs_intersect(a, b, c, d):
        return 0.0
    return min(seg_dist(a, c, d), seg_dist(b, c, d), seg_dist(c, a, b), seg_dist(d, a, b))
