"""Evaluation of extracted decision tables (atoms -> outcome) on admitted valuations.

The *code side* is the set of MIR paths of a kernel (analyses/symex.py).  A valuation assigns a value to every
symbol the atoms mention; for geometric kernels it is given by an integer witness configuration evaluated with
exact integer reference geometry (Appendix A of DESIGN.md), so every compared valuation is realisable.  geo itself
is never executed: what is interpreted here is the decision tree extracted from its MIR.
"""
from fractions import Fraction


class NoModel(Exception):
    pass


class Enum:
    __slots__ = ("adt", "variant", "payload")

    def __init__(self, adt, variant, payload=()):
        self.adt = adt
        self.variant = variant
        self.payload = tuple(payload)

    def __eq__(self, o):
        return isinstance(o, Enum) and self.variant == o.variant and self.payload == o.payload and short_adt(self.adt) == short_adt(o.adt)

    def __hash__(self):
        return hash((short_adt(self.adt), self.variant, self.payload))

    def __repr__(self):
        return "%s::%s%s" % (short_adt(self.adt), self.variant, list(self.payload) if self.payload else "")


def short_adt(a):
    return a.split("::")[-1]


def _exact_det(px, py, qx, qy, rx, ry):
    """the determinant of the orientation test in exact rational arithmetic (the robust predicate's sign is the exact sign, also where a
    float evaluation of the same expression rounds it away)"""
    from fractions import Fraction
    try:
        px, py, qx, qy, rx, ry = (Fraction(v) for v in (px, py, qx, qy, rx, ry))
    except (ValueError, OverflowError, TypeError):          # NaN / infinite witnesses: plain float evaluation
        return (qx - px) * (ry - qy) - (qy - py) * (rx - qx)
    return (qx - px) * (ry - qy) - (qy - py) * (rx - qx)


def orient(p, q, r):
    v = _exact_det(p["x"], p["y"], q["x"], q["y"], r["x"], r["y"])
    return "CounterClockwise" if v > 0 else "Clockwise" if v < 0 else "Collinear"


ORIENTATION = "geo::algorithm::kernels::Orientation"


class Evaluator:
    def __init__(self, facts, env, calls=None):
        self.F = facts
        self.env = env            # term -> python value, at least ("arg", i)
        self.calls = calls or {}  # callee path -> python function(ev, args)

    def variants(self, adt):
        from .symex import CORE_ENUMS
        if adt in CORE_ENUMS:
            return CORE_ENUMS[adt]
        a = self.F.adts.get(adt)
        if a and a["kind"] == "Enum":
            return [(v["name"], int(v["discr"])) for v in a["variants"]]
        return None

    def ev(self, t):
        if t in self.env:
            return self.env[t]
        if not isinstance(t, tuple):
            return t
        k = t[0]
        if k == "const":
            return t[1]
        if k in ("&", "deref"):
            return self.ev(t[1])
        if k == "field":
            b = self.ev(t[1])
            name = t[2]
            if isinstance(b, dict):
                if str(name) not in b and name not in b:
                    raise NoModel("field %s of %r" % (name, sorted(b)))
                return b[str(name)] if str(name) in b else b[name]
            if isinstance(b, (list, tuple)):
                return b[int(name)]
            if isinstance(b, Enum):
                return b.payload[int(name)]
            raise NoModel("field %s of %r" % (name, b))
        if k == "as":
            b = self.ev(t[1])
            if isinstance(b, Enum):
                if b.variant != t[2]:
                    raise NoModel("downcast mismatch")
                return b
            return b
        if k == "index":
            b = self.ev(t[1])
            i = self.ev(t[2])
            if isinstance(i, Enum):
                vs = self.variants(i.adt)
                i = [n for n, _ in vs].index(i.variant)
            return b[i]
        if k == "adt":
            vs = self.variants(t[1])
            if vs is not None:
                return Enum(t[1], t[2], [self.ev(x) for x in t[3]])
            a = self.F.adts.get(t[1])
            if a:
                names = [f["name"] for f in a["variants"][0]["fields"]]
                return {n: self.ev(x) for n, x in zip(names, t[3])}
            return [self.ev(x) for x in t[3]]
        if k == "tuple":
            return tuple(self.ev(x) for x in t[1])
        if k == "array":
            return [self.ev(x) for x in t[1]]
        if k == "cmp":
            a, b = self.ev(t[2]), self.ev(t[3])
            if isinstance(a, Enum) and isinstance(b, Enum) and t[1] != "eq":
                a, b = self.discr_of(a), self.discr_of(b)
            return {"lt": lambda: a < b, "le": lambda: a <= b, "eq": lambda: a == b}[t[1]]()
        if k == "un":
            a = self.ev(t[2])
            if t[1] == "Not":
                return not a
            if t[1] == "Neg":
                return -a
            raise NoModel("unop %s" % t[1])
        if k == "bin":
            a, b = self.ev(t[2]), self.ev(t[3])
            op = t[1]
            if op == "Add":
                return a + b
            if op == "Sub":
                return a - b
            if op == "Mul":
                return a * b
            if op == "Div":
                return Fraction(a, b) if isinstance(a, int) and isinstance(b, int) else a / b
            if op == "BitAnd":
                return a & b
            if op == "BitOr":
                return a | b
            if op == "BitXor":
                return a ^ b
            raise NoModel("binop %s" % op)
        if k == "discr":
            a = self.ev(t[1])
            if isinstance(a, Enum):
                return self.discr_of(a)
            if isinstance(a, bool):
                return 1 if a else 0
            raise NoModel("discriminant of %r" % (a,))
        if k == "cast":
            return self.ev(t[2])
        if k == "len":
            return len(self.ev(t[1]))
        if k == "call":
            return self.call(t)
        if k == "havoc":
            raise NoModel("havoc")
        raise NoModel("term %s" % k)

    def discr_of(self, e):
        vs = self.variants(e.adt)
        if vs is None:
            raise NoModel("enum %s" % e.adt)
        return dict(vs)[e.variant]

    def call(self, t):
        path = t[1]
        if path in self.calls:
            return self.calls[path](self, t[2])
        short = path.split("<")[0]
        if path == "robust::orient2d":
            pts = []
            for x in t[2]:
                v = self.ev(x)
                if isinstance(v, dict):
                    pts.append((v["x"], v["y"]))
                else:
                    pts.append((v[0], v[1]))
            (px, py), (qx, qy), (rx, ry) = pts
            # robust::orient2d returns a value whose sign is that of the exact determinant (positive = counter-clockwise)
            v = _exact_det(px, py, qx, qy, rx, ry)
            return 1.0 if v > 0 else -1.0 if v < 0 else 0.0
        if path.endswith("NumCast>::from") or path == "num_traits::cast::NumCast::from":
            return Enum("core::option::Option", "Some", [self.ev(t[2][0])])
        if path.endswith("Kernel::orient2d") or path.endswith("::orient2d"):
            p, q, r = (self.ev(x) for x in t[2])
            return Enum(ORIENTATION, orient(p, q, r))
        if path in ("core::cmp::PartialEq::eq", "core::cmp::PartialEq::ne") or path.endswith("PartialEq>::eq") or path.endswith("PartialEq>::ne"):
            a, b = self.ev(t[2][0]), self.ev(t[2][1])
            r = a == b
            return r if path.endswith("eq") else not r
        if path == "core::cmp::PartialOrd::partial_cmp" or path.endswith("PartialOrd>::partial_cmp"):
            a, b = self.ev(t[2][0]), self.ev(t[2][1])
            o = "Less" if a < b else "Greater" if a > b else "Equal"
            return Enum("core::option::Option", "Some", [Enum("core::cmp::Ordering", o)])
        if path.endswith("Option::<T>::unwrap") or path.endswith("Option::<T>::expect"):
            a = self.ev(t[2][0])
            if isinstance(a, Enum) and a.variant == "Some":
                return a.payload[0]
            raise NoModel("unwrap of %r" % (a,))
        if path.endswith("Ord>::max") or path == "core::cmp::Ord::max":
            a, b = self.ev(t[2][0]), self.ev(t[2][1])
            return a if self.discr_of(a) >= self.discr_of(b) else b
        if path.endswith("Ord>::min") or path == "core::cmp::Ord::min":
            a, b = self.ev(t[2][0]), self.ev(t[2][1])
            return a if self.discr_of(a) <= self.discr_of(b) else b
        raise NoModel("call %s" % path)

    def select_path(self, paths):
        """The unique path whose atom valuation holds under this evaluator (paths of one kernel are exhaustive and
        mutually exclusive by construction)."""
        hit = []
        for p in paths:
            ok = True
            for t, v in p.pc:
                val = self.ev(t)
                if isinstance(val, bool):
                    val = 1 if val else 0
                if isinstance(val, Enum):
                    val = self.discr_of(val)
                if isinstance(v, tuple) and v and v[0] == "notin":
                    if val in v[1]:
                        ok = False
                        break
                elif val != v:
                    ok = False
                    break
            if ok:
                hit.append(p)
        return hit


class ArithEval(Evaluator):
    """Evaluator that also interprets the arithmetic trait calls of a generic scalar (add/sub/mul/div/neg/abs/zero/one/min/max, comparisons)
    on python numbers; opaque symbols are supplied by `sym(term) -> number or None`."""

    def __init__(self, facts, env, sym=None, calls=None):
        Evaluator.__init__(self, facts, env, calls or {})
        self.sym = sym

    def call(self, t):
        m = t[1].rsplit("::", 1)[-1]
        a = t[2]
        if self.sym is not None:
            v = self.sym(t)
            if v is not None:
                return v
        if m in ("add", "sub", "mul", "div") and len(a) == 2:
            x, y = self.ev(a[0]), self.ev(a[1])
            if m == "div":
                return Fraction(x) / Fraction(y)
            return x + y if m == "add" else x - y if m == "sub" else x * y
        if m == "neg" and len(a) == 1:
            return -self.ev(a[0])
        if m == "abs" and len(a) == 1:
            return abs(self.ev(a[0]))
        if m == "zero" and not a:
            return 0
        if m == "one" and not a:
            return 1
        if m in ("min", "max") and len(a) == 2:
            x, y = self.ev(a[0]), self.ev(a[1])
            if not isinstance(x, Enum):
                return min(x, y) if m == "min" else max(x, y)
        if m in ("lt", "le", "gt", "ge") and len(a) == 2:
            x, y = self.ev(a[0]), self.ev(a[1])
            return {"lt": x < y, "le": x <= y, "gt": x > y, "ge": x >= y}[m]
        if m in ("into", "from", "clone") and len(a) == 1:
            return self.ev(a[0])
        return Evaluator.call(self, t)
