"""E4/E5 core: abstract (symbolic) path enumeration over MIR.

Inputs are uninterpreted symbols; every primitive test becomes an *atom* (a term) on which the
interpreter forks the first time a path asks for it and replays the chosen value afterwards.
Nothing is executed concretely and no solver is involved: the output is the finite set of MIR
paths of a kernel, each with its atom valuation, its result term and its call/effect trace.

Terms are hashable tuples:
  ("arg", i)                      i-th argument of the analysed entry function
  ("const", v)                    int / bool / float / str constant         ("unit",) = ()
  ("field", t, name)  ("deref", t)  ("as", t, Variant)  ("index", t, i)  ("len", t)
  ("adt", path, Variant, (fields...))  ("tuple", (..))  ("array", (..))  ("closure", key, (caps..))
  ("ref", loc, mut)               reference to a location (root, path); canonicalised to ("&", value)
  ("cmp", op, a, b)               op in lt|le|eq  (gt/ge are flipped, ne is Not(eq))
  ("bin", op, a, b) ("un", op, a) ("cast", kind, a, ty)
  ("call", path, (args..))        pure opaque call;   ("call", path, (args..), uid) effectful one
  ("discr", t, adt)               discriminant of a symbolic enum value
  ("upd", base, key, v)           functional update of a symbolic aggregate
  ("havoc", uid, old)             value of storage after an effectful opaque call got `&mut` to it
"""
import re
import time
from .facts import Call, op_place

CORE_ENUMS = {
    "core::option::Option": [("None", 0), ("Some", 1)],
    "core::result::Result": [("Ok", 0), ("Err", 1)],
    "core::cmp::Ordering": [("Less", -1), ("Equal", 0), ("Greater", 1)],
    "core::ops::control_flow::ControlFlow": [("Continue", 0), ("Break", 1)],
}
UNIT = ("tuple", ())
TRUE = ("const", True)
FALSE = ("const", False)


class Unanalysable(Exception):
    pass


def ty_head(ty):
    ty = ty.strip()
    while ty.startswith("&"):
        ty = ty[1:].lstrip()
        if ty.startswith("'"):
            ty = ty.split(" ", 1)[1] if " " in ty else ty
        if ty.startswith("mut "):
            ty = ty[4:]
    return ty.split("<", 1)[0]


def int_norm(v, ty):
    m = re.match(r"i(\d+)$", ty or "")
    if m and isinstance(v, int):
        n = int(m.group(1))
        if v >= 1 << (n - 1):
            v -= 1 << n
    if ty == "isize" and isinstance(v, int) and v >= 1 << 63:
        v -= 1 << 64
    return v


class St:
    __slots__ = ("frames", "mem", "pc", "pcl", "trace", "uid", "visits", "depth", "stack", "notes")

    def __init__(self):
        self.frames = {}
        self.mem = {}
        self.pc = {}
        self.pcl = []
        self.trace = []
        self.uid = 0
        self.visits = {}
        self.depth = 0
        self.stack = ()
        self.notes = []

    def clone(self):
        s = St()
        s.frames = {k: dict(v) for k, v in self.frames.items()}
        s.mem = dict(self.mem)
        s.pc = dict(self.pc)
        s.pcl = list(self.pcl)
        s.trace = list(self.trace)
        s.uid = self.uid
        s.visits = dict(self.visits)
        s.depth = self.depth
        s.stack = self.stack
        s.notes = list(self.notes)
        return s

    def fresh(self):
        self.uid += 1
        return self.uid

    def assume(self, term, val):
        self.pc[term] = val
        self.pcl.append((term, val))


class Path:
    __slots__ = ("kind", "ret", "pc", "trace", "st", "notes")

    def __init__(self, kind, ret, st):
        self.kind = kind          # ret | panic | cut
        self.ret = ret
        self.pc = list(st.pcl)
        self.trace = list(st.trace)
        self.st = st
        self.notes = list(st.notes)


class Symex:
    def __init__(self, facts, models=None, max_depth=8, loop_bound=2, max_paths=50000, no_inline=(),
                 inline_crates=("geo", "geo_types", "geo_verif_roots"), mono=None, opaque_ok=True, budget_s=20.0, concrete_iters=False):
        self.facts = facts
        self.concrete_iters = concrete_iters
        self.assume_reflexive = False
        self.live_iter_mut = False       # iter_mut over a collection of concrete length hands out references to the elements themselves (no havoc of the collection)
        self.pure_assign_ops = False      # `a += b` on a generic scalar becomes the pure update a := a + b instead of an opaque effect
        self.resolve_by_receiver = False  # unresolved trait calls on concrete receivers are dispatched to the receiver type's impl (concrete-shape tables)
        self.distinct_opaques = False    # two different ("opaque", name) witnesses are different values (shape tables whose coordinates are named placeholders)
        self.fold_ground_eq = False      # structural == on fully concrete aggregates (only sound where no lazily evaluated closure can still mutate them)
        self.models = dict(DEFAULT_MODELS)
        if models:
            self.models.update(models)
        self.max_depth = max_depth
        self.loop_bound = loop_bound
        self.max_paths = max_paths
        self.no_inline = [re.compile(x) for x in no_inline]
        self.inline_crates = inline_crates
        self.npaths = 0
        self.fuid = 0
        self.mono = mono
        self.opaque_calls = {}
        self.watch_adts = set()
        self.root_inst = None
        self._cl_cache = {}
        self.budget_s = budget_s
        self.max_steps = int(budget_s * 50000)
        self.deadline = None
        self.steps = 0
        self.deadline = None
        self.steps = 0

    # ------------------------------------------------------------------ entry
    def run(self, fn, args=None, inst=None, mem=None):
        """mem: optional initial contents of the symbolic memory, {("arg", i): value} = what the reference passed as argument i points to."""
        st = St()
        if mem:
            for k, v in mem.items():
                st.mem[("S", k)] = v
        if args is None:
            args = [("arg", i) for i in range(1, fn.arg_count + 1)]
        self.npaths = 0
        self.root_inst = inst
        # the budget is counted in interpreter steps (deterministic: a loaded machine must not turn into a finding); the wall clock is only a
        # distant safety net at ten times the nominal budget
        self.max_steps = int(self.budget_s * 50000)
        self.deadline = time.time() + 10 * self.budget_s
        self.steps = 0
        out = []
        for st2, kind, val in self.call_fn(fn, list(args), st, inst=inst):
            out.append(Path(kind, self.canon(st2, val) if kind == "ret" else val, st2))
        return out

    # ------------------------------------------------------------------ frames
    def call_fn(self, fn, args, st, inst=None):
        if len(args) != fn.arg_count:
            # closure bodies take the argument tuple untupled
            raise Unanalysable("arity mismatch calling %s: %d args for %d" % (fn.path, len(args), fn.arg_count))
        self.fuid += 1
        fu = self.fuid
        frame = {}
        for i, a in enumerate(args):
            frame[i + 1] = a
        st.frames[fu] = frame
        st.depth += 1
        old_stack = st.stack
        st.stack = st.stack + (fn.key,)
        for st2, kind, val in self.exec_from(fn, st, 0, fu, inst):
            st2.frames.pop(fu, None)
            st2.depth -= 1
            st2.stack = old_stack
            yield st2, kind, val

    def exec_from(self, fn, st, bb, fu, inst):
        while True:
            self.steps += 1
            if self.steps > self.max_steps or (self.deadline is not None and self.steps % 1024 == 0 and time.time() > self.deadline):
                raise Unanalysable("analysis budget exhausted (%d steps)" % self.steps)
            vk = (fu, bb)
            n = st.visits.get(vk, 0) + 1
            st.visits[vk] = n
            if n > self.loop_bound + 1:
                yield st, "cut", ("loop-bound", fn.path, bb)
                return
            blk = fn.blocks[bb]
            for s in blk["s"]:
                if s[0] == "assign":
                    v = self.rvalue(fn, st, fu, s[2])
                    self.write_place(fn, st, fu, s[1], v)
                elif s[0] == "setdiscr":
                    raise Unanalysable("SetDiscriminant in %s" % fn.path)
            t = blk["t"]
            k = t["k"]
            if k == "goto":
                bb = t["t"]
            elif k == "return":
                if st.depth <= 1:
                    self.npaths += 1
                    if self.npaths > self.max_paths:
                        raise Unanalysable("more than %d paths" % self.max_paths)
                yield st, "ret", st.frames[fu].get(0, UNIT)
                return
            elif k == "drop":
                bb = t["t"]
            elif k == "assert":
                bb = t["t"]
            elif k == "unreachable":
                return
            elif k == "switch":
                v = self.operand(fn, st, fu, t["discr"])
                targets = [(int_norm(val, t["ty"]), b) for val, b in t["targets"]]
                flip = False
                while v[0] == "un" and v[1] == "Not":
                    v = v[2]
                    flip = not flip
                if v[0] == "const":
                    c = v[1]
                    if isinstance(c, bool):
                        c = 1 if c else 0
                    if flip:
                        c = 1 - c
                    bb = dict(targets).get(c, t["otherwise"])
                    continue
                if v in st.pc:
                    c = st.pc[v]
                    if isinstance(c, tuple):   # ("notin", values)
                        bb = t["otherwise"]
                        continue
                    if flip:
                        c = 1 - c
                    bb = dict(targets).get(c, t["otherwise"])
                    continue
                dom = self.domain(v, t["ty"])
                tmap = dict(targets)
                if dom is None:
                    vals = [val for val, _ in targets]
                    for val in vals:
                        st2 = st.clone()
                        st2.assume(v, val)
                        yield from self.exec_from(fn, st2, tmap[val], fu, inst)
                    st.assume(v, ("notin", tuple(vals)))
                    bb = t["otherwise"]
                    continue
                first = True
                for val in dom:
                    eff = (1 - val) if flip else val
                    tgt = tmap.get(eff, t["otherwise"])
                    st2 = st.clone()
                    st2.assume(v, val)
                    yield from self.exec_from(fn, st2, tgt, fu, inst)
                return
            elif k == "call":
                call = Call(fn, bb, t)
                nxt = t["t"]
                for st2, kind, val in self.do_call(fn, st, fu, call, inst):
                    if kind != "ret":
                        yield st2, kind, val
                        continue
                    if nxt is None:
                        yield st2, "panic", ("diverge", call.path)
                        continue
                    self.write_place(fn, st2, fu, t["dest"], val)
                    yield from self.exec_from(fn, st2, nxt, fu, inst)
                return
            else:
                raise Unanalysable("terminator %s in %s" % (k, fn.path))

    def domain(self, v, ty):
        if ty == "bool":
            return [0, 1]
        if v[0] == "discr":
            vs = self.enum_variants(v[2])
            if vs:
                return [d for _, d in vs]
        if v[0] == "cmp":
            return [0, 1]
        return None

    def enum_variants(self, adt):
        if adt in CORE_ENUMS:
            return CORE_ENUMS[adt]
        a = self.facts.adts.get(adt)
        if a and a["kind"] == "Enum":
            return [(v["name"], int(v["discr"])) for v in a["variants"]]
        return None

    # ------------------------------------------------------------------ places
    def resolve_loc(self, fn, st, fu, place):
        root = ("L", fu, place["l"])
        path = []
        for e in place["p"]:
            if e[0] == "deref":
                v = self.load(st, (root, tuple(path)))
                if v[0] == "ref":
                    root, p2 = v[1]
                    path = list(p2)
                elif v[0] == "&":
                    root = ("V", v[1])
                    path = []
                else:
                    root = ("S", v)
                    path = []
            elif e[0] == "index":
                iv = st.frames[fu].get(e[1], ("uninit", e[1]))
                path.append(("idx", self.canon(st, iv)))
            elif e[0] == "cindex":
                path.append(("idx", ("const", -e[1] if e[3] else e[1])) if not e[3] else ("idxend", e[1]))
            elif e[0] == "field":
                path.append(("field", e[1], e[2]))
            elif e[0] == "downcast":
                path.append(("downcast", e[1], e[2]))
            elif e[0] == "opaque":
                pass
            elif e[0] == "subslice":
                path.append(("subslice", e[1], e[2], bool(e[3])))
            else:
                raise Unanalysable("projection %s" % e[0])
        return (root, tuple(path))

    def load_root(self, st, root):
        if root[0] == "L":
            fr = st.frames.get(root[1])
            if fr is None:
                raise Unanalysable("dangling frame")
            return fr.get(root[2], ("uninit", root[2]))
        if root[0] == "S":
            return st.mem.get(root, ("deref", root[1]))
        if root[0] == "V":
            return root[1]
        raise Unanalysable("root")

    def load(self, st, loc):
        root, path = loc
        v = self.load_root(st, root)
        for e in path:
            v = self.project(st, v, e)
        return v

    def project(self, st, v, e):
        k = e[0]
        if k == "field":
            idx, name = e[1], e[2]
            if v[0] == "adt":
                if idx >= len(v[3]):
                    raise Unanalysable("field %s of %s (wrong variant / arity)" % (idx, show(v)[:80]))
                return v[3][idx]
            if v[0] == "tuple" or v[0] == "array":
                if idx >= len(v[1]):
                    raise Unanalysable("element %s of a %d-tuple" % (idx, len(v[1])))
                return v[1][idx]
            if v[0] == "closure":
                return v[2][idx]
            key = name if name is not None else str(idx)
            if v[0] == "upd":
                if v[2] == ("f", key):
                    return v[3]
                if v[2][0] == "f":
                    return self.project(st, v[1], e)
            return ("field", v, key)
        if k == "downcast":
            if v[0] == "adt":
                if v[2] != e[2]:
                    return ("bottom",)
                return v
            return ("as", v, e[2])
        if k == "idx":
            i = e[1]
            if v[0] == "array" and i[0] == "const":
                return v[1][i[1]]
            if v[0] == "call" and v[1] == "vec!" and i[0] == "const" and isinstance(i[1], int) and v[2]:
                a = v[2][0]
                while a[0] == "&":
                    a = a[1]
                if a[0] == "array" and 0 <= i[1] < len(a[1]):
                    return a[1][i[1]]
            if v[0] == "upd" and v[2] == ("i", i):
                return v[3]
            return ("index", v, i)
        if k == "idxend":
            a = v
            while a[0] == "&":
                a = a[1]
            if a[0] == "call" and a[1] == "vec!" and a[2]:
                a = a[2][0]
                while a[0] == "&":
                    a = a[1]
            if a[0] == "array" and 0 < e[1] <= len(a[1]):
                return a[1][-e[1]]
            return ("index_from_end", v, e[1])
        if k == "subslice":
            # the `rest @ ..` part of a slice pattern: [from .. len - to] (from_end) or [from .. to]
            a = v
            while a[0] == "&":
                a = a[1]
            if a[0] == "call" and a[1] == "vec!" and a[2]:
                a = a[2][0]
            if a[0] == "array":
                items = a[1][e[1]:len(a[1]) - e[2]] if e[3] else a[1][e[1]:e[2]]
                return ("array", tuple(items))
            raise Unanalysable("subslice of a slice of unknown length")
        raise Unanalysable("project %s" % (k,))

    def update(self, st, old, path, val):
        if not path:
            return val
        e = path[0]
        k = e[0]
        if k == "field":
            idx = e[1]
            if old[0] == "adt":
                fs = list(old[3])
                fs[idx] = self.update(st, fs[idx], path[1:], val)
                return ("adt", old[1], old[2], tuple(fs))
            if old[0] in ("tuple", "array"):
                fs = list(old[1])
                fs[idx] = self.update(st, fs[idx], path[1:], val)
                return (old[0], tuple(fs))
            if old[0] == "closure":
                fs = list(old[2])
                fs[idx] = self.update(st, fs[idx], path[1:], val)
                return ("closure", old[1], tuple(fs))
            if old[0] == "uninit" and len(path) == 1:
                # piecewise initialisation of a tuple/struct local
                return ("upd", old, ("f", e[2] if e[2] is not None else str(idx)), val)
            key = e[2] if e[2] is not None else str(idx)
            return ("upd", old, ("f", key), self.update(st, self.project(st, old, e), path[1:], val))
        if k == "idx":
            if old[0] == "array" and e[1][0] == "const":
                fs = list(old[1])
                fs[e[1][1]] = self.update(st, fs[e[1][1]], path[1:], val)
                return ("array", tuple(fs))
            if old[0] == "call" and old[1] == "vec!" and e[1][0] == "const" and old[2] and old[2][0][0] == "array" and 0 <= e[1][1] < len(old[2][0][1]):
                fs = list(old[2][0][1])
                fs[e[1][1]] = self.update(st, fs[e[1][1]], path[1:], val)
                return ("call", "vec!", (("array", tuple(fs)),))
            return ("upd", old, ("i", e[1]), self.update(st, self.project(st, old, e), path[1:], val))
        if k == "downcast":
            if old[0] == "adt" and old[2] == e[2]:
                return self.update(st, old, path[1:], val)
            return ("upd", old, ("as", e[2]), self.update(st, self.project(st, old, e), path[1:], val))
        raise Unanalysable("update %s" % k)

    def store(self, st, loc, val, log=True):
        root, path = loc
        if root[0] == "L":
            fr = st.frames[root[1]]
            fr[root[2]] = self.update(st, fr.get(root[2], ("uninit", root[2])), path, val)
        elif root[0] == "S":
            st.mem[root] = self.update(st, st.mem.get(root, ("deref", root[1])), path, val)
            if log:
                st.trace.append(("store", root, path, self.canon(st, val)))
        else:
            raise Unanalysable("write through a shared value reference")

    def read_place(self, fn, st, fu, place):
        return self.load(st, self.resolve_loc(fn, st, fu, place))

    def write_place(self, fn, st, fu, place, val):
        if not place["p"]:
            st.frames[fu][place["l"]] = val
            return
        self.store(st, self.resolve_loc(fn, st, fu, place), val)

    # ------------------------------------------------------------------ values
    def constant(self, fn, st, fu, c):
        if "fn" in c:
            return ("fn", c["fn"]["path"], tuple(c["fn"]["args"]))
        if "val" in c:
            return ("const", c["val"])
        if "fval" in c:
            return ("const", float(c["fval"]))
        if c["ty"] == "()":
            return UNIT
        if "promoted" in c:
            pb = fn.d["promoted"][c["promoted"]]
            return self.run_promoted(fn, st, pb)
        if "uneval" in c:
            if "uval" in c:
                return ("const", c["uval"])       # a named integer constant (block size, limit): its value
            return ("constitem", c["uneval"], c.get("text"))
        return ("constval", c["ty"], c.get("text"))

    def run_promoted(self, fn, st, pb):
        from .facts import Fn
        d = dict(fn.d)
        d.update(pb)
        d["promoted"] = []
        pf = Fn(d, fn.crate)
        self.fuid += 1
        fu = self.fuid
        st.frames[fu] = {}
        res = None
        bb = 0
        for _ in range(50):
            blk = pf.blocks[bb]
            for s in blk["s"]:
                if s[0] == "assign":
                    self.write_place(pf, st, fu, s[1], self.rvalue(pf, st, fu, s[2]))
            t = blk["t"]
            if t["k"] == "return":
                res = st.frames[fu].get(0)
                break
            if t["k"] == "goto":
                bb = t["t"]
                continue
            raise Unanalysable("promoted body with %s" % t["k"])
        # promoted temporaries are 'static: keep the frame alive (refs point into it)
        return res

    def operand(self, fn, st, fu, op):
        p = op_place(op)
        if p is not None:
            return self.read_place(fn, st, fu, p)
        if "const" in op:
            return self.constant(fn, st, fu, op["const"])
        return ("opaque", str(op))

    def rvalue(self, fn, st, fu, rv):
        k = rv[0]
        if k == "use":
            return self.operand(fn, st, fu, rv[1])
        if k == "ref":
            return ("ref", self.resolve_loc(fn, st, fu, rv[2]), rv[1])
        if k == "rawptr":
            return ("ref", self.resolve_loc(fn, st, fu, rv[2]), "mut" if "Mut" in rv[1] else "shared")
        if k == "bin":
            a = self.operand(fn, st, fu, rv[2])
            b = self.operand(fn, st, fu, rv[3])
            return self.binop(st, rv[1], a, b)
        if k == "un":
            a = self.operand(fn, st, fu, rv[2])
            return self.unop(st, rv[1], a)
        if k == "cast":
            v = self.operand(fn, st, fu, rv[2])
            kind = rv[1]
            if kind.startswith("PointerCoercion") or kind in ("PtrToPtr", "Subtype"):
                return v
            if kind == "Transmute" and _ptr_like(rv[3]) and _ptr_like(rv[4]):
                return v
            if v[0] == "const" and kind in ("IntToInt",):
                return v
            if v[0] == "const" and kind == "IntToFloat":
                return ("const", float(v[1]))
            return ("cast", kind, self.canon(st, v), rv[3])
        if k == "discr":
            v = self.read_place(fn, st, fu, rv[1])
            adt = ty_head(rv[2]) if len(rv) > 2 else None
            if v[0] == "adt":
                vs = self.enum_variants(v[1])
                if vs:
                    for name, d in vs:
                        if name == v[2]:
                            return ("const", d)
                raise Unanalysable("discriminant of %s" % v[1])
            return ("discr", self.canon(st, v), adt)
        if k == "agg":
            kind = rv[1]
            vals = tuple(self.operand(fn, st, fu, o) for o in rv[2])
            if "adt" in kind:
                if kind["adt"] in self.watch_adts:
                    st.trace.append(("agg", kind["adt"], kind["vname"], tuple(self.canon(st, x) for x in vals), fn.path))
                return ("adt", kind["adt"], kind["vname"], vals)
            if "tuple" in kind:
                return ("tuple", vals)
            if "array" in kind:
                return ("array", vals)
            if "closure" in kind:
                return ("closure", kind["key"], vals)
            raise Unanalysable("aggregate %s" % list(kind))
        if k == "repeat":
            v = self.canon(st, self.operand(fn, st, fu, rv[1]))
            m = re.match(r"^(\d+)(_usize)?$", str(rv[2]).strip())
            if m and int(m.group(1)) <= 16:
                return ("array", (v,) * int(m.group(1)))      # `[x; N]` with a small literal N: the N elements
            return ("repeat", v, rv[2])
        return ("opaque", str(rv)[:80])

    def binop(self, st, op, a, b):
        a = self.canon(st, a)
        b = self.canon(st, b)
        if a[0] == "const" and b[0] == "const" and not isinstance(a[1], str) and not isinstance(b[1], str):
            x, y = a[1], b[1]
            try:
                r = {"Add": lambda: x + y, "Sub": lambda: x - y, "Mul": lambda: x * y,
                     "Eq": lambda: x == y, "Ne": lambda: x != y, "Lt": lambda: x < y, "Le": lambda: x <= y,
                     "Gt": lambda: x > y, "Ge": lambda: x >= y,
                     "BitAnd": lambda: x & y, "BitOr": lambda: x | y, "BitXor": lambda: x ^ y,
                     "Rem": lambda: (x % y if isinstance(x, int) and isinstance(y, int) and x >= 0 and y > 0 else None),
                     "Div": lambda: (x // y if isinstance(x, int) and isinstance(y, int) and x >= 0 and y > 0 else None)}.get(op)
                if r is not None:
                    rv = r()
                    if rv is not None:
                        return ("const", rv)
            except Exception:
                pass
        if op in ("Lt", "Le", "Eq"):
            return ("cmp", op.lower(), a, b)
        if op == "Gt":
            return ("cmp", "lt", b, a)
        if op == "Ge":
            return ("cmp", "le", b, a)
        if op == "Ne":
            return ("un", "Not", ("cmp", "eq", a, b))
        op = op.replace("Unchecked", "").replace("WithOverflow", "")
        return ("bin", op, a, b)

    def unop(self, st, op, a):
        a = self.canon(st, a)
        if op == "Not":
            if a[0] == "const" and isinstance(a[1], bool):
                return ("const", not a[1])
            if a[0] == "un" and a[1] == "Not":
                return a[2]
            return ("un", "Not", a)
        if op == "Neg":
            if a[0] == "const":
                return ("const", -a[1])
            return ("un", "Neg", a)
        if op == "PtrMetadata":
            # the length of a slice reference: known when the referent is a concrete array / vec!
            b = a
            while b[0] == "&":
                b = b[1]
            if b[0] == "call" and b[1] == "vec!" and b[2]:
                b = b[2][0]
                while b[0] == "&":
                    b = b[1]
            if b[0] == "array":
                return ("const", len(b[1]))
            return ("len", a)
        return ("un", op, a)

    def canon(self, st, v):
        """Replace location references by snapshots of the referenced value (for atoms / results)."""
        if not isinstance(v, tuple) or not v:
            return v
        k = v[0]
        if k == "ref":
            return ("&", self.canon(st, self.load(st, v[1])))
        if k in ("const", "arg", "fn", "constitem", "constval", "uninit", "opaque", "bottom"):
            return v
        if k == "adt":
            return ("adt", v[1], v[2], tuple(self.canon(st, x) for x in v[3]))
        if k in ("tuple", "array"):
            return (k, tuple(self.canon(st, x) for x in v[1]))
        if k == "closure":
            return ("closure", v[1], tuple(self.canon(st, x) for x in v[2]))
        if k == "upd":
            return ("upd", self.canon(st, v[1]), v[2], self.canon(st, v[3]))
        # generic structural recursion over tuple terms
        return tuple(self.canon(st, x) if isinstance(x, tuple) else x for x in v)

    def deref_val(self, st, v):
        """Value behind a reference-typed value."""
        if v[0] == "ref":
            return self.load(st, v[1])
        if v[0] == "&":
            return v[1]
        return st.mem.get(("S", v), ("deref", v))

    # ------------------------------------------------------------------ calls
    def do_call(self, fn, st, fu, call, inst):
        args = [self.operand(fn, st, fu, a) for a in call.args]
        if call.indirect:
            fv = self.operand(fn, st, fu, call.raw["func"]["indirect"])
            yield from self.opaque(st, "<indirect>", args, call, extra=(self.canon(st, fv),))
            return
        yield from self.dispatch(st, call, args, inst, fn)

    def dispatch(self, st, call, args, inst, fn):
        # 1. models
        if call.trait in ("core::iter::traits::iterator::Iterator", "core::iter::traits::double_ended::DoubleEndedIterator", "core::iter::traits::exact_size::ExactSizeIterator"):
            if self.concrete_iters:
                from . import citer
                r = citer.m_next(self, st, call, args) if call.method == "next" else citer.m_next_back(self, st, call, args) if call.method == "next_back" else citer.consumer(self, st, call, args)
                if r is not NotImplemented:
                    yield from r
                    return
            r = m_iter_pure(self, st, call, args)
            if r is not NotImplemented:
                yield from r
                return
        for key in (call.path, call.callee, "%s::%s" % (call.trait, call.method) if call.trait else None):
            if key and key in self.models:
                r = self.models[key](self, st, call, args)
                if r is not NotImplemented:
                    yield from r
                    return
        # 2. closures / fn items called through the Fn* traits
        if call.trait in ("core::ops::function::FnOnce", "core::ops::function::FnMut", "core::ops::function::Fn"):
            r = self.call_callable(st, call, args)
            if r is not NotImplemented:
                yield from r
                return
        # 3. inline
        target = self.resolve_callee(call, inst)
        if target is None and self.resolve_by_receiver and call.trait and args:
            # a trait method left unresolved in polymorphic MIR whose receiver is a concrete value here: the impl of the receiver's own type
            recv = args[0]
            for _ in range(8):
                if recv[0] == "ref":
                    recv = self.load(st, recv[1])
                elif recv[0] in ("&", "deref"):
                    recv = recv[1]
                else:
                    break
            if recv[0] == "adt":
                cands = [im for im in self.facts.impls_of(call.trait) if im["self_ty"].split("<")[0] == recv[1] and im.get("crate") in self.inline_crates]
                if len(cands) > 1:
                    # several impls for this receiver (a trait with a right-hand-side parameter): the other arguments' concrete types decide
                    heads = []
                    for a in args[1:]:
                        v = a
                        for _ in range(8):
                            if v[0] == "ref":
                                v = self.load(st, v[1])
                            elif v[0] in ("&", "deref"):
                                v = v[1]
                            else:
                                break
                        heads.append(v[1] if v[0] == "adt" else None)
                    if heads and all(heads):
                        cands = [im for im in cands if all(any(h == str(t).lstrip("&").split("<")[0] for t in im.get("trait_args", [])[1:]) for h in heads)]
                if len(cands) == 1:
                    g = self.facts.impl_fn(cands[0], call.method)
                    if g is not None:
                        target = (g, None)
        if target is not None:
            cf, cinst = target
            if st.depth < self.max_depth and st.stack.count(cf.key) < 2 and not any(r.search(cf.path) for r in self.no_inline):
                st.trace.append(("enter", cf.path, tuple(self.canon(st, a) for a in args), call.fn.path, call.bb))
                yield from self.call_fn(cf, args, st, cinst)
                return
        # 4. opaque
        yield from self.opaque(st, call.path, args, call)

    def resolve_callee(self, call, inst):
        c = call.raw["func"].get("fn")
        if not c:
            return None
        r = c.get("resolved")
        if r and r["crate"] in self.inline_crates and r["kind"] == "Item":
            f = self.facts.by_key.get(r["key"])
            if f is not None:
                return f, None
        if inst is not None and self.mono is not None:
            m = self.mono.callee_at(inst, call.bb)
            if m is not None:
                x = self.mono.inst(m)
                if x["crate"] in self.inline_crates and x["kind"] == "Item":
                    f = self.facts.by_key.get(x["key"])
                    if f is not None:
                        return f, m
        return None

    def opaque(self, st, path, args, call, extra=()):
        cargs = tuple(self.canon(st, a) for a in args) + tuple(extra)
        muts = []

        def scan(v, d=0):
            if not isinstance(v, tuple) or not v or d > 4:
                return
            if v[0] == "ref":
                if v[2] == "mut":
                    muts.append(v)
                return
            if v[0] == "adt":
                for x in v[3]:
                    scan(x, d + 1)
            elif v[0] in ("tuple", "array"):
                for x in v[1]:
                    scan(x, d + 1)
            elif v[0] == "closure":
                for x in v[2]:
                    scan(x, d + 1)
        for a in args:
            scan(a)
        tys = call.raw.get("arg_tys", []) if call is not None else []
        mut_sym = [a for a, t in zip(args, tys) if t.startswith("&mut") and a[0] not in ("ref", "&")]
        self.opaque_calls[path] = self.opaque_calls.get(path, 0) + 1
        if muts or mut_sym:
            uid = st.fresh()
            for a in muts:
                old = self.canon(st, self.load(st, a[1]))
                self.store(st, a[1], ("havoc", uid, old), log=False)
            for a in mut_sym:
                root = ("S", a)
                st.mem[root] = ("havoc", uid, self.canon(st, st.mem.get(root, ("deref", a))))
            ret = ("call", path, cargs, uid)
            locs = tuple(a[1] for a in muts) + tuple((("S", a), ()) for a in mut_sym)
            st.trace.append(("call", path, cargs, uid, call.fn.path if call else None, call.bb if call else None, locs))
        else:
            ret = ("call", path, cargs)
            st.trace.append(("call", path, cargs, None, call.fn.path if call else None, call.bb if call else None, ()))
        yield st, "ret", ret

    def call_callable(self, st, call, args):
        f = args[0]
        if f[0] == "ref":
            fv = self.load(st, f[1])
        elif f[0] == "&":
            fv = f[1]
        else:
            fv = f
        if fv[0] == "closure":
            cf = self.facts.by_key.get(fv[1])
            if cf is None:
                return NotImplemented
            tup = args[1] if len(args) > 1 else UNIT
            tup = self.canon_keep(st, tup)
            if tup[0] != "tuple":
                return NotImplemented
            env_ty = cf.locals[1] if len(cf.locals) > 1 else ""
            if env_ty.startswith("&"):
                if f[0] in ("ref", "&"):
                    env = f
                else:
                    env = ("&", fv)
            else:
                env = fv
            return self._call_closure(st, cf, [env] + list(tup[1]), self.closure_inst(cf.key))
        if fv[0] == "fn":
            return NotImplemented
        return NotImplemented

    def canon_keep(self, st, v):
        return v

    def _call_closure(self, st, cf, args, inst=None):
        st.trace.append(("enter", cf.path, tuple(self.canon(st, a) for a in args), None, None))
        yield from self.call_fn(cf, args, st, inst)

    def closure_inst(self, key):
        """Instance id of a closure in the mono graph reachable from the current root instance (first match)."""
        if self.mono is None or self.root_inst is None:
            return None
        cache = self._cl_cache.get(self.root_inst)
        if cache is None:
            cache = {}
            for i in self.mono.reach(self.root_inst, lambda x: x["crate"] in self.inline_crates):
                x = self.mono.inst(i)
                if x["key"] not in cache:
                    cache[x["key"]] = i
            self._cl_cache[self.root_inst] = cache
        return cache.get(key)


def _ptr_like(ty):
    return ty.startswith(("*const ", "*mut ", "&", "core::ptr::non_null::NonNull<", "core::ptr::unique::Unique<"))


def _find_first(t, kind):
    if isinstance(t, tuple) and t:
        if t[0] == kind:
            return t
        for x in (t[1:] if isinstance(t[0], str) else t):
            r = _find_first(x, kind)
            if r is not None:
                return r
    return None


def _contains(t, sub):
    if t == sub:
        return True
    if isinstance(t, tuple):
        return any(_contains(x, sub) for x in t if isinstance(x, tuple))
    return False


def m_box_new_uninit(ex, st, call, args):
    return _ret(st, ("box", st.fresh()))


def m_vec_macro(ex, st, call, args):
    """`vec![a, b, ..]` = box_assume_init_into_vec_unsafe(Box::new_uninit() written through a raw pointer)."""
    b = args[0]
    if b[0] != "box":
        return NotImplemented
    for root, val in st.mem.items():
        if root[0] == "S" and _contains(root[1], b):
            arr = _find_first(ex.canon(st, val), "array")
            if arr is not None:
                return _ret(st, ("call", "vec!", (arr,)))
    return NotImplemented


# ---------------------------------------------------------------------- models of core / alloc
def _ret(st, v):
    yield st, "ret", v


def m_cmp(op, flip=False, neg=False):
    def f(ex, st, call, args):
        a = ex.canon(st, ex.deref_val(st, args[0]))
        b = ex.canon(st, ex.deref_val(st, args[1]))
        if flip:
            a, b = b, a
        if a[0] == "const" and b[0] == "const":
            x, y = a[1], b[1]
            r = {"lt": x < y, "le": x <= y, "eq": x == y}[op]
            return _ret(st, ("const", (not r) if neg else r))
        if a[0] == "adt" and b[0] == "adt" and not a[3] and not b[3] and a[1] == b[1]:
            # fieldless enum values: derived PartialEq / PartialOrd compare discriminants
            vs = ex.enum_variants(a[1])
            if vs:
                d = dict(vs)
                x, y = d[a[2]], d[b[2]]
                r = {"lt": x < y, "le": x <= y, "eq": x == y}[op]
                return _ret(st, ("const", (not r) if neg else r))
        if ex.fold_ground_eq and op == "eq":
            # `&x == &y` compares the referents
            while a[0] == "&" and b[0] == "&":
                a, b = a[1], b[1]
        if ex.distinct_opaques and op == "eq" and a[0] == "opaque" and b[0] == "opaque":
            r = a == b
            return _ret(st, ("const", (not r) if neg else r))
        if ex.fold_ground_eq and op == "eq" and ground(a) and ground(b) and (a[0] == "adt" or b[0] == "adt"):
            # derived / core PartialEq on fully concrete enum / struct values (e.g. Option<CoordPos>): structural equality
            r = a == b
            return _ret(st, ("const", (not r) if neg else r))
        if not scalar_like(a) or not scalar_like(b):
            return NotImplemented
        if ex.assume_reflexive and a == b:
            # the same value on both sides (no NaN in the property's domain): x == x, x <= x hold, x < x does not
            r = op in ("eq", "le")
            return _ret(st, ("const", (not r) if neg else r))
        t = ("cmp", op, a, b)
        return _ret(st, ("un", "Not", t) if neg else t)
    return f


def scalar_like(t):
    """Comparison atoms are only built on scalar-looking terms; aggregates go through their impl."""
    return t[0] not in ("adt", "tuple", "array", "closure")


def m_identity(ex, st, call, args):
    return _ret(st, args[0])


def m_clone(ex, st, call, args):
    v = ex.deref_val(st, args[0])
    return _ret(st, v)


def m_from(ex, st, call, args):
    # <T as From<T>>::from  is the identity; anything else is left to inlining / opaque
    if call.resolved and call.resolved.startswith("core::convert::<impl core::convert::From<T> for T>"):
        return _ret(st, args[0])
    g = call.gargs
    if len(g) == 2 and g[0] == g[1] and call.callee == "core::convert::From::from":
        return _ret(st, args[0])
    a = ex.canon(st, args[0])
    if a[0] == "const" and isinstance(a[1], bool) and re.search(r"From<bool> for (u|i)(size|8|16|32|64|128)>", call.path or ""):
        return _ret(st, ("const", 1 if a[1] else 0))
    return NotImplemented


def ground(t, depth=0):
    """a term without symbolic leaves: constants and aggregates of them"""
    if depth > 6 or not isinstance(t, tuple) or not t:
        return False
    if t[0] == "const":
        return True
    if t[0] == "adt":
        return all(ground(x, depth + 1) for x in t[3])
    if t[0] in ("tuple", "array"):
        return all(ground(x, depth + 1) for x in t[1])
    return False


def m_into(ex, st, call, args):
    g = call.gargs
    if len(g) == 2:
        if g[0] == g[1]:
            return _ret(st, args[0])
        if g[1] == "core::option::Option<%s>" % g[0]:
            return _ret(st, ("adt", "core::option::Option", "Some", (args[0],)))
    return NotImplemented


def m_try_branch(ex, st, call, args):
    v = args[0]
    head = ty_head(call.self_ty or (call.gargs[0] if call.gargs else ""))
    CF = "core::ops::control_flow::ControlFlow"
    if head == "core::result::Result":
        ok, err = "Ok", "Err"
    elif head == "core::option::Option":
        ok, err = "Some", "None"
    else:
        return NotImplemented

    def gen():
        if v[0] == "adt":
            if v[2] == ok:
                yield st, "ret", ("adt", CF, "Continue", (v[3][0],))
            else:
                res = ("adt", head, err, v[3]) if head.endswith("Result") else ("adt", head, "None", ())
                yield st, "ret", ("adt", CF, "Break", (res,))
            return
        cv = ex.canon(st, v)
        d = ("discr", cv, head)
        vals = dict(CORE_ENUMS[head])
        known = st.pc.get(d)
        for name in (ok, err):
            if known is not None and known != vals[name]:
                continue
            s2 = st.clone() if known is None else st
            if known is None:
                s2.assume(d, vals[name])
            if name == ok:
                yield s2, "ret", ("adt", CF, "Continue", (("field", ("as", cv, ok), "0"),))
            else:
                res = ("adt", head, "Err", (("field", ("as", cv, "Err"), "0"),)) if head.endswith("Result") else ("adt", head, "None", ())
                yield s2, "ret", ("adt", CF, "Break", (res,))
    return gen()


def m_from_residual(ex, st, call, args):
    v = args[0]
    if v[0] == "adt" and v[1] in ("core::result::Result", "core::option::Option"):
        if v[2] == "Err":
            return _ret(st, ("adt", v[1], "Err", (("call", "core::convert::From::from", (ex.canon(st, v[3][0]),)),)))
        return _ret(st, v)
    return NotImplemented


def m_index(ex, st, call, args):
    head = ty_head(call.self_ty or "")
    if not (head in ("alloc::vec::Vec", "alloc::collections::vec_deque::VecDeque") or head.startswith("[")):
        return NotImplemented      # user Index impls are inlined like any other function
    r = args[0]
    i = ex.canon(st, args[1])
    if i[0] == "const" and isinstance(i[1], int) and r[0] != "ref":
        xs = _concrete_items(ex, st, r)
        if xs is not None and 0 <= i[1] < len(xs):
            return _ret(st, ("&", xs[i[1]]))
    if i[0] == "adt" and "ops::range::Range" in i[1]:
        # a sub-slice of a collection with a concrete number of elements and constant bounds
        xs = _concrete_items(ex, st, r)
        if xs is not None:
            vals = [ex.canon(st, b) for b in i[3]]
            if all(b[0] == "const" and isinstance(b[1], int) for b in vals):
                n = len(xs)
                kind = i[1].rsplit("::", 1)[-1]
                lo, hi = 0, n
                if kind == "RangeFrom":
                    lo = vals[0][1]
                elif kind == "RangeTo":
                    hi = vals[0][1]
                elif kind == "Range":
                    lo, hi = vals[0][1], vals[1][1]
                elif kind == "RangeToInclusive":
                    hi = vals[0][1] + 1
                elif kind == "RangeFull":
                    pass
                else:
                    return NotImplemented
                if 0 <= lo <= hi <= n:
                    return _ret(st, ("&", ("array", tuple(xs[lo:hi]))))
    if r[0] == "ref":
        root, path = r[1]
        return _ret(st, ("ref", (root, path + (("idx", i),)), r[2]))
    if r[0] == "&":
        return _ret(st, ("&", ex.project(st, r[1], ("idx", i))))
    return _ret(st, ("&", ("index", ("deref", ex.canon(st, r)), i)))


def _set_behind(ex, st, r, val):
    if r[0] == "ref":
        ex.store(st, r[1], val, log=False)
    else:
        st.mem[("S", r)] = val


def m_swap(ex, st, call, args):
    """core::mem::swap(&mut a, &mut b)"""
    a, b = args
    va, vb = ex.canon(st, ex.deref_val(st, a)), ex.canon(st, ex.deref_val(st, b))
    _set_behind(ex, st, a, vb)
    _set_behind(ex, st, b, va)
    return _ret(st, ("tuple", ()))


def m_slice_swap(ex, st, call, args):
    """<[T]>::swap(&mut s, i, j) on an array of concrete length with constant indices"""
    r, i, j = args
    if i[0] != "const" or j[0] != "const":
        return NotImplemented
    cur = ex.deref_val(st, r)
    if cur[0] != "array" or not (0 <= i[1] < len(cur[1]) and 0 <= j[1] < len(cur[1])):
        return NotImplemented
    items = list(cur[1])
    items[i[1]], items[j[1]] = items[j[1]], items[i[1]]
    _set_behind(ex, st, r, ("array", tuple(items)))
    return _ret(st, ("tuple", ()))


def m_iter_mut(ex, st, call, args):
    """<[T]>::iter_mut(&mut s) as a pure iterator term that keeps the live reference (opt-in: Symex.live_iter_mut, with concrete_iters)"""
    if not (ex.live_iter_mut and ex.concrete_iters) or len(args) != 1 or args[0][0] != "ref":
        return NotImplemented
    from . import citer
    if citer._array_items(ex, st, args[0]) is None:
        return NotImplemented
    return _ret(st, ("call", call.path, (args[0],)))


def m_into_iter_live(ex, st, call, args):
    """IntoIterator::into_iter of a live iter_mut term is the identity (keeps the element references alive)"""
    def has_live(t, d=0):
        if not isinstance(t, tuple) or d > 6:
            return False
        if t and t[0] == "call" and len(t) == 3 and isinstance(t[1], str) and t[1].endswith("::iter_mut"):
            return True
        if t and t[0] == "call" and len(t) == 3:
            return any(has_live(x, d + 1) for x in t[2])
        return False
    if ex.live_iter_mut and len(args) == 1 and has_live(args[0]):
        return _ret(st, args[0])
    if ex.live_iter_mut and ex.concrete_iters and len(args) == 1 and args[0][0] == "ref" and args[0][2] == "mut":
        # `for x in &mut vec` over a collection of concrete length
        from . import citer
        if citer._array_items(ex, st, args[0]) is not None:
            return _ret(st, ("call", call.path, (args[0],)))
    return NotImplemented


def m_int_const(op):
    """integer helpers of core::num on constants (saturating_sub, saturating_add, min, max, abs_diff)"""
    def model(ex, st, call, args):
        vals = [ex.canon(st, a) for a in args]
        if not all(v[0] == "const" and isinstance(v[1], int) and not isinstance(v[1], bool) for v in vals):
            return NotImplemented
        a = vals[0][1]
        b = vals[1][1] if len(vals) > 1 else None
        r = {"saturating_sub": lambda: max(0, a - b) if "<impl u" in (call.path or "") else a - b, "saturating_add": lambda: a + b, "abs_diff": lambda: abs(a - b)}[op]()
        return _ret(st, ("const", r))
    return model


def m_assign_op(op):
    """<T as AddAssign>::add_assign(&mut a, b) on a generic scalar as the pure update a := a op b (opt-in: Symex.pure_assign_ops)"""
    def model(ex, st, call, args):
        if not ex.pure_assign_ops or len(args) != 2 or args[0][0] != "ref":
            return NotImplemented
        old = ex.canon(st, ex.load(st, args[0][1]))
        if old[0] in ("adt", "array", "tuple", "havoc"):
            return NotImplemented
        new = ("call", "core::ops::arith::%s::%s" % (op.capitalize(), op), (old, ex.canon(st, args[1])))
        ex.store(st, args[0][1], new, log=False)
        return _ret(st, ("tuple", ()))
    return model


def m_replace(ex, st, call, args):
    """core::mem::replace(&mut a, v) -> old a"""
    a, v = args
    old = ex.canon(st, ex.deref_val(st, a))
    _set_behind(ex, st, a, ex.canon(st, v))
    return _ret(st, old)


def m_deref(ex, st, call, args):
    # Vec<T> -> [T], String -> str, Box: same storage
    head = ty_head(call.self_ty or "")
    if head in ("alloc::vec::Vec", "alloc::boxed::Box", "alloc::string::String"):
        return _ret(st, args[0])
    return NotImplemented


def _concrete_items(ex, st, v):
    """elements of an array / vec![..] value of concrete length (through references and Deref), else None"""
    for _ in range(8):
        if v[0] == "ref":
            v = ex.load(st, v[1])
        elif v[0] in ("&",):
            v = v[1]
        else:
            break
    v = ex.canon(st, v)
    while v[0] in ("&", "deref"):
        v = v[1]
    if v[0] == "array":
        return v[1]
    if v[0] == "call" and v[1] == "vec!" and v[2]:
        a = v[2][0]
        while a[0] == "&":
            a = a[1]
        if a[0] == "array":
            return a[1]
    return None


def m_len(ex, st, call, args):
    xs = _concrete_items(ex, st, args[0])
    if xs is not None:
        return _ret(st, ("const", len(xs)))
    v = ex.canon(st, ex.deref_val(st, args[0]))
    if v[0] == "array":
        return _ret(st, ("const", len(v[1])))
    return _ret(st, ("len", v))


def m_vec_new(ex, st, call, args):
    if not ex.concrete_iters:
        return NotImplemented
    return _ret(st, ("call", "vec!", (("array", ()),)))


def m_vec_push(ex, st, call, args):
    """push on a vector with a concrete number of elements (only in concrete-iterator mode)"""
    if not ex.concrete_iters or args[0][0] != "ref":
        return NotImplemented
    xs = _concrete_items(ex, st, args[0])
    if xs is None:
        return NotImplemented
    ex.store(st, args[0][1], ("call", "vec!", (("array", tuple(xs) + (ex.canon(st, args[1]),)),)), log=False)
    return _ret(st, UNIT)


def m_vec_remove(ex, st, call, args):
    """Vec::remove(&mut v, i) on a vector with a concrete number of elements and a constant index (concrete-iterator mode)"""
    if not ex.concrete_iters or args[0][0] != "ref":
        return NotImplemented
    xs = _concrete_items(ex, st, args[0])
    i = ex.canon(st, args[1])
    if xs is None or i[0] != "const" or not isinstance(i[1], int) or isinstance(i[1], bool):
        return NotImplemented
    if not (0 <= i[1] < len(xs)):
        def gen():
            yield st, "panic", None
        return gen()
    ex.store(st, args[0][1], ("call", "vec!", (("array", tuple(xs[:i[1]]) + tuple(xs[i[1] + 1:])),)), log=False)
    return _ret(st, xs[i[1]])


def m_vec_insert(ex, st, call, args):
    """Vec::insert(&mut v, i, x) on a vector with a concrete number of elements and a constant index (concrete-iterator mode)"""
    if not ex.concrete_iters or args[0][0] != "ref":
        return NotImplemented
    xs = _concrete_items(ex, st, args[0])
    i = ex.canon(st, args[1])
    if xs is None or i[0] != "const" or not isinstance(i[1], int) or isinstance(i[1], bool):
        return NotImplemented
    if not (0 <= i[1] <= len(xs)):
        def gen():
            yield st, "panic", None
        return gen()
    ex.store(st, args[0][1], ("call", "vec!", (("array", tuple(xs[:i[1]]) + (ex.canon(st, args[2]),) + tuple(xs[i[1]:])),)), log=False)
    return _ret(st, UNIT)


def m_is_empty(ex, st, call, args):
    xs = _concrete_items(ex, st, args[0])
    if xs is None:
        return NotImplemented
    return _ret(st, ("const", len(xs) == 0))


def m_get_unchecked(ex, st, call, args):
    xs = _concrete_items(ex, st, args[0])
    i = ex.canon(st, args[1])
    if xs is None or i[0] != "const" or not isinstance(i[1], int) or not (0 <= i[1] < len(xs)):
        return NotImplemented
    return _ret(st, ("&", xs[i[1]]))


def m_split(which):
    def f(ex, st, call, args):
        xs = _concrete_items(ex, st, args[0])
        if xs is None:
            return NotImplemented
        if not xs:
            return _ret(st, ("adt", "core::option::Option", "None", ()))
        if which == "last":
            pair = ("tuple", (("&", xs[-1]), ("&", ("array", tuple(xs[:-1])))))
        else:
            pair = ("tuple", (("&", xs[0]), ("&", ("array", tuple(xs[1:])))))
        return _ret(st, ("adt", "core::option::Option", "Some", (pair,)))
    return f


def m_first_last(which):
    def f(ex, st, call, args):
        xs = _concrete_items(ex, st, args[0])
        if xs is None:
            return NotImplemented
        if not xs:
            return _ret(st, ("adt", "core::option::Option", "None", ()))
        return _ret(st, ("adt", "core::option::Option", "Some", (("&", xs[0 if which == "first" else -1]),)))
    return f


def m_partial_ord_cmp_scalar(ex, st, call, args):
    return NotImplemented


ITER_PURE = ("any", "all", "find", "find_map", "position", "rposition", "count", "sum", "product", "min", "max", "min_by", "max_by",
             "min_by_key", "max_by_key", "fold", "last", "nth", "map", "filter", "filter_map", "flat_map", "flatten", "chain", "zip",
             "enumerate", "rev", "skip", "take", "skip_while", "take_while", "cloned", "copied", "peekable", "collect", "unzip",
             "partition", "reduce", "try_fold", "is_sorted", "eq", "cmp", "partial_cmp", "step_by", "cycle", "fuse", "inspect", "scan",
             "map_while", "by_ref", "size_hint")


def m_iter_pure(ex, st, call, args):
    """Iterator adaptors / consumers as pure terms over the (loaded) iterator value: the sequence algebra of E5."""
    if call.method not in ITER_PURE:
        return NotImplemented
    if call.method in ("all", "any"):
        r = m_all_any(call.method)(ex, st, call, args)
        if r is not NotImplemented:
            return r
    vals = []
    for i, a in enumerate(args):
        if i == 0 and a[0] in ("ref", "&"):
            a = ex.deref_val(st, a)
        if i > 0 and ex.concrete_iters and a[0] == "closure":
            # keep the closure's captured `&mut` references alive: a concrete iterator may run the closure later, with effects
            vals.append(a)
            continue
        if i == 0 and ex.live_iter_mut and ex.concrete_iters and a[0] == "call":
            # an adaptor over a live iter_mut keeps the element references (no snapshot)
            vals.append(a)
            continue
        vals.append(ex.canon(st, a))
    return _ret(st, ("call", "Iterator::" + call.method, tuple(vals)))


def _as_array(ex, st, v):
    """Concrete element tuple of an array / slice value (through references), or None."""
    for _ in range(6):
        if v[0] == "ref":
            v = ex.load(st, v[1])
        elif v[0] == "&":
            v = v[1]
        else:
            break
    if v[0] == "array":
        return v
    return None


def _call_closure_paths(ex, st, f, argvals):
    """Invoke a closure value (or a reference to one) on explicit arguments; yields (st, value)."""
    fv = f
    if f[0] == "ref":
        fv = ex.load(st, f[1])
    elif f[0] == "&":
        fv = f[1]
    if fv[0] != "closure":
        raise Unanalysable("callee is not a closure literal")
    cf = ex.facts.by_key.get(fv[1])
    if cf is None:
        raise Unanalysable("closure body missing")
    env_ty = cf.locals[1] if len(cf.locals) > 1 else ""
    if env_ty.startswith("&"):
        env = f if f[0] in ("ref", "&") else ("&", fv)
    else:
        env = fv
    for s2, kind, val in ex.call_fn(cf, [env] + list(argvals), st, ex.closure_inst(fv[1])):
        if kind == "panic":
            continue        # a panicking branch inside the closure (e.g. unwrap of None): not a returning path
        if kind != "ret":
            raise Unanalysable("closure does not return (%s)" % kind)
        yield s2, val


def m_array_map(ex, st, call, args):
    arr = _as_array(ex, st, args[0])
    if arr is None:
        return NotImplemented
    f = args[1]

    def gen(s, i, acc):
        if i == len(arr[1]):
            yield s, "ret", ("array", tuple(acc))
            return
        for s2, v in _call_closure_paths(ex, s, f, [arr[1][i]]):
            yield from gen(s2, i + 1, acc + [v])
    return gen(st, 0, [])


def _fork_bool(ex, st, b):
    """yield (state, python bool) for a boolean term, forking when it is symbolic"""
    b = ex.canon(st, b)
    flip = False
    while b[0] == "un" and b[1] == "Not":
        b = b[2]
        flip = not flip
    if b[0] == "const":
        yield st, bool(b[1]) != flip
        return
    if b in st.pc:
        yield st, (st.pc[b] == 1) != flip
        return
    for val in (0, 1):
        s2 = st.clone()
        s2.assume(b, val)
        yield s2, (val == 1) != flip


def _concrete_seq(ex, st, it):
    """Elements of an iterator value over a concrete array: windows(n) / iter()."""
    it = ex.canon(st, it)
    while it[0] == "&":
        it = it[1]
    if it[0] == "call" and it[1].endswith("::windows") and len(it[2]) == 2 and it[2][1][0] == "const":
        arr = it[2][0]
        while arr[0] == "&":
            arr = arr[1]
        if arr[0] == "array":
            n = it[2][1][1]
            xs = arr[1]
            return [("&", ("array", tuple(xs[i:i + n]))) for i in range(len(xs) - n + 1)]
    if it[0] == "call" and (it[1].endswith("<impl [T]>::iter") or it[1].endswith("IntoIterator>::into_iter")) and it[2]:
        arr = it[2][0]
        while arr[0] == "&":
            arr = arr[1]
        if arr[0] == "array":
            return [("&", x) for x in arr[1]]
    return None


def m_all_any(kind):
    def model(ex, st, call, args):
        itv = args[0]
        if itv[0] in ("ref", "&"):
            itv = ex.deref_val(st, itv)
        seq = _concrete_seq(ex, st, itv)
        if seq is None or len(args) < 2:
            return NotImplemented
        f = args[1]

        def gen(s, i):
            if i == len(seq):
                yield s, "ret", ("const", kind == "all")
                return
            for s2, v in _call_closure_paths(ex, s, f, [seq[i]]):
                for s3, b in _fork_bool(ex, s2, v):
                    if kind == "all" and not b:
                        yield s3, "ret", FALSE
                    elif kind == "any" and b:
                        yield s3, "ret", TRUE
                    else:
                        yield from gen(s3, i + 1)
        return gen(st, 0)
    return model


def m_sort(ex, st, call, args):
    """sort() of a small array of symbolic enum values: concretise every element, then order by discriminant."""
    r = args[0]
    if r[0] != "ref":
        return NotImplemented
    arr = ex.load(st, r[1])
    if arr[0] != "array" or len(arr[1]) > 4:
        return NotImplemented
    g = call.gargs[0] if call.gargs else ""
    vs = ex.enum_variants(ty_head(g))
    if not vs or any(len(x) != 2 for x in vs):
        return NotImplemented

    def gen(s, i, acc):
        if i == len(arr[1]):
            order = {name: d for name, d in vs}
            srt = sorted(acc, key=lambda a: order[a[2]])
            ex.store(s, r[1], ("array", tuple(srt)), log=False)
            yield s, "ret", UNIT
            return
        e = ex.canon(s, arr[1][i])
        if e[0] == "adt":
            yield from gen(s, i + 1, acc + [e])
            return
        d = ("discr", e, ty_head(g))
        known = s.pc.get(d)
        for name, dv in vs:
            if known is not None and known != dv:
                continue
            s2 = s if known is not None else s.clone()
            if known is None:
                s2.assume(d, dv)
            yield from gen(s2, i + 1, acc + [("adt", ty_head(g), name, ())])
    return gen(st, 0, [])


def _opt_cases(ex, st, v, head="core::option::Option", some="Some", none="None"):
    """yield (state, is_some, payload) for an Option value, forking when symbolic"""
    if v[0] in ("ref", "&"):
        v = ex.deref_val(st, v)
    if v[0] == "adt" and v[1] == head:
        yield st, v[2] == some, (v[3][0] if v[3] else None)
        return
    cv = ex.canon(st, v)
    d = ("discr", cv, head)
    vals = dict(CORE_ENUMS[head])
    known = st.pc.get(d)
    for name in (none, some):
        if known is not None and known != vals[name]:
            continue
        s2 = st if known is not None else st.clone()
        if known is None:
            s2.assume(d, vals[name])
        yield s2, name == some, (("field", ("as", cv, some), "0") if name == some else None)


def m_option_map(ex, st, call, args):
    def gen():
        for s, is_some, payload in _opt_cases(ex, st, args[0]):
            if not is_some:
                yield s, "ret", ("adt", "core::option::Option", "None", ())
            else:
                for s2, v in _call_closure_paths(ex, s, args[1], [payload]):
                    yield s2, "ret", ("adt", "core::option::Option", "Some", (v,))
    try:
        f = args[1]
        fv = ex.load(st, f[1]) if f[0] == "ref" else (f[1] if f[0] == "&" else f)
        if fv[0] != "closure":
            return NotImplemented
    except Exception:
        return NotImplemented
    return gen()


def m_option_filter(ex, st, call, args):
    """Option::filter(opt, pred) when the option's variant is known: None, or Some(x) kept iff pred(&x)"""
    v = args[0]
    if v[0] in ("ref", "&"):
        v = ex.deref_val(st, v)
    if v[0] != "adt" or v[1] != "core::option::Option":
        return NotImplemented
    try:
        f = args[1]
        fv = ex.load(st, f[1]) if f[0] == "ref" else (f[1] if f[0] == "&" else f)
        if fv[0] != "closure":
            return NotImplemented
    except Exception:
        return NotImplemented

    def gen():
        if v[2] == "None":
            yield st, "ret", v
            return
        for s2, r in _call_closure_paths(ex, st, args[1], [("&", v[3][0])]):
            for s3, b in _fork_bool(ex, s2, r):
                yield s3, "ret", (v if b else ("adt", "core::option::Option", "None", ()))
    return gen()


def m_option_unwrap_or_else(ex, st, call, args):
    try:
        f = args[1]
        fv = ex.load(st, f[1]) if f[0] == "ref" else (f[1] if f[0] == "&" else f)
        if fv[0] != "closure":
            return NotImplemented
    except Exception:
        return NotImplemented

    def gen():
        for s, is_some, payload in _opt_cases(ex, st, args[0]):
            if is_some:
                yield s, "ret", payload
            else:
                for s2, v in _call_closure_paths(ex, s, args[1], []):
                    yield s2, "ret", v
    return gen()


def m_option_map_or(ex, st, call, args):
    try:
        f = args[2]
        fv = ex.load(st, f[1]) if f[0] == "ref" else (f[1] if f[0] == "&" else f)
        if fv[0] != "closure":
            return NotImplemented
    except Exception:
        return NotImplemented

    def gen():
        for s, is_some, payload in _opt_cases(ex, st, args[0]):
            if not is_some:
                yield s, "ret", args[1]
            else:
                for s2, v in _call_closure_paths(ex, s, args[2], [payload]):
                    yield s2, "ret", v
    return gen()


def m_option_is_and(default):
    """Option::is_some_and (default False) / is_none_or (default True)"""
    def model(ex, st, call, args):
        try:
            f = args[1]
            fv = ex.load(st, f[1]) if f[0] == "ref" else (f[1] if f[0] == "&" else f)
            if fv[0] != "closure":
                return NotImplemented
        except Exception:
            return NotImplemented

        def gen():
            for s, is_some, payload in _opt_cases(ex, st, args[0]):
                if not is_some:
                    yield s, "ret", ("const", default)
                else:
                    for s2, v in _call_closure_paths(ex, s, args[1], [payload]):
                        yield s2, "ret", v
        return gen()
    return model


def logging_off(ex):
    """Explore only the paths on which the `log` macros are disabled: `Level::X <= STATIC_MAX_LEVEL / max_level()` is false.  The macros
    only format and emit a record, so the data computed on the other paths is the same."""
    base = ex.models.get("core::cmp::PartialOrd::le")

    def le(ex_, st, call, args):
        a = ex_.canon(st, ex_.deref_val(st, args[0])) if args else None
        if a is not None and a[0] == "adt" and a[1] == "log::Level":
            return _ret(st, ("const", False))
        return base(ex_, st, call, args) if base else NotImplemented
    ex.models["core::cmp::PartialOrd::le"] = le


def m_option_eq(ex, st, call, args):
    """<Option<T> as PartialEq>::eq on two options whose variants are known: None == None; Some(x) == Some(x) for one and the same ground term
    (opt-in: fold_ground_eq / assume_reflexive); a Some never equals a None"""
    def val(a):
        v = ex.canon(st, ex.deref_val(st, a))
        return v if v[0] == "adt" and v[1] == "core::option::Option" else None
    a, b = val(args[0]), val(args[1])
    if a is None or b is None:
        return NotImplemented
    if a[2] != b[2]:
        return _ret(st, ("const", False))
    if a[2] == "None":
        return _ret(st, ("const", True))
    strip = lambda x: x[1] if x[0] == "&" else x
    if (ex.fold_ground_eq or ex.assume_reflexive) and strip(a[3][0]) == strip(b[3][0]):
        return _ret(st, ("const", True))
    if ex.distinct_opaques and strip(a[3][0])[0] == "opaque" and strip(b[3][0])[0] == "opaque":
        return _ret(st, ("const", False))

    def ground(t, d=0):
        if not isinstance(t, tuple) or d > 20:
            return not isinstance(t, tuple)
        if t and t[0] == "const":
            return not isinstance(t[1], float) or t[1] == t[1]
        if t and t[0] in ("adt", "array", "tuple", "&"):
            return all(ground(x, d + 1) for x in t[1:])
        return all(isinstance(x, str) or ground(x, d + 1) for x in t) if t and not isinstance(t[0], str) else False
    if ex.fold_ground_eq and ground(strip(a[3][0])) and ground(strip(b[3][0])):
        return _ret(st, ("const", False))       # two different ground values
    return NotImplemented


def m_result_is(ok):
    def model(ex, st, call, args):
        v = ex.canon(st, ex.deref_val(st, args[0]))
        if v[0] == "adt" and v[1] == "core::result::Result":
            return _ret(st, ("const", (v[2] == "Ok") == ok))
        return NotImplemented
    return model


def m_partition_point(ex, st, call, args):
    """<[T]>::partition_point(s, pred) on a slice of concrete length whose elements are partitioned by pred (the documented precondition): the
    index of the first element for which pred is false - one path per index, with pred decided true before it and false at it"""
    if not ex.concrete_iters:
        return NotImplemented
    xs = _concrete_items(ex, st, args[0])
    if xs is None or len(xs) > 8:
        return NotImplemented
    try:
        f = args[1]
        fv = ex.load(st, f[1]) if f[0] == "ref" else (f[1] if f[0] == "&" else f)
        if fv[0] != "closure":
            return NotImplemented
    except Exception:
        return NotImplemented

    def gen(s, i):
        if i == len(xs):
            yield s, "ret", ("const", i)
            return
        for s2, v in _call_closure_paths(ex, s, args[1], [("&", xs[i])]):
            for s3, b in _fork_bool(ex, s2, v):
                if b:
                    yield from gen(s3, i + 1)
                else:
                    yield s3, "ret", ("const", i)
    return gen(st, 0)


def m_option_cloned(ex, st, call, args):
    """Option<&T>::cloned / copied when the variant is known"""
    v = ex.canon(st, args[0])
    if v[0] != "adt" or v[1] != "core::option::Option":
        return NotImplemented
    if v[2] == "None":
        return _ret(st, v)
    x = v[3][0]
    while x[0] == "&":
        x = x[1]
    return _ret(st, ("adt", "core::option::Option", "Some", (x,)))


def m_bool_then(ex, st, call, args):
    """bool::then(c, f) = if c { Some(f()) } else { None }"""
    try:
        f = args[1]
        fv = ex.load(st, f[1]) if f[0] == "ref" else (f[1] if f[0] == "&" else f)
        if fv[0] != "closure":
            return NotImplemented
    except Exception:
        return NotImplemented

    def gen():
        for s, b in _fork_bool(ex, st, args[0]):
            if not b:
                yield s, "ret", ("adt", "core::option::Option", "None", ())
            else:
                for s2, v in _call_closure_paths(ex, s, args[1], []):
                    yield s2, "ret", ("adt", "core::option::Option", "Some", (v,))
    return gen()


def m_option_or(ex, st, call, args):
    def gen():
        for s, is_some, payload in _opt_cases(ex, st, args[0]):
            if is_some:
                yield s, "ret", ("adt", "core::option::Option", "Some", (payload,))
            else:
                yield s, "ret", args[1]
    return gen()


def m_option_is(some):
    def model(ex, st, call, args):
        def gen():
            for s, is_some, payload in _opt_cases(ex, st, args[0]):
                yield s, "ret", ("const", is_some == some)
        return gen()
    return model


def m_option_unwrap(ex, st, call, args):
    def gen():
        for s, is_some, payload in _opt_cases(ex, st, args[0]):
            if is_some:
                yield s, "ret", payload
            else:
                yield s, "panic", ("unwrap on None",)
    return gen()


def m_option_unwrap_or(ex, st, call, args):
    def gen():
        for s, is_some, payload in _opt_cases(ex, st, args[0]):
            yield s, "ret", payload if is_some else args[1]
    return gen()


def m_option_as_ref(ex, st, call, args):
    """Option::as_ref / as_mut on an option whose variant is known: None, or Some(reference to the payload in place)"""
    a = args[0]
    if a[0] == "ref":
        cur = ex.load(st, a[1])
        if cur[0] == "adt" and cur[1] == "core::option::Option":
            if cur[2] == "None":
                return _ret(st, ("adt", "core::option::Option", "None", ()))
            root, path = a[1]
            return _ret(st, ("adt", "core::option::Option", "Some", (("ref", (root, tuple(path) + (("downcast", 1, "Some"), ("field", 0, None))), a[2]),)))
    elif a[0] == "&" and a[1][0] == "adt" and a[1][1] == "core::option::Option" and call.method == "as_ref":
        if a[1][2] == "None":
            return _ret(st, ("adt", "core::option::Option", "None", ()))
        return _ret(st, ("adt", "core::option::Option", "Some", (("&", a[1][3][0]),)))
    return NotImplemented


ORD = "core::cmp::Ordering"


def _ord_cases(ex, st, v):
    """yield (state, variant name, value) for an Ordering value, forking when symbolic"""
    if v[0] in ("ref", "&"):
        v = ex.deref_val(st, v)
    if v[0] == "adt" and v[1] == ORD:
        yield st, v[2], v
        return
    cv = ex.canon(st, v)
    d = ("discr", cv, ORD)
    known = st.pc.get(d)
    for name, val in CORE_ENUMS[ORD]:
        if known is not None and known != val:
            continue
        s2 = st if known is not None else st.clone()
        if known is None:
            s2.assume(d, val)
        yield s2, name, ("adt", ORD, name, ())


def m_ord_then_with(ex, st, call, args):
    def gen():
        for s, name, val in _ord_cases(ex, st, args[0]):
            if name != "Equal":
                yield s, "ret", val
            else:
                for s2, v in _call_closure_paths(ex, s, args[1], []):
                    yield s2, "ret", v
    return gen()


def m_ord_then(ex, st, call, args):
    def gen():
        for s, name, val in _ord_cases(ex, st, args[0]):
            yield s, "ret", (val if name != "Equal" else args[1])
    return gen()


def m_ord_reverse(ex, st, call, args):
    def gen():
        for s, name, val in _ord_cases(ex, st, args[0]):
            yield s, "ret", ("adt", ORD, {"Less": "Greater", "Greater": "Less", "Equal": "Equal"}[name], ())
    return gen()


DEFAULT_MODELS = {
    "core::mem::swap": m_swap,
    "core::mem::replace": m_replace,
    "core::cmp::PartialOrd::lt": m_cmp("lt"),
    "core::cmp::PartialOrd::le": m_cmp("le"),
    "core::cmp::PartialOrd::gt": m_cmp("lt", flip=True),
    "core::cmp::PartialOrd::ge": m_cmp("le", flip=True),
    "core::cmp::PartialEq::eq": m_cmp("eq"),
    "core::cmp::PartialEq::ne": m_cmp("eq", neg=True),
    "core::clone::Clone::clone": m_clone,
    "core::convert::From::from": m_from,
    "core::convert::Into::into": m_into,
    "core::ops::try_trait::Try::branch": m_try_branch,
    "core::ops::try_trait::FromResidual::from_residual": m_from_residual,
    "core::ops::index::Index::index": m_index,
    "core::ops::index::IndexMut::index_mut": m_index,
    "core::ops::deref::Deref::deref": m_deref,
    "core::ops::deref::DerefMut::deref_mut": m_deref,
    "alloc::vec::Vec::<T, A>::len": m_len,
    "alloc::vec::Vec::<T, A>::is_empty": m_is_empty,
    "alloc::vec::Vec::<T>::new": m_vec_new,
    "alloc::vec::Vec::<T>::with_capacity": m_vec_new,
    "alloc::vec::Vec::<T, A>::push": m_vec_push,
    "alloc::vec::Vec::<T, A>::as_slice": m_identity,
    "alloc::vec::Vec::<T, A>::as_mut_slice": m_identity,
    "alloc::vec::Vec::<T, A>::remove": m_vec_remove,
    "alloc::vec::Vec::<T, A>::insert": m_vec_insert,
    "core::slice::<impl [T]>::swap": m_slice_swap,
    "core::ops::arith::AddAssign::add_assign": m_assign_op("add"),
    "core::ops::arith::SubAssign::sub_assign": m_assign_op("sub"),
    "core::ops::arith::MulAssign::mul_assign": m_assign_op("mul"),
    "core::ops::arith::DivAssign::div_assign": m_assign_op("div"),
    "core::num::<impl usize>::saturating_sub": m_int_const("saturating_sub"),
    "core::num::<impl usize>::saturating_add": m_int_const("saturating_add"),
    "core::num::<impl usize>::abs_diff": m_int_const("abs_diff"),
    "core::slice::<impl [T]>::iter_mut": m_iter_mut,
    "core::iter::traits::collect::IntoIterator::into_iter": m_into_iter_live,
    "core::slice::<impl [T]>::is_empty": m_is_empty,
    "core::slice::<impl [T]>::get_unchecked": m_get_unchecked,
    "core::slice::<impl [T]>::split_last": m_split("last"),
    "core::slice::<impl [T]>::split_first": m_split("first"),
    "core::slice::<impl [T]>::first": m_first_last("first"),
    "core::slice::<impl [T]>::last": m_first_last("last"),
    "core::slice::<impl [T]>::len": m_len,
    "core::borrow::Borrow::borrow": m_identity,
    "core::cmp::Ordering::then_with": m_ord_then_with,
    "core::cmp::Ordering::then": m_ord_then,
    "core::cmp::Ordering::reverse": m_ord_reverse,
    "core::option::Option::<T>::map": m_option_map,
    "core::option::Option::<T>::filter": m_option_filter,
    "core::option::Option::<T>::as_ref": m_option_as_ref,
    "core::option::Option::<T>::as_mut": m_option_as_ref,
    "core::option::Option::<T>::is_some": m_option_is(True),
    "core::option::Option::<T>::is_none": m_option_is(False),
    "core::option::Option::<T>::unwrap": m_option_unwrap,
    "core::option::Option::<T>::expect": m_option_unwrap,
    "core::option::Option::<T>::unwrap_or": m_option_unwrap_or,
    "core::option::Option::<T>::or": m_option_or,
    "core::option::Option::<T>::map_or": m_option_map_or,
    "core::bool::<impl bool>::then": m_bool_then,
    "core::option::Option::<&T>::cloned": m_option_cloned,
    "core::option::Option::<&T>::copied": m_option_cloned,
    "core::option::Option::<&mut T>::cloned": m_option_cloned,
    "core::option::Option::<&mut T>::copied": m_option_cloned,
    "core::slice::<impl [T]>::partition_point": m_partition_point,
    "<core::option::Option<T> as core::cmp::PartialEq>::eq": m_option_eq,
    "core::result::Result::<T, E>::is_ok": m_result_is(True),
    "core::result::Result::<T, E>::is_err": m_result_is(False),
    "core::option::Option::<T>::is_some_and": m_option_is_and(False),
    "core::option::Option::<T>::is_none_or": m_option_is_and(True),
    "core::option::Option::<T>::unwrap_or_else": m_option_unwrap_or_else,
    "core::array::<impl [T; N]>::map": m_array_map,
    "alloc::slice::<impl [T]>::sort": m_sort,
    "core::slice::<impl [T]>::sort_unstable": m_sort,
    "alloc::boxed::Box::<T>::new_uninit": m_box_new_uninit,
    "alloc::boxed::box_assume_init_into_vec_unsafe": m_vec_macro,
}


# ---------------------------------------------------------------------- pretty printing
def show(t, depth=0):
    if not isinstance(t, tuple) or not t:
        return repr(t)
    k = t[0]
    if k == "arg":
        return "a%d" % t[1]
    if k == "const":
        return str(t[1])
    if k == "field":
        return "%s.%s" % (show(t[1]), t[2])
    if k == "deref":
        return "*%s" % show(t[1])
    if k == "&":
        return "&%s" % show(t[1])
    if k == "as":
        return "(%s as %s)" % (show(t[1]), t[2])
    if k == "cmp":
        return "(%s %s %s)" % (show(t[2]), {"lt": "<", "le": "<=", "eq": "=="}[t[1]], show(t[3]))
    if k == "un":
        return "%s(%s)" % (t[1], show(t[2]))
    if k == "bin":
        return "(%s %s %s)" % (show(t[2]), t[1], show(t[3]))
    if k == "adt":
        from .facts import short
        return "%s::%s(%s)" % (short(t[1]), t[2], ", ".join(show(x) for x in t[3]))
    if k == "tuple":
        return "(%s)" % ", ".join(show(x) for x in t[1])
    if k == "array":
        return "[%s]" % ", ".join(show(x) for x in t[1])
    if k == "call":
        from .facts import short
        return "%s(%s)%s" % (short(t[1]), ", ".join(show(x) for x in t[2]), "#%d" % t[3] if len(t) > 3 else "")
    if k == "discr":
        return "discr(%s)" % show(t[1])
    if k == "closure":
        return "closure(%s)[%s]" % (t[1].rsplit("::", 2)[-2] + "::" + t[1].rsplit("::", 1)[-1] if "::" in t[1] else t[1], ", ".join(show(x) for x in t[2]))
    if k == "havoc":
        return "havoc(%s, %s)" % (t[1], show(t[2]))
    if k == "upd":
        return "upd(%s, %s, %s)" % (show(t[1]), t[2], show(t[3]))
    if k == "index":
        return "%s[%s]" % (show(t[1]), show(t[2]))
    if k == "len":
        return "len(%s)" % show(t[1])
    return "%s(%s)" % (k, ", ".join(show(x) if isinstance(x, tuple) else str(x) for x in t[1:]))


def show_pc(pcl):
    out = []
    for t, v in pcl:
        out.append("%s=%s" % (show(t), v))
    return " ∧ ".join(out)


def bare(t):
    """Like show(), but calls are rendered by their last path segment only and borrows / derefs are dropped:
    `add(bound(0), signed_area(bound(1)))` — convenient for matching small algebraic shapes."""
    if not isinstance(t, tuple) or not t:
        return repr(t)
    k = t[0]
    if k in ("&", "deref"):
        return bare(t[1])
    if k == "arg":
        return "a%d" % t[1]
    if k == "bound":
        return "bound(%d)" % t[1]
    if k == "const":
        return str(t[1])
    if k == "field":
        return "%s.%s" % (bare(t[1]), t[2])
    if k == "as":
        return "(%s as %s)" % (bare(t[1]), t[2])
    if k == "index":
        return "%s[%s]" % (bare(t[1]), bare(t[2]))
    if k == "len":
        return "len(%s)" % bare(t[1])
    if k == "cmp":
        return "(%s %s %s)" % (bare(t[2]), {"lt": "<", "le": "<=", "eq": "=="}[t[1]], bare(t[3]))
    if k == "un":
        return "%s(%s)" % (t[1], bare(t[2]))
    if k == "bin":
        return "(%s %s %s)" % (bare(t[2]), t[1], bare(t[3]))
    if k == "adt":
        return "%s::%s(%s)" % (t[1].rsplit("::", 1)[-1], t[2], ", ".join(bare(x) for x in t[3]))
    if k in ("tuple", "array"):
        return ("(%s)" if k == "tuple" else "[%s]") % ", ".join(bare(x) for x in t[1])
    if k == "call":
        return "%s(%s)" % (t[1].rsplit("::", 1)[-1], ", ".join(bare(x) for x in t[2]))
    if k == "closure":
        return "closure[%s]" % ", ".join(bare(x) for x in t[2])
    if k == "discr":
        return "discr(%s)" % bare(t[1])
    if k == "havoc":
        return "havoc(%s)" % bare(t[2])
    return "%s(%s)" % (k, ", ".join(bare(x) if isinstance(x, tuple) else str(x) for x in t[1:]))
