"""Fact model: indexed view of the JSON the geofacts driver writes, plus CFG helpers (E1)."""
import re
from . import extract

_short_re = re.compile(r"(?:[A-Za-z_][A-Za-z0-9_]*::)+(?=[A-Za-z_{])")


def short(ty):
    """Strip module paths: geo_types::geometry::polygon::Polygon<T> -> Polygon<T>."""
    return _short_re.sub("", ty)


def place_str(p):
    s = "_%d" % p["l"]
    for e in p["p"]:
        k = e[0]
        if k == "deref":
            s = "(*%s)" % s
        elif k == "field":
            s = "%s.%s" % (s, e[2] if e[2] is not None else e[1])
        elif k == "downcast":
            s = "(%s as %s)" % (s, e[2])
        elif k == "index":
            s = "%s[_%d]" % (s, e[1])
        elif k == "cindex":
            s = "%s[%s%d]" % (s, "-" if e[3] else "", e[1])
        else:
            s = "%s.<%s>" % (s, k)
    return s


def op_place(op):
    """The place an operand reads (copy/move), or None for constants."""
    if "copy" in op:
        return op["copy"]
    if "move" in op:
        return op["move"]
    return None


def op_const(op):
    return op.get("const")


class Call:
    __slots__ = ("fn", "bb", "raw", "callee", "resolved", "path", "args", "dest", "target", "line", "exp",
                 "trait", "method", "self_ty", "gargs", "crate", "unwind", "indirect")

    def __init__(self, fn, bb, t):
        self.fn = fn
        self.bb = bb
        self.raw = t
        f = t["func"]
        self.args = t["args"]
        self.dest = t["dest"]
        self.target = t["t"]
        self.unwind = t.get("unwind")
        self.line = t.get("line")
        self.exp = t.get("exp", False)
        self.indirect = "fn" not in f
        if "fn" in f:
            c = f["fn"]
            self.callee = c["path"]
            r = c.get("resolved")
            self.resolved = r["path"] if r else None
            self.path = self.resolved or self.callee
            self.trait = c.get("trait")
            self.method = c.get("method")
            self.self_ty = c.get("self_ty")
            self.gargs = (r or c)["args"]
            self.crate = (r or c)["crate"]
        else:
            self.callee = self.resolved = None
            self.path = "<indirect>"
            self.trait = self.method = self.self_ty = None
            self.gargs = []
            self.crate = None

    def __repr__(self):
        return "Call(%s@bb%d:%s)" % (self.path, self.bb, self.line)


class Fn:
    def __init__(self, d, crate):
        self.d = d
        self.crate = crate
        self.path = d["path"]
        self.key = d["key"]
        self.kind = d["kind"]
        self.span = d["span"]
        self.file = d["span"]["file"]
        self.line = d["span"]["line"]
        self.impl_of = d.get("impl_of")
        self.module = d.get("module")
        self.vis = d.get("vis")
        self.name = d.get("name")
        self.blocks = d["blocks"]
        self.locals = d["locals"]
        self.arg_count = d["arg_count"]
        self.parent = d.get("parent")
        self.sig = d.get("sig")
        self._calls = None
        self._succ = None
        self._pred = None

    @property
    def rel_file(self):
        f = self.file
        return f[len(extract.REPO) + 1:] if f.startswith(extract.REPO + "/") else f

    def loc(self):
        return "%s:%d" % (self.rel_file, self.line)

    def term(self, bb):
        return self.blocks[bb]["t"]

    def stmts(self, bb):
        return self.blocks[bb]["s"]

    def calls(self):
        if self._calls is None:
            cs = []
            for i, b in enumerate(self.blocks):
                if b["cleanup"]:
                    continue
                t = b["t"]
                if t["k"] == "call":
                    cs.append(Call(self, i, t))
            self._calls = cs
        return self._calls

    def call_at(self, bb):
        t = self.blocks[bb]["t"]
        return Call(self, bb, t) if t["k"] == "call" else None

    def succ(self, bb):
        """Normal-flow successors (unwind edges excluded)."""
        if self._succ is None:
            self._succ = [self._succ_of(i) for i in range(len(self.blocks))]
        return self._succ[bb]

    def _succ_of(self, i):
        t = self.blocks[i]["t"]
        k = t["k"]
        if k == "goto":
            return [t["t"]]
        if k == "switch":
            out = []
            for _, b in t["targets"]:
                if b not in out:
                    out.append(b)
            if t["otherwise"] not in out:
                out.append(t["otherwise"])
            return out
        if k in ("call",):
            return [t["t"]] if t["t"] is not None else []
        if k in ("drop", "assert"):
            return [t["t"]]
        return []

    def pred(self, bb):
        if self._pred is None:
            pr = [[] for _ in self.blocks]
            for i in range(len(self.blocks)):
                if self.blocks[i]["cleanup"]:
                    continue
                for s in self.succ(i):
                    pr[s].append(i)
            self._pred = pr
        return self._pred[bb]

    def normal_blocks(self):
        return [i for i, b in enumerate(self.blocks) if not b["cleanup"]]

    def return_blocks(self):
        return [i for i in self.normal_blocks() if self.blocks[i]["t"]["k"] == "return"]

    def reachable(self, start=0, avoid=()):
        """Blocks reachable from `start` along normal edges without entering a block in `avoid`."""
        seen = set()
        st = [start]
        avoid = set(avoid)
        while st:
            b = st.pop()
            if b in seen or b in avoid:
                continue
            seen.add(b)
            st.extend(self.succ(b))
        return seen

    def dominators(self):
        """Immediate-dominator-free classic iterative dominator sets over normal edges from bb0."""
        reach = self.reachable(0)
        order = sorted(reach)
        dom = {b: set(order) for b in order}
        dom[0] = {0}
        changed = True
        while changed:
            changed = False
            for b in order:
                if b == 0:
                    continue
                ps = [p for p in self.pred(b) if p in reach]
                if not ps:
                    continue
                new = set.intersection(*(dom[p] for p in ps)) | {b}
                if new != dom[b]:
                    dom[b] = new
                    changed = True
        return dom

    def find_path(self, start, goals, avoid=()):
        """A shortest normal-flow path from start to any block in goals avoiding `avoid`; None if none."""
        from collections import deque
        goals = set(goals)
        avoid = set(avoid)
        if start in avoid:
            return None
        prev = {start: None}
        dq = deque([start])
        while dq:
            b = dq.popleft()
            if b in goals:
                path = []
                while b is not None:
                    path.append(b)
                    b = prev[b]
                return path[::-1]
            for s in self.succ(b):
                if s not in prev and s not in avoid:
                    prev[s] = b
                    dq.append(s)
        return None

    def all_assigns(self):
        for i in self.normal_blocks():
            for st in self.blocks[i]["s"]:
                if st[0] == "assign":
                    yield i, st[1], st[2], st[3]


class Facts:
    """All analysed crates of one configuration."""

    def __init__(self, config="default"):
        self.config = config
        self.dir = extract.ensure(config)
        self.crates = {}
        self.fns = {}        # path -> Fn   (paths are unique per crate; closures included)
        self.by_key = {}
        self.adts = {}
        self.impls = []
        self.traits = {}
        for name in ("geo_types", "geo", "geo_verif_roots"):
            d = extract.load_json(self.dir, name + ".facts.json")
            self.crates[name] = d
            for f in d["fns"]:
                fn = Fn(f, name)
                # def_path_str can collide for closures in macro-generated siblings; keep first, index all by key
                self.fns.setdefault(fn.path, fn)
                self.by_key[fn.key] = fn
            for a in d["adts"]:
                self.adts[a["path"]] = a
            for im in d["impls"]:
                im["crate"] = name
                self.impls.append(im)
            for t in d["traits"]:
                self.traits[t["path"]] = t
        self._mono = None

    # -------- lookup
    def lib_fns(self, crates=("geo", "geo_types")):
        return [f for f in self.by_key.values() if f.crate in crates]

    def fn(self, path):
        f = self.fns.get(path)
        if f is None:
            raise KeyError("anchor function not found: %s" % path)
        return f

    def find(self, regex, crates=("geo", "geo_types")):
        r = re.compile(regex)
        return [f for f in self.by_key.values() if f.crate in crates and r.search(f.path)]

    def one(self, regex, crates=("geo", "geo_types")):
        fs = self.find(regex, crates)
        if len(fs) != 1:
            raise KeyError("expected exactly one function matching %r, found %d: %s" % (regex, len(fs), [f.path for f in fs][:5]))
        return fs[0]

    def closures_of(self, fn):
        """Closure bodies (transitively) defined inside fn."""
        out = []
        st = [fn.key]
        while st:
            k = st.pop()
            for f in self.by_key.values():
                if f.parent == k and f.kind == "Closure":
                    out.append(f)
                    st.append(f.key)
        return out

    def impls_of(self, trait_path):
        return [im for im in self.impls if im.get("trait") == trait_path]

    def impl_method(self, trait, self_re, arg_re, name, crates=("geo", "geo_types")):
        """The method `name` of the unique impl of `trait` whose Self type matches self_re and whose first trait
        argument (after Self) matches arg_re (None = no constraint)."""
        out = []
        for im in self.impls:
            if im.get("trait") != trait or im["crate"] not in crates:
                continue
            if not re.search(self_re, im["self_ty"]):
                continue
            if arg_re is not None:
                ta = im.get("trait_args", [])
                if len(ta) < 2 or not re.search(arg_re, ta[1]):
                    continue
            f = self.impl_fn(im, name)
            if f is not None:
                out.append(f)
        if len(out) != 1:
            raise KeyError("expected exactly one impl %s<%s> for %s with method %s, found %d" % (trait, arg_re, self_re, name, len(out)))
        return out[0]

    def impl_methods(self, trait, self_re, arg_re, name, crates=("geo", "geo_types")):
        out = []
        for im in self.impls:
            if im.get("trait") != trait or im["crate"] not in crates:
                continue
            if self_re is not None and not re.search(self_re, im["self_ty"]):
                continue
            if arg_re is not None:
                ta = im.get("trait_args", [])
                if len(ta) < 2 or not re.search(arg_re, ta[1]):
                    continue
            f = self.impl_fn(im, name)
            if f is not None:
                out.append(f)
        return out

    def impl_fn(self, im, name):
        for it in im["items"]:
            if it["name"] == name:
                return self.by_key.get(it["key"])
        return None

    def features(self, crate):
        return self.crates[crate]["features"]

    @property
    def mono(self):
        if self._mono is None:
            self._mono = Mono(extract.load_json(self.dir, "geo_verif_roots.mono.json"), self)
        return self._mono


class Mono:
    """Resolved instance call graph from the generated roots."""

    def __init__(self, d, facts):
        self.facts = facts
        self.instances = d["instances"]
        self.roots = {name: i for name, i in d["roots"]}
        self.out = {}
        for e in d["edges"]:
            self.out.setdefault(e[0], []).append((e[1], e[2], e[3]))
        self.unresolved = d["unresolved"]

    def inst(self, i):
        return self.instances[i]

    def callee_at(self, i, bb):
        """Resolved callee instance id of the call terminating block bb of instance i."""
        for b, m, kind in self.out.get(i, []):
            if b == bb and kind == "call":
                return m
        return None

    def edges(self, i):
        return self.out.get(i, [])

    def reach(self, root, pred=None):
        seen = set()
        st = [root]
        while st:
            i = st.pop()
            if i in seen:
                continue
            seen.add(i)
            for _, m, _ in self.out.get(i, []):
                if pred is None or pred(self.instances[m]):
                    st.append(m)
        return seen

    def label(self, i):
        x = self.instances[i]
        return "%s [%s]" % (short(x["path"]), ", ".join(short(a) for a in x["args"]))
