"""E3 — dispatch and sibling classification.

For a binary trait (Intersects, Contains, Distance) and every concrete type pair (A, B) the roots crate resolves
the impl rustc selects; each impl body is then summarised by abstract path enumeration in which calls to the
trait's own method stay uninterpreted.  The summary is classified *semantically* (from the result terms, not the
source text) into
   flip          T(b, a)
   delegate      T(conv(a), conv(b))        conv in {id, to_polygon, .0, Point<->Coord, Line->LineString, ...}
   match         per-variant delegation on the Geometry enum
   fold          any / all / min / ... over the members of one operand (optionally behind a bbox rejection)
   relate        predicate of relate(a, b)
   kernel        everything else
"""
import re
from .facts import short
from .symex import Symex, Unanalysable, show, show_pc
from .roots_gen import TYPES


class Lam:
    """Closure value -> body paths with bound variables."""

    def __init__(self, ex, closure, nargs, bound_base=0):
        self.ex = ex
        self.closure = closure
        self.key = closure[1]
        cf = ex.facts.by_key.get(self.key)
        self.fn = cf
        self.paths = None
        self.err = None
        if cf is None:
            self.err = "closure body not found"
            return
        n = cf.arg_count - 1
        args = [("bound", bound_base + i) for i in range(n)]
        env_ty = cf.locals[1] if len(cf.locals) > 1 else ""
        env = ("&", closure) if env_ty.startswith("&") else closure
        try:
            sub = Symex(ex.facts, max_depth=ex.max_depth, loop_bound=ex.loop_bound, mono=ex.mono)
            sub.models = ex.models
            sub.no_inline = ex.no_inline
            sub.root_inst = ex.root_inst
            sub._cl_cache = ex._cl_cache
            self.paths = [p for p in sub.run(cf, [env] + args, inst=ex.closure_inst(self.key)) if p.kind == "ret"]
        except Unanalysable as e:
            self.err = str(e)


def is_same_trait_call(t, trait_method):
    return isinstance(t, tuple) and t and t[0] == "call" and t[1] == trait_method


def strip_refs(t):
    while isinstance(t, tuple) and t and t[0] in ("&", "deref"):
        t = t[1]
    return t


def operand_desc(t):
    """Describe an operand term relative to the entry arguments: ('arg', i, conv-chain) or None."""
    conv = []
    cur = t
    for _ in range(12):
        cur = strip_refs(cur)
        if not isinstance(cur, tuple):
            return None
        if cur[0] == "arg":
            return ("arg", cur[1], tuple(reversed(conv)))
        if cur[0] == "bound":
            return ("bound", cur[1], tuple(reversed(conv)))
        if cur[0] == "field":
            conv.append("." + str(cur[2]))
            cur = cur[1]
            continue
        if cur[0] == "as":
            conv.append("as " + cur[2])
            cur = cur[1]
            continue
        if cur[0] == "index":
            conv.append("[]")
            cur = cur[1]
            continue
        if cur[0] == "call" and len(cur[2]) == 1:
            conv.append(cur[1].rsplit("::", 1)[-1] + "()")
            cur = cur[2][0]
            continue
        if cur[0] == "adt" and len(cur[3]) == 1:
            conv.append(short(cur[1]) + "{}")
            cur = cur[3][0]
            continue
        if cur[0] == "havoc":
            cur = cur[2]
            continue
        return None
    return None


def find_calls(t, path, out, depth=0):
    if isinstance(t, tuple) and t:
        if t[0] == "call" and t[1] == path:
            out.append(t)
        if depth < 30:
            for x in (t[1:] if isinstance(t[0], str) else t):
                if isinstance(x, tuple):
                    find_calls(x, path, out, depth + 1)
    return out


def find_closures(t, out, depth=0):
    if isinstance(t, tuple) and t:
        if t[0] == "closure":
            out.append(t)
        if depth < 30:
            for x in (t[1:] if isinstance(t[0], str) else t):
                if isinstance(x, tuple):
                    find_closures(x, out, depth + 1)
    return out


class ImplSummary:
    def __init__(self, cls, detail, fn, paths=None):
        self.cls = cls
        self.detail = detail
        self.fn = fn
        self.paths = paths

    def __repr__(self):
        return "%s %s" % (self.cls, self.detail)


class Dispatch:
    """Classifier for one binary trait method."""

    def __init__(self, F, trait, method, root_prefix, extra_no_inline=()):
        self.F = F
        self.M = F.mono
        self.trait = trait
        self.method = method
        self.tm = "%s::%s" % (trait, method)
        self.root_prefix = root_prefix
        self.no_inline = [r"::%s$" % method] + list(extra_no_inline)
        self._summ = {}

    def impl_instance(self, a, b):
        """-> (instance id, Fn) of the impl selected for (A, B), or (None, None) when the pair is not implemented."""
        r = self.M.roots.get("%s__%s__%s" % (self.root_prefix, a, b))
        if r is None:
            return None, None
        calls = [m for bb, m, k in self.M.edges(r) if k == "call"]
        if not calls:
            return None, None
        probe = calls[0]
        if re.search(r" as (geo_verif_roots::)?No[A-Z]>", self.M.inst(probe)["path"]):
            return None, None
        for bb, m, k in self.M.edges(probe):
            if k == "call":
                x = self.M.inst(m)
                fn = self.F.by_key.get(x["key"])
                return m, fn
        return None, None

    def same_trait_model(self):
        tm = self.tm

        def model(ex, st, call, args):
            from .symex import _ret
            vals = tuple(ex.canon(st, a) for a in args)
            return _ret(st, ("call", tm, vals))
        return model

    def summarise(self, inst, fn):
        key = (fn.key, tuple(self.M.inst(inst)["args"]))
        if key in self._summ:
            return self._summ[key]
        ex = Symex(self.F, mono=self.M, max_depth=6, loop_bound=1)
        # calls to the trait's own method stay uninterpreted
        ex.models = dict(ex.models)
        ex.models[self.tm] = self.same_trait_model()
        ex.no_inline = [re.compile(x) for x in self.no_inline]
        try:
            paths = ex.run(fn, inst=inst)
        except Unanalysable as e:
            s = ImplSummary("kernel", "unanalysable: %s" % e, fn)
            self._summ[key] = s
            return s
        s = self.classify(ex, fn, paths)
        self._summ[key] = s
        return s

    # ------------------------------------------------------------------
    def classify(self, ex, fn, paths):
        rets = [p for p in paths if p.kind == "ret"]
        tm = self.tm
        if not rets:
            return ImplSummary("kernel", "no returning path", fn, paths)
        # --- single path: flip / delegate / relate / fold
        if len(rets) == 1:
            r = rets[0].ret
            c = self.call_class(ex, r)
            if c:
                return ImplSummary(c[0], c[1], fn, rets)
        # --- match on the enum discriminant of one operand: every path returns T(payload, other)
        disc_paths = []
        ok = True
        for p in rets:
            ds = [(t, v) for t, v in p.pc if t[0] == "discr" and strip_refs(t[1])[0] == "arg"]
            others = [(t, v) for t, v in p.pc if not (t[0] == "discr" and strip_refs(t[1])[0] == "arg")]
            c = self.call_class(ex, p.ret)
            if len(ds) != 1 or others or not c or c[0] not in ("delegate", "flip"):
                ok = False
                break
            disc_paths.append((ds[0], c))
        if ok and disc_paths and len(rets) >= 2:
            which = {strip_refs(d[0][1])[1] for d, c in disc_paths}
            if len(which) == 1:
                return ImplSummary("match", {"on_arg": which.pop(), "arms": len(disc_paths), "arm_classes": sorted({c[0] for d, c in disc_paths})}, fn, rets)
        # --- guarded fold: paths [guard=1 -> const] + [guard=0 -> fold]
        consts = [p for p in rets if p.ret[0] == "const"]
        nonconst = [p for p in rets if p.ret[0] != "const"]
        if nonconst and len({p.ret for p in nonconst}) == 1 and all(p.ret[1] is False for p in consts):
            c = self.call_class(ex, nonconst[0].ret)
            if c and c[0] in ("fold", "delegate", "flip", "relate"):
                guards = []
                for p in consts:
                    guards.append((show_pc(p.pc)[:200], p.ret[1], p.pc))
                d = dict(c[1]) if isinstance(c[1], dict) else {"inner": c[1]}
                d["guards"] = guards
                d["main_pcs"] = [p.pc for p in nonconst]
                return ImplSummary("guarded-" + c[0], d, fn, rets)
        return ImplSummary("kernel", {"paths": len(rets)}, fn, rets)

    def call_class(self, ex, r):
        """Classify a result term that is a single call expression."""
        tm = self.tm
        r0 = r
        neg = False
        while isinstance(r, tuple) and r[0] == "un" and r[1] == "Not":
            r = r[2]
            neg = not neg
        if not isinstance(r, tuple) or r[0] != "call":
            return None
        if r[1] == tm and not neg:
            a, b = operand_desc(r[2][0]), operand_desc(r[2][1]) if len(r[2]) > 1 else None
            extra = r[2][2:] if len(r[2]) > 2 else ()
            # Distance: (metric, a, b)
            if len(r[2]) == 3:
                a, b = operand_desc(r[2][1]), operand_desc(r[2][2])
            if a and b and a[0] == "arg" and b[0] == "arg":
                base = 1 if len(r[2]) == 3 else 0
                ia, ib = a[1] - base, b[1] - base
                if (ia, ib) == (2, 1) and not a[2] and not b[2]:
                    return ("flip", {})
                if (ia, ib) == (1, 2):
                    return ("delegate", {"conv_a": a[2], "conv_b": b[2], "swapped": False})
                if (ia, ib) == (2, 1):
                    return ("delegate", {"conv_a": a[2], "conv_b": b[2], "swapped": True})
            return None
        # relate-based: is_xxx(relate(a, b))
        m = re.search(r"IntersectionMatrix::(is_\w+)$", r[1])
        if m:
            inner = strip_refs(r[2][0]) if r[2] else None
            if inner and inner[0] == "call" and inner[1].endswith("Relate::relate"):
                a, b = operand_desc(inner[2][0]), operand_desc(inner[2][1])
                if a and b:
                    return ("relate", {"pred": m.group(1), "order": (a[1], b[1]), "neg": neg, "conv": (a[2], b[2])})
            return None
        # folds over an iterator
        m = re.match(r"Iterator::(any|all|sum|min_by|max_by|fold|min|max|count|find|position)$", r[1])
        if m:
            kind = m.group(1)
            it = r[2][0]
            cl = r[2][-1] if len(r[2]) > 1 and isinstance(r[2][-1], tuple) and r[2][-1][0] == "closure" else None
            src = self.iter_source(it)
            body = None
            if cl is not None:
                lam = Lam(ex, cl, 1)
                if lam.paths is not None:
                    body = self.lam_body_class(ex, lam)
            return ("fold", {"kind": kind, "neg": neg, "source": src, "body": body})
        return None

    def iter_source(self, it):
        """Which operand's members does the iterator run over? -> ('arg', i, desc) / None"""
        chain = []
        cur = it
        for _ in range(12):
            cur = strip_refs(cur)
            if not isinstance(cur, tuple):
                return None
            if cur[0] == "call":
                name = cur[1].rsplit("::", 1)[-1]
                chain.append(name)
                if not cur[2]:
                    return None
                cur = cur[2][0]
                continue
            d = operand_desc(cur)
            if d:
                return {"of": d, "via": list(reversed(chain))}
            return None
        return None

    def lam_body_class(self, ex, lam):
        """Classify the member predicate of a fold: T(member, other) / T(other, member) ..."""
        outs = []
        for p in lam.paths:
            r = p.ret
            neg = False
            while isinstance(r, tuple) and r[0] == "un" and r[1] == "Not":
                r = r[2]
                neg = not neg
            if isinstance(r, tuple) and r[0] == "call" and r[1] == self.tm:
                ops = r[2][-2:]
                descs = []
                for o in ops:
                    d = operand_desc(o)
                    if d is None:
                        # captured variable: (&closure).field
                        d = self.capture_desc(o, lam)
                    descs.append(d)
                outs.append({"call": "T", "neg": neg, "operands": descs, "pc": show_pc(p.pc)[:100]})
            else:
                outs.append({"call": None, "term": show(r)[:160], "pc": show_pc(p.pc)[:100]})
        return outs

    def capture_desc(self, o, lam):
        o = strip_refs(o)
        return ("other", show(o)[:80])
