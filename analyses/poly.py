"""E5 — polynomial / rational-function terms (exact rationals, opaque leaves), with a canonical normal form.

A polynomial is a dict {monomial: Fraction}, a monomial a sorted tuple of (symbol, power).  Rational functions are
pairs (num, den).  Symbolic terms produced by analyses/symex.py are translated by `from_term`: the arithmetic trait
calls of a generic scalar (Add/Sub/Mul/Div/Neg), MIR binary ops, zero()/one() and numeric literals are interpreted;
everything else is an opaque leaf symbol (transcendental calls, fields of the arguments).
"""
from fractions import Fraction


def P(c=0):
    return {(): Fraction(c)} if c else {}


def sym(name):
    return {((name, 1),): Fraction(1)}


def padd(a, b, sign=1):
    r = dict(a)
    for m, c in b.items():
        v = r.get(m, 0) + sign * c
        if v:
            r[m] = v
        else:
            r.pop(m, None)
    return r


def mmul(m1, m2):
    d = dict(m1)
    for s, p in m2:
        d[s] = d.get(s, 0) + p
    return tuple(sorted(d.items()))


def pmul(a, b):
    r = {}
    for m1, c1 in a.items():
        for m2, c2 in b.items():
            m = mmul(m1, m2)
            v = r.get(m, 0) + c1 * c2
            if v:
                r[m] = v
            else:
                r.pop(m, None)
    return r


def pneg(a):
    return {m: -c for m, c in a.items()}


def is_zero(a):
    return not a


def subst(a, env):
    """substitute polynomials for symbols"""
    r = {}
    for m, c in a.items():
        term = P(1)
        term = {(): c}
        for s, p in m:
            base = env.get(s, sym(s))
            for _ in range(p):
                term = pmul(term, base)
        r = padd(r, term)
    return r


def show_poly(a):
    if not a:
        return "0"
    out = []
    for m, c in sorted(a.items(), key=lambda x: str(x[0])):
        mono = "*".join(s if p == 1 else "%s^%d" % (s, p) for s, p in m)
        cs = str(c) if c.denominator != 1 or not mono or abs(c) != 1 else ("-" if c < 0 else "")
        out.append((cs + ("*" if cs not in ("", "-") and mono else "") + mono) or "1")
    return " + ".join(out).replace("+ -", "- ")


# rational functions ---------------------------------------------------------------------------
class R:
    __slots__ = ("n", "d")

    def __init__(self, n, d=None):
        self.n = n
        self.d = d if d is not None else P(1)

    def __add__(self, o):
        return R(padd(pmul(self.n, o.d), pmul(o.n, self.d)), pmul(self.d, o.d))

    def __sub__(self, o):
        return R(padd(pmul(self.n, o.d), pmul(o.n, self.d), -1), pmul(self.d, o.d))

    def __mul__(self, o):
        return R(pmul(self.n, o.n), pmul(self.d, o.d))

    def __truediv__(self, o):
        return R(pmul(self.n, o.d), pmul(self.d, o.n))

    def __neg__(self):
        return R(pneg(self.n), self.d)

    def equals(self, o):
        return is_zero(padd(pmul(self.n, o.d), pmul(o.n, self.d), -1))

    def is_const(self, c):
        return self.equals(R(P(c)))


ARITH = {"add": "+", "sub": "-", "mul": "*", "div": "/"}


def from_term(t, leaf):
    """symbolic term -> R; `leaf(term)` names opaque sub-terms (must return a str)"""
    if not isinstance(t, tuple):
        raise ValueError("not a term: %r" % (t,))
    k = t[0]
    if k in ("&", "deref"):
        return from_term(t[1], leaf)
    if k == "const":
        if isinstance(t[1], bool):
            raise ValueError("bool")
        return R(P(Fraction(t[1]).limit_denominator(10**12) if isinstance(t[1], float) else t[1]))
    if k == "bin":
        a, b = from_term(t[2], leaf), from_term(t[3], leaf)
        op = t[1]
        if op == "Add":
            return a + b
        if op == "Sub":
            return a - b
        if op == "Mul":
            return a * b
        if op == "Div":
            return a / b
        return R(sym(leaf(t)))
    if k == "un" and t[1] == "Neg":
        return -from_term(t[2], leaf)
    if k == "call":
        path = t[1]
        name = path.rsplit("::", 1)[-1]
        if path.startswith("core::ops::arith::") and name in ARITH and len(t[2]) == 2:
            a, b = from_term(t[2][0], leaf), from_term(t[2][1], leaf)
            return {"add": a + b, "sub": a - b, "mul": a * b, "div": a / b}[name]
        if path.startswith("core::ops::arith::Neg") and name == "neg":
            return -from_term(t[2][0], leaf)
        if name == "zero" and not t[2]:
            return R(P(0))
        if name == "one" and not t[2]:
            return R(P(1))
        if name in ("from", "into", "clone", "unwrap") and len(t[2]) == 1:
            return from_term(t[2][0], leaf)
        return R(sym(leaf(t)))
    if k == "field" and isinstance(t[1], tuple) and t[1][0] == "as" and str(t[2]) == "0":
        # payload of Some(x) from a conversion: treat `Some(x).0` as x when the option is a conversion result
        inner = t[1][1]
        if isinstance(inner, tuple) and inner[0] == "call" and inner[1].rsplit("::", 1)[-1] in ("from", "to_f64", "cast"):
            return from_term(inner[2][0], leaf)
    if k == "field":
        base = t[1]
        for _ in range(6):
            if isinstance(base, tuple) and base[0] in ("&", "deref"):
                base = base[1]
            elif isinstance(base, tuple) and base[0] == "call" and base[1].rsplit("::", 1)[-1] in ("into", "from", "clone") and len(base[2]) == 1:
                base = base[2][0]
            else:
                break
        if isinstance(base, tuple) and base[0] == "adt" and base[1].endswith("::Coord") and len(base[3]) == 2 and str(t[2]) in ("x", "y"):
            return from_term(base[3][0 if str(t[2]) == "x" else 1], leaf)
        if base is not t[1]:
            return R(sym(leaf(("field", base, t[2]))))
    return R(sym(leaf(t)))
