"""Generates the roots crate: one `root_*` function per (trait, type pair) the rules need resolved,
plus the positive controls (deliberately violating instances each rule must fire on)."""

def generate():
    return "pub fn root_dummy() {}\n"
