"""Generates the roots crate: one `root_*` function per (trait, type pair) the rules need resolved,
plus the positive controls (deliberately violating instances each rule must fire on)."""

CONTROLS = r'''
/// Positive controls: every item below deliberately violates one rule; the rule must report it on every run.
#[allow(dead_code, unused)]
pub mod controls {
    use geo_types::{Coord, LineString};

    pub struct CPoly {
        exterior: LineString<f64>,
        interiors: Vec<LineString<f64>>,
    }
    impl CPoly {
        // R18.2 control: the Err exit of `?` skips the closing step
        pub fn try_exterior_mut<F, E>(&mut self, f: F) -> Result<(), E>
        where
            F: FnOnce(&mut LineString<f64>) -> Result<(), E>,
        {
            f(&mut self.exterior)?;
            self.exterior.close();
            Ok(())
        }
        // R18.2 control: closes the wrong element
        pub fn interiors_push(&mut self, new_interior: LineString<f64>) {
            self.interiors.push(new_interior);
            if let Some(r) = self.interiors.first_mut() {
                r.close();
            }
        }
    }

    // R20.2 control (hash-order): HashMap iteration collected into a Vec
    pub fn hash_order_leak(m: std::collections::HashMap<usize, usize>) -> Vec<usize> {
        m.into_iter().map(|(k, _)| k).collect()
    }
    // R20.2 control (ptr-order): ordering decided by an allocation address
    pub fn addr_order(a: &std::rc::Rc<u8>, b: &std::rc::Rc<u8>) -> std::cmp::Ordering {
        let x = std::rc::Rc::as_ptr(a) as usize;
        let y = std::rc::Rc::as_ptr(b) as usize;
        x.cmp(&y)
    }
    // R20.3 control: clock
    pub fn clock() -> u64 {
        std::time::Instant::now().elapsed().as_secs()
    }

    // R3.3 control: a predicate decided by a rounded cross product
    pub fn rounded_decision(a: Coord<f64>, b: Coord<f64>, c: Coord<f64>) -> bool {
        let cross = (b.x - a.x) * (c.y - a.y) - (b.y - a.y) * (c.x - a.x);
        cross > 0.0
    }

    // R3.5 control: predicate evaluated with the plain-formula kernel whatever the scalar type
    pub fn wrong_kernel<T: geo::GeoFloat>(a: Coord<T>, b: Coord<T>, c: Coord<T>) -> bool {
        use geo::kernels::{Kernel, Orientation, SimpleKernel};
        <SimpleKernel as Kernel<T>>::orient2d(a, b, c) == Orientation::Collinear
    }

    pub struct CRect {
        min: Coord<f64>,
        max: Coord<f64>,
    }
    impl CRect {
        // R18.4 control: one arm swapped
        pub fn new(c1: Coord<f64>, c2: Coord<f64>) -> Self {
            let (min_x, max_x) = if c1.x < c2.x { (c2.x, c1.x) } else { (c2.x, c1.x) };
            let (min_y, max_y) = if c1.y < c2.y { (c1.y, c2.y) } else { (c2.y, c1.y) };
            CRect { min: Coord { x: min_x, y: min_y }, max: Coord { x: max_x, y: max_y } }
        }
    }
}
'''


TYPES = ["Coord", "Point", "Line", "LineString", "Polygon", "MultiPoint", "MultiLineString", "MultiPolygon",
         "Rect", "Triangle", "Geometry", "GeometryCollection"]

PROBES = r"""
// Autoref specialisation: `(&Probe(a, b)).go()` resolves to the `Yes` impl when the pair implements the trait and to the
// `No` impl otherwise, so every root compiles and the instance graph shows which pairs exist and what they resolve to.
pub struct PI<'a, A, B>(pub &'a A, pub &'a B);
pub trait YesI { fn go(&self) -> bool; }
impl<'a, A: geo::Intersects<B>, B> YesI for PI<'a, A, B> { fn go(&self) -> bool { self.0.intersects(self.1) } }
pub trait NoI { fn go(&self) -> bool; }
impl<'a, A, B> NoI for &PI<'a, A, B> { fn go(&self) -> bool { no_impl() } }

pub struct PC<'a, A, B>(pub &'a A, pub &'a B);
pub trait YesC { fn go(&self) -> bool; }
impl<'a, A: geo::Contains<B>, B> YesC for PC<'a, A, B> { fn go(&self) -> bool { self.0.contains(self.1) } }
pub trait NoC { fn go(&self) -> bool; }
impl<'a, A, B> NoC for &PC<'a, A, B> { fn go(&self) -> bool { no_impl() } }

pub struct PD<'a, A, B>(pub &'a A, pub &'a B);
pub trait YesD { fn go(&self) -> f64; }
impl<'a, A, B> YesD for PD<'a, A, B> where geo::Euclidean: geo::Distance<f64, &'a A, &'a B> {
    fn go(&self) -> f64 { <geo::Euclidean as geo::Distance<f64, &'a A, &'a B>>::distance(&geo::Euclidean, self.0, self.1) }
}
pub trait NoD { fn go(&self) -> f64; }
impl<'a, A, B> NoD for &PD<'a, A, B> { fn go(&self) -> f64 { no_impl(); 0.0 } }

#[inline(never)]
pub fn no_impl() -> bool { false }
"""


def generate():
    out = ["#![allow(dead_code, unused)]", "use geo_types::*;", PROBES]
    for a in TYPES:
        for b in TYPES:
            out.append("pub fn root_intersects__%s__%s(a: &%s<f64>, b: &%s<f64>) -> bool { (&PI(a, b)).go() }" % (a, b, a, b))
            out.append("pub fn root_contains__%s__%s(a: &%s<f64>, b: &%s<f64>) -> bool { (&PC(a, b)).go() }" % (a, b, a, b))
            out.append("pub fn root_distance__%s__%s(a: &%s<f64>, b: &%s<f64>) -> f64 { (&PD(a, b)).go() }" % (a, b, a, b))
    for a in TYPES:
        out.append("pub fn root_relate__%s(a: &%s<f64>, b: &%s<f64>) -> geo::relate::IntersectionMatrix { geo::Relate::relate(a, b) }" % (a, a, a) if a != "Coord" else "")
    return "\n".join(out) + "\n" + CONTROLS
