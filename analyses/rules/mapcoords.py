"""MapCoords / MapCoordsInPlace on concrete shapes with abstract coordinates and an abstract coordinate function f.

Every geometry type's map_coords, try_map_coords, map_coords_in_place and try_map_coords_in_place is run on shapes of concrete size
(empty parts, closed rings, nested collections; members resolved by their concrete type) and the result - the value returned, or the
geometry left behind the `&mut self` - is compared with the shape in which every coordinate c has been replaced by f(c): every coordinate
is mapped, exactly once, in place, nothing is dropped, added or copied from a neighbour.  For the try_ variants this is the all-Ok run; on
a run where f fails the error returned is that failure.  AffineOps, Translate, Rotate, Scale and Skew are defined through these methods
(C13 R13.6/R13.7), so a coordinate that is skipped here is a coordinate the transform is not applied to.
"""
import re
from ..symex import Symex, Unanalysable, show, show_pc
from .. import citer

GT = "geo_types::geometry::"
MC = "geo::algorithm::map_coords::MapCoords"
MI = "geo::algorithm::map_coords::MapCoordsInPlace"


def vec(items):
    return ("call", "vec!", (("array", tuple(items)),))


def C(n):
    return ("opaque", n)


def ls(names):
    return ("adt", GT + "line_string::LineString", "LineString", (vec([C(n) for n in names]),))


def poly(e, hs):
    return ("adt", GT + "polygon::Polygon", "Polygon", (ls(e), vec([ls(h) for h in hs])))


def pt(n):
    return ("adt", GT + "point::Point", "Point", (C(n),))


def geom(variant, inner):
    return ("adt", GT + "Geometry", variant, (inner,))


def _single_opaque(t):
    found = []

    def walk(x, d=0):
        if isinstance(x, tuple) and d < 30:
            if x and x[0] == "opaque" and isinstance(x[1], str):
                found.append(x[1])
                return
            for y in x:
                walk(y, d + 1)
    walk(t)
    return found[0] if len(set(found)) == 1 else None


def norm(t, mapped=False, d=0):
    """token string of a geometry value: adt skeleton + leaves (`n` an input coordinate, `f(n)` the function applied to it)"""
    if not isinstance(t, tuple) or not t or d > 60:
        return "?"
    k = t[0]
    if k in ("&", "deref"):
        return norm(t[1], mapped, d + 1)
    if k == "opaque":
        return "f(%s)" % t[1] if mapped else str(t[1])
    if k == "const":
        return str(t[1])
    if k == "adt":
        if t[2] == "Rect" and len(t[3]) == 2:
            # Rect::new re-sorts the two corners per axis: compared per axis as a set
            def comp(c, i, ax):
                c0 = c
                while isinstance(c0, tuple) and c0 and c0[0] in ("&", "deref"):
                    c0 = c0[1]
                if c0[0] == "adt" and c0[2] == "Coord" and len(c0[3]) == 2:
                    return norm(c0[3][i], mapped, d + 1)
                return "%s.%s" % (norm(c0, mapped, d + 1), ax)
            return "Rect{x:%s;y:%s}" % (",".join(sorted(comp(c, 0, "x") for c in t[3])), ",".join(sorted(comp(c, 1, "y") for c in t[3])))
        if t[2] in ("Point", "Coord") and len(t[3]) == 1:
            return norm(t[3][0], mapped, d + 1)
        if t[2] == "Triangle":
            # Triangle::new may reorder the vertices to its winding convention: compared as a set
            return "Triangle{%s}" % ",".join(sorted(norm(x, mapped, d + 1) for x in t[3]))
        return "%s(%s)" % (t[2], ",".join(norm(x, mapped, d + 1) for x in t[3]))
    if k == "array":
        return "[%s]" % ",".join(norm(x, mapped, d + 1) for x in t[1])
    if k == "tuple":
        return "(%s)" % ",".join(norm(x, mapped, d + 1) for x in t[1])
    if k == "field" and isinstance(t[1], tuple) and t[1] and t[1][0] == "as" and t[1][2] == "Ok" and str(t[2]) == "0":
        return norm(t[1][1], mapped, d + 1)
    if k == "as":
        return norm(t[1], mapped, d + 1)
    if k == "field" and str(t[2]) in ("x", "y"):
        return "%s.%s" % (norm(t[1], mapped, d + 1), t[2])
    if k == "field" and str(t[2]) == "0":
        # .0 of a Point / newtype wrapper built around a mapped coordinate
        return norm(t[1], mapped, d + 1)
    if k == "call":
        name = t[1].rsplit("::", 1)[-1]
        if t[1] == "vec!":
            return norm(t[2][0], mapped, d + 1)
        if name in ("call", "call_mut", "call_once") and len(t[2]) == 2:
            n = _single_opaque(t[2][1])
            return "f(%s)" % n if n else "f(?)"
        if name in ("into", "from", "clone") and len(t[2]) == 1:
            return norm(t[2][0], mapped, d + 1)
    return "?<%s>" % show(t)[:60]


def shapes():
    G = lambda v, x: geom(v, x)
    mp = ("adt", GT + "multi_point::MultiPoint", "MultiPoint", (vec([pt("p"), pt("q")]),))
    mls = ("adt", GT + "multi_line_string::MultiLineString", "MultiLineString", (vec([ls(["a", "b"]), ls([]), ls(["c"])]),))
    mpoly = ("adt", GT + "multi_polygon::MultiPolygon", "MultiPolygon", (vec([poly(["a", "b", "c", "a"], [["h", "i", "j", "h"]]), poly(["d", "e", "g", "d"], [])]),))
    line = ("adt", GT + "line::Line", "Line", (C("s"), C("e")))
    rect = ("adt", GT + "rect::Rect", "Rect", (C("lo"), C("hi")))
    tri = ("adt", GT + "triangle::Triangle", "Triangle", (C("a"), C("b"), C("c")))
    out = [
        ("Point", r"point::Point<T>$", pt("p")),
        ("Line", r"line::Line<T>$", line),
        ("Triangle", r"triangle::Triangle<T>$", tri),
        ("Rect", r"rect::Rect<T>$", rect),
        ("LineString/0", r"line_string::LineString<T>$", ls([])),
        ("LineString/1", r"line_string::LineString<T>$", ls(["a"])),
        ("LineString/2", r"line_string::LineString<T>$", ls(["a", "b"])),
        ("LineString/3", r"line_string::LineString<T>$", ls(["a", "b", "c"])),
        ("LineString/closed", r"line_string::LineString<T>$", ls(["a", "b", "c", "a"])),
        ("Polygon", r"polygon::Polygon<T>$", poly(["a", "b", "c", "a"], [["h", "i", "j", "h"], ["k", "l", "m", "k"]])),
        ("Polygon/empty", r"polygon::Polygon<T>$", poly([], [])),
        ("MultiPoint", r"multi_point::MultiPoint<T>$", mp),
        ("MultiLineString", r"multi_line_string::MultiLineString<T>$", mls),
        ("MultiPolygon", r"multi_polygon::MultiPolygon<T>$", mpoly),
        ("GeometryCollection", r"geometry_collection::GeometryCollection<T>$",
         ("adt", GT + "geometry_collection::GeometryCollection", "GeometryCollection", (vec([G("Point", pt("p")), G("LineString", ls(["a", "b"])), G("Line", line)]),))),
    ]
    for v, inner in (("Point", pt("p")), ("Line", line), ("LineString", ls(["a", "b", "c"])), ("Polygon", poly(["a", "b", "c", "a"], [])), ("MultiPoint", mp),
                     ("MultiLineString", mls), ("MultiPolygon", mpoly), ("Triangle", tri), ("Rect", rect)):
        out.append(("Geometry::" + v, r"geo_types::geometry::Geometry<T>$", G(v, inner)))
    return out


def run(rep, F, rule):
    rep.rule(rule, "map_coords / try_map_coords / map_coords_in_place / try_map_coords_in_place on concrete shapes with abstract coordinates and an abstract function f: the result is the shape with "
                   "every coordinate c replaced by f(c) (each mapped exactly once, in place); a failing f is returned as the error")
    n_ok = 0
    for key, pat, shape in shapes():
        want = norm(shape, mapped=True)
        for trait, meth in ((MC, "map_coords"), (MC, "try_map_coords"), (MI, "map_coords_in_place"), (MI, "try_map_coords_in_place")):
            k = "mapcoords:%s:%s" % (key, meth)
            try:
                fn = F.impl_method(trait, pat, None, meth, crates=("geo",))
            except KeyError as e:
                rep.bad(rule, k + ":anchor", str(e))
                continue
            ex = Symex(F, concrete_iters=True, loop_bound=16, inline_crates=("geo", "geo_types"), max_depth=16, max_paths=20000, budget_s=60)
            ex.live_iter_mut = True
            ex.resolve_by_receiver = True
            ex.fold_ground_eq = True
            ex.assume_reflexive = True        # f(a) == f(a) for one and the same term (rings are closed by repeating the first NAME)
            try:
                if trait == MC:
                    paths = ex.run(fn, args=[("&", shape), ("arg", 2)])
                else:
                    paths = ex.run(fn, args=[("arg", 1), ("arg", 2)], mem={("arg", 1): shape})
            except (Unanalysable, citer.NotConcrete) as e:
                rep.bad(rule, k + ":unanalysable", str(e), where=fn.loc())
                continue
            paths = [p for p in paths if p.kind != "cut"]
            is_try = meth.startswith("try_")
            def f_failed(p):
                return any(v != 0 for t, v in p.pc if t[0] == "discr" and isinstance(t[1], tuple) and t[1] and t[1][0] == "call" and t[1][1].rsplit("::", 1)[-1] in ("call", "call_mut", "call_once"))
            good = [p for p in paths if p.kind == "ret" and not f_failed(p)]
            tri = "Triangle" in key or "Rect" in key
            problem = None
            if any(p.kind == "panic" for p in paths):
                problem = "a path panics [%s]" % show_pc([p for p in paths if p.kind == "panic"][0].pc)[:160]
            elif (len(good) != 1 and not tri) or not good or (not is_try and len(paths) != len(good)):
                problem = "%d paths, %d of them complete (one expected): the result depends on more than the shape [%s]" % (len(paths), len(good), "; ".join(show_pc(p.pc)[:100] for p in paths[:3]))
            for p in ([] if problem else good):
                if trait == MC:
                    got = norm(p.ret)
                    if is_try:
                        got = got[3:-1] if got.startswith("Ok(") else "not-Ok:" + got
                else:
                    fin = p.st.mem.get(("S", ("arg", 1)))
                    got = norm(ex.canon(p.st, fin)) if fin is not None else "?"
                    if is_try and not norm(p.ret).startswith("Ok("):
                        got = "not-Ok:" + norm(p.ret)
                if got != want:
                    problem = "the result is %s, expected %s" % (got[:300], want[:300])
                    break
            if not problem and is_try:
                    # a failing f: the error returned is a failure of f
                    for q in paths:
                        if q in good or q.kind != "ret":
                            continue
                        r = norm(q.ret)
                        if not (r.startswith("Err(") and "f(" in r):
                            problem = "on a run where f fails [%s] the value returned is %s" % (show_pc(q.pc)[:120], r[:100])
                            break
                        # f is not called again after it failed: the failing call is the last call of f decided on the path
                        fcalls = [(t, v) for t, v in q.pc if t[0] == "discr" and isinstance(t[1], tuple) and t[1] and t[1][0] == "call"
                                  and t[1][1].rsplit("::", 1)[-1] in ("call", "call_mut", "call_once")]
                        if fcalls and (fcalls[-1][1] == 0 or any(v != 0 for _t, v in fcalls[:-1])):
                            problem = "after f failed on one coordinate it is still applied to another one [%s]: a later success can hide the error" % show_pc(q.pc)[:160]
                            break
            if problem:
                rep.bad(rule, k, "%s::%s on %s: %s" % (key, meth, norm(shape)[:120], problem), where=fn.loc())
            else:
                n_ok += 1
                rep.ok(rule, k)
    rep.floor(rule, "map_coords tables", n_ok, 96)
