"""C05 — planar area and ring orientation (structural clauses).

 R5.1 fold kinds: collections sum their members (unsigned: absolute values), 0/1-dimensional types are the constant zero,
      unsigned_area = |signed_area| for Polygon / Triangle
 R5.2 Polygon::signed_area = sign(exterior) * (|A_ext| - sum |A_hole|)
 R5.3 twice_signed_ring_area: both end points of every segment shifted by the same loop-invariant ring coordinate before
      Line::determinant (= x1*y2 - y1*x2); short / unclosed rings give 0
 R5.4 Rect area = width*height, Triangle = half the sum of its edge determinants
 R5.5 winding_order decided by the kernel orientation at the least vertex with the table CCW -> CounterClockwise,
      CW -> Clockwise, Collinear -> None; orient() puts exterior CCW / holes CW (or the reverse) through Polygon::new
Not decided: rounding bounds, conditioning quality, the least-vertex theorem itself.
"""
import re
from ..facts import Facts, short
from ..symex import Symex, Unanalysable, show, show_pc, bare
from ..dispatch import Lam, find_closures
from ..poly import from_term, R, P, sym, show_poly

LEVEL = "other"
GT = "geo_types::geometry::"
AREA = "geo::algorithm::area::Area"


def run(rep, tier):
    rep.explanation = ("Terms of the area functions (folds, sign handling, the conditioned shoelace step, determinant) and the decision table of "
                       "winding_order / orient are extracted from MIR and compared with the algebraic definition. Numerical accuracy is not decided.")
    rep.trusted = ["rustc MIR", "iterator fold semantics", "the lexicographically least vertex is a convex vertex of a simple ring (theorem, assumed)"]
    rep.assumptions = ["simple closed rings for winding_order"]
    F = Facts("default")
    ex = Symex(F, no_inline=[r"Area<T>>::", r"::signed_area$", r"::unsigned_area$", r"area::get_linestring_area$", r"Polygon::<T>::exterior$", r"Polygon::<T>::interiors$",
                             r"Line::<T>::determinant$", r"::to_lines$", r"Rect::<T>::width$", r"Rect::<T>::height$"], inline_crates=("geo", "geo_types"))
    folds(rep, F, ex)
    polygon_area(rep, F, ex)
    ring_area(rep, F)
    simple_areas(rep, F, ex)
    winding(rep, F)


def single(ex, fn):
    ps = [p for p in ex.run(fn) if p.kind == "ret"]
    return ps


def lam_body(ex, t):
    cls = find_closures(t, [])
    if not cls:
        return None
    lam = Lam(ex, cls[-1], 2)
    if not lam.paths or len(lam.paths) != 1:
        return None
    return bare(lam.paths[0].ret)


def folds(rep, F, ex):
    rep.rule("R5.1", "zero-/one-dimensional types have zero area; MultiPolygon and GeometryCollection sum member areas (unsigned: absolute values); unsigned = |signed| for Polygon and Triangle")
    for ty in ("point::Point", "line::Line", "line_string::LineString", "multi_point::MultiPoint", "multi_line_string::MultiLineString"):
        for meth in ("signed_area", "unsigned_area"):
            try:
                fn = F.impl_method(AREA, r"^%s%s<T>$" % (GT, ty), None, meth, crates=("geo",))
                ps = single(ex, fn)
                if len(ps) == 1 and show(ps[0].ret) == "zero()":
                    rep.ok("R5.1", "zero:%s::%s" % (ty.split("::")[-1], meth))
                else:
                    rep.bad("R5.1", "zero:%s::%s" % (ty.split("::")[-1], meth), "area of a %s is %s, not the constant zero" % (ty.split("::")[-1], [show(p.ret)[:60] for p in ps]), where=fn.loc())
            except (KeyError, Unanalysable) as e:
                rep.bad("R5.1", "zero:%s:anchor" % ty, str(e))
    for ty, members in (("multi_polygon::MultiPolygon", "a1.0"), ("geometry_collection::GeometryCollection", "a1.0")):
        for meth, want in (("signed_area", [r"^add\(bound\(0\), signed_area\(bound\(1\)\)\)$", r"^add\(bound\(0\), bound\(1\)\)$"]),
                           ("unsigned_area", [r"^add\(bound\(0\), abs\(signed_area\(bound\(1\)\)\)\)$", r"^add\(bound\(0\), unsigned_area\(bound\(1\)\)\)$", r"^add\(bound\(0\), bound\(1\)\)$"])):
            name = ty.split("::")[-1]
            try:
                fn = F.impl_method(AREA, r"^%s%s<T>$" % (GT, ty), None, meth, crates=("geo",))
                ps = single(ex, fn)
                r = bare(ps[0].ret) if len(ps) == 1 else ""
                body = lam_body(ex, ps[0].ret) if ps else None
                ok = r.startswith("fold(") and "zero()" in r and members in r and body is not None and any(re.match(w, body) for w in want)
                if ok and "map(" in r:
                    # fold over map(members, |g| g.method()): the mapped method must be the right one
                    cls = find_closures(ps[0].ret, [])
                    inner = Lam(ex, cls[0], 1)
                    mb = bare(inner.paths[0].ret) if inner.paths else ""
                    ok = mb in ("%s(bound(0))" % meth,)
                if ok:
                    rep.ok("R5.1", "sum:%s::%s" % (name, meth), sample=body)
                else:
                    rep.bad("R5.1", "sum:%s::%s" % (name, meth), "%s::%s is not the sum over all members of the member %s (term %s, step %s)" % (name, meth, meth, r[:100], body), where=fn.loc())
            except (KeyError, Unanalysable, IndexError) as e:
                rep.bad("R5.1", "sum:%s:anchor" % name, str(e))
    for ty in ("polygon::Polygon", "triangle::Triangle"):
        try:
            fn = F.impl_method(AREA, r"^%s%s<T>$" % (GT, ty), None, "unsigned_area", crates=("geo",))
            ps = single(ex, fn)
            r = bare(ps[0].ret) if len(ps) == 1 else ""
            if r == "abs(signed_area(a1))":
                rep.ok("R5.1", "abs:%s" % ty.split("::")[-1])
            else:
                rep.bad("R5.1", "abs:%s" % ty.split("::")[-1], "unsigned_area is %s, not |signed_area|" % r[:80], where=fn.loc())
        except (KeyError, Unanalysable, IndexError) as e:
            rep.bad("R5.1", "abs:%s:anchor" % ty, str(e))


def polygon_area(rep, F, ex):
    rep.rule("R5.2", "Polygon::signed_area: sign taken from the exterior ring; holes subtracted by absolute value one by one: ±(|A0| - Σ|Ai|)")
    try:
        fn = F.impl_method(AREA, r"^%spolygon::Polygon<T>$" % GT, None, "signed_area", crates=("geo",))
        ps = single(ex, fn)
    except (KeyError, Unanalysable) as e:
        rep.bad("R5.2", "anchor", str(e))
        return
    ext = "get_linestring_area(exterior(a1))"
    problems = []
    seen = set()
    for p in ps:
        atoms = [(bare(t), v) for t, v in p.pc]
        r = bare(p.ret)
        neg = [v for s, v in atoms if s == "(%s < zero())" % ext]
        if len(atoms) != 1 or not neg:
            problems.append("the sign is not decided by `exterior area < 0` alone (%s)" % atoms[:2])
            continue
        body = lam_body(ex, p.ret)
        core = re.sub(r"^neg\((.*)\)$", r"\1", r) if neg[0] == 1 else r
        is_neg = r.startswith("neg(")
        if is_neg != (neg[0] == 1):
            problems.append("result %s negated when the exterior area is %s" % ("is" if is_neg else "is not", "negative" if neg[0] else "non-negative"))
        if not (core.startswith("fold(") and "interiors(a1)" in core and "abs(%s)" % ext in core):
            problems.append("the hole fold does not start from |exterior area| over all interiors: %s" % core[:120])
        if body != "sub(bound(0), abs(get_linestring_area(bound(1))))":
            problems.append("a hole is not subtracted by its absolute area: step is %s" % body)
        seen.add(neg[0])
    if seen != {0, 1}:
        problems.append("missing sign branch")
    if problems:
        rep.bad("R5.2", "polygon-signed-area", problems[0], where=fn.loc())
    else:
        rep.ok("R5.2", "polygon-signed-area", sample="±(|A_ext| − Σ|A_hole|), sign from A_ext < 0")
    # get_linestring_area = twice / 2
    try:
        g = F.one(r"^geo::algorithm::area::get_linestring_area$", crates=("geo",))
        ex2 = Symex(F, no_inline=[r"twice_signed_ring_area$"], inline_crates=("geo",))
        ps = [p for p in ex2.run(g) if p.kind == "ret"]
        rr = from_term(ps[0].ret, lambda t: "TW" if "twice_signed_ring_area" in show(t) else show(t))
        if len(ps) == 1 and rr.equals(R(sym("TW")) / R(P(2))):
            rep.ok("R5.2", "ring-area=twice/2")
        else:
            rep.bad("R5.2", "ring-area-half", "get_linestring_area is not twice_signed_ring_area / 2", where=g.loc())
    except (KeyError, Unanalysable, ValueError, IndexError) as e:
        rep.bad("R5.2", "ring-area:anchor", str(e))


def ring_area(rep, F):
    rep.rule("R5.3", "twice_signed_ring_area: fewer than 3 coordinates or an unclosed ring give 0; every segment is shifted by one loop-invariant coordinate of the ring (both ends) before Line::determinant; determinant = x1*y2 - y1*x2")
    try:
        fn = F.one(r"^geo::algorithm::area::twice_signed_ring_area$", crates=("geo",))
        ex = Symex(F, no_inline=[r"Line::<T>::determinant$", r"MapCoords.*::map_coords$", r"::map_coords$"], loop_bound=1, inline_crates=("geo", "geo_types"))
        paths = ex.run(fn)
    except (KeyError, Unanalysable) as e:
        rep.bad("R5.3", "anchor", str(e))
        return
    rets = [p for p in paths if p.kind == "ret"]
    guards = {"short": False, "open": False}
    step = None
    for p in rets:
        atoms = [(bare(t), v) for t, v in p.pc]
        r = bare(p.ret)
        if r == "zero()":
            for s, v in atoms:
                if re.search(r"len\(a1\.0\) < 3\)", s) and v == 1:
                    guards["short"] = True
                if re.search(r"first\(.*\).*last\(|unwrap\(first", s) and ("==" in s or "ne(" in s):
                    guards["open"] = True
        nexts = [v for t, v in p.pc if t[0] == "discr" and isinstance(t[1], tuple) and t[1][0] == "call" and t[1][1].endswith("::next")]
        if nexts == [1, 0]:
            step = p
    if not guards["short"]:
        rep.bad("R5.3", "guard-short", "no `len < 3 -> 0` guard", where=fn.loc())
    else:
        rep.ok("R5.3", "guard-short")
    if step is None:
        rep.bad("R5.3", "step", "no single-segment path found", where=fn.loc())
        return
    r = step.ret
    rs = bare(r)
    # add(zero(), determinant(map_coords(segment, closure[shift])))
    m = re.match(r"^add\(zero\(\), determinant\(map_coords\((.*), closure()\[(.*)\]\)\)\)$", rs)
    if not m:
        rep.bad("R5.3", "step-shape", "the per-segment step is %s, expected tmp + determinant(segment shifted)" % rs[:160], where=fn.loc())
        return
    cap = m.group(3)
    if not re.match(r"^a1\.0\[0\]$|^a1\.0\[\d+\]$", cap):
        rep.bad("R5.3", "shift-source", "the conditioning shift is %s, not a loop-invariant coordinate of the ring" % cap[:80], where=fn.loc())
    else:
        cls = find_closures(r, [])
        lam = Lam(ex, cls[-1], 1)
        body = bare(lam.paths[0].ret) if lam.paths else ""
        if re.match(r"^sub\(bound\(0\), a1\.0\[\d+\]\)$", body) or re.match(r"^Coord::Coord\(sub\(bound\(0\)\.x, (a1\.0\[\d+\])\.x\), sub\(bound\(0\)\.y, \1\.y\)\)$", body):
            rep.ok("R5.3", "shift-both-ends", sample={"shift": cap, "map": body})
        else:
            rep.bad("R5.3", "shift-closure", "segment coordinates are mapped by %s, not c - shift" % body[:100], where=fn.loc())
    try:
        d = F.one(r"^geo_types::geometry::line::Line::<T>::determinant$", crates=("geo_types",))
        ps = [p for p in Symex(F, inline_crates=("geo_types",)).run(d) if p.kind == "ret"]
        got = from_term(ps[0].ret, lambda t: show(t).replace("&", "").replace("*", ""))
        want = R(sym("a1.start.x")) * R(sym("a1.end.y")) - R(sym("a1.start.y")) * R(sym("a1.end.x"))
        if got.equals(want):
            rep.ok("R5.3", "determinant")
        else:
            rep.bad("R5.3", "determinant", "Line::determinant is %s" % show_poly(got.n), where=d.loc())
    except (KeyError, Unanalysable, ValueError, IndexError) as e:
        rep.bad("R5.3", "determinant:anchor", str(e))


def simple_areas(rep, F, ex):
    rep.rule("R5.4", "Rect area = width*height (both forms); Triangle signed area = (sum of the determinants of its three edges) / 2")
    try:
        for meth in ("signed_area", "unsigned_area"):
            fn = F.impl_method(AREA, r"^%srect::Rect<T>$" % GT, None, meth, crates=("geo",))
            ps = single(ex, fn)
            r = bare(ps[0].ret)
            if r == "mul(width(a1), height(a1))":
                rep.ok("R5.4", "rect:" + meth)
            else:
                rep.bad("R5.4", "rect:" + meth, "Rect::%s is %s" % (meth, r[:80]), where=fn.loc())
        fn = F.impl_method(AREA, r"^%striangle::Triangle<T>$" % GT, None, "signed_area", crates=("geo",))
        ps = single(ex, fn)
        r = bare(ps[0].ret)
        body = lam_body(ex, ps[0].ret)
        if re.match(r"^div\(fold\(.*to_lines\(a1\).*zero\(\), closure", r) and r.endswith("add(one(), one()))") and body == "add(bound(0), determinant(bound(1)))":
            rep.ok("R5.4", "triangle", sample=body)
        else:
            rep.bad("R5.4", "triangle", "Triangle::signed_area is %s with step %s" % (r[:100], body), where=fn.loc())
    except (KeyError, Unanalysable, IndexError) as e:
        rep.bad("R5.4", "anchor", str(e))


def winding(rep, F):
    rep.rule("R5.5", "winding_order: orientation (by the scalar's own kernel) of (prev, least vertex, next) with CCW -> CounterClockwise, CW -> Clockwise, Collinear -> None")
    try:
        fn = F.impl_method("geo::algorithm::winding_order::Winding", r"^%sline_string::LineString<T>$" % GT, None, "winding_order", crates=("geo",))
        ex = Symex(F, no_inline=[r"utils::least_index$", r"::is_closed$", r"LineString::<T>::is_closed"], loop_bound=1, inline_crates=("geo",), max_paths=20000)
        paths = ex.run(fn)
    except (KeyError, Unanalysable) as e:
        rep.bad("R5.5", "anchor", str(e))
        return
    table = {}
    uses_least = False
    for p in paths:
        if p.kind != "ret":
            continue
        o = [(t, v) for t, v in p.pc if t[0] == "discr" and "orient2d" in show(t)]
        if not o:
            continue
        t, v = o[-1]
        s = show(t)
        if "least_index" in s:
            uses_least = True
        names = [x["name"] for x in F.adts["geo::algorithm::kernels::Orientation"]["variants"]]
        r = show(p.ret)
        table.setdefault(names[v] if isinstance(v, int) and v < len(names) else str(v), set()).add(r)
    want = {"CounterClockwise": {"Option::Some(WindingOrder::CounterClockwise())"}, "Clockwise": {"Option::Some(WindingOrder::Clockwise())"}, "Collinear": {"Option::None()"}}
    if table == want and uses_least:
        rep.ok("R5.5", "winding-table", sample={k: sorted(v) for k, v in table.items()})
    else:
        rep.bad("R5.5", "winding-table", "winding_order maps orientations to %s%s" % ({k: sorted(v) for k, v in table.items()}, "" if uses_least else " and does not take the orientation at least_index()"), where=fn.loc())
    # the orientation must come from the scalar's own kernel (exact for floats): same rule as C03 R3.5, restricted to this function
    preds = fn.d.get("preds", [])
    for g in [fn] + F.closures_of(fn):
        for c in g.calls():
            if c.trait == "geo::algorithm::kernels::Kernel":
                st = c.self_ty or ""
                ok = bool(re.match(r"^<\w+ as geo::GeoNum>::Ker$", st)) or any(re.match(r"^<\w+ as geo::GeoNum>::Ker == %s$" % re.escape(st), p_) for p_ in preds)
                if ok:
                    rep.ok("R5.5", "kernel:%s#bb%d" % (short(g.path)[-40:], c.bb))
                else:
                    rep.bad("R5.5", "kernel-dispatch", "winding_order takes an orientation from `%s` instead of the scalar type's kernel: for floats the winding of a nearly degenerate ring can come out wrong" % short(st), where="%s:%s" % (g.rel_file, c.line))
