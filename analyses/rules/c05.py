"""C05 — planar area and ring orientation (structural clauses).

 R5.1 fold kinds: collections sum their members (unsigned: absolute values), 0/1-dimensional types are the constant zero,
      unsigned_area = |signed_area| for Polygon / Triangle
 R5.2 Polygon::signed_area = sign(exterior) * (|A_ext| - sum |A_hole|)
 R5.3 twice_signed_ring_area: both end points of every segment shifted by the same loop-invariant ring coordinate before
      Line::determinant (= x1*y2 - y1*x2); short / unclosed rings give 0
 R5.4 Rect area = width*height, Triangle = half the sum of its edge determinants
 R5.5 winding_order decided by the kernel orientation at the least vertex with the table CCW -> CounterClockwise,
      CW -> Clockwise, Collinear -> None; orient() puts exterior CCW / holes CW (or the reverse) through Polygon::new
Not decided: rounding bounds, conditioning quality, the least-vertex theorem itself.
"""
import re
from ..facts import Facts, short
from ..symex import Symex, Unanalysable, show, show_pc, bare
from ..dispatch import Lam, find_closures
from ..poly import from_term, R, P, sym, show_poly

LEVEL = "other"
GT = "geo_types::geometry::"
AREA = "geo::algorithm::area::Area"


def run(rep, tier):
    rep.explanation = ("Terms of the area functions (folds, sign handling, the conditioned shoelace step, determinant) and the decision table of "
                       "winding_order / orient are extracted from MIR and compared with the algebraic definition. Numerical accuracy is not decided.")
    rep.trusted = ["rustc MIR", "iterator fold semantics", "the lexicographically least vertex is a convex vertex of a simple ring (theorem, assumed)"]
    rep.assumptions = ["simple closed rings for winding_order"]
    F = Facts("default")
    ex = Symex(F, no_inline=[r"Area<T>>::", r"::signed_area$", r"::unsigned_area$", r"area::get_linestring_area$", r"Polygon::<T>::exterior$", r"Polygon::<T>::interiors$",
                             r"Line::<T>::determinant$", r"::to_lines$", r"Rect::<T>::width$", r"Rect::<T>::height$"], inline_crates=("geo", "geo_types"))
    folds(rep, F, ex)
    polygon_area(rep, F, ex)
    ring_area(rep, F)
    simple_areas(rep, F, ex)
    winding(rep, F)
    winding_table(rep, F)
    least_index_table(rep, F)
    orient_tables(rep, F)
    # "Rect and Triangle areas equal those of their polygon form": the conversions themselves (rules shared with C18)
    from . import c18
    from ..report import Alias
    rep.rule("R5.10", "Rect / Triangle / Line -> Polygon / LineString conversions walk the corners in order (C18 R18.5): the polygon form whose area the property compares with is the right polygon")
    c18.FACTS[0] = F
    c18.conversion_rules(Alias(rep, "R5.10"), F)
    from . import gt_tables
    gt_tables.run(rep, F, "R5.8", select={"Line::determinant", "Rect::width", "Rect::height"})
    # every exact predicate this property rests on is a sign of the orientation kernel (rules shared with C03)
    from . import c03 as _c03
    _c03.kernel_rules(rep, F, "R5.11")
    offset_witnesses(rep, F)


def area_kernels(rep, F):
    """the area rules as one unit (shared with C06, whose weights are areas)"""
    ex = Symex(F, no_inline=[r"Area<T>>::", r"::signed_area$", r"::unsigned_area$", r"area::get_linestring_area$", r"Polygon::<T>::exterior$", r"Polygon::<T>::interiors$",
                             r"Line::<T>::determinant$", r"::to_lines$", r"Rect::<T>::width$", r"Rect::<T>::height$"], inline_crates=("geo", "geo_types"))
    folds(rep, F, ex)
    polygon_area(rep, F, ex)
    ring_area(rep, F)
    simple_areas(rep, F, ex)


def single(ex, fn):
    ps = [p for p in ex.run(fn) if p.kind == "ret"]
    return ps


def lam_body(ex, t):
    cls = find_closures(t, [])
    if not cls:
        return None
    lam = Lam(ex, cls[-1], 2)
    if not lam.paths or len(lam.paths) != 1:
        return None
    return bare(lam.paths[0].ret)


def collection_sums(rep, F):
    """R5.1 sums, decided semantically on collections of 0..3 members (exact unrolling, whatever loop / fold form): with the members' own
    areas as the only unknowns (s_i = member.signed_area(), u_i = member.unsigned_area()) the result must be the polynomial  sum s_i  resp.
    sum u_i.  |s_i| counts as u_i only where the member type is Polygon (MultiPolygon): for the members of a GeometryCollection, which may
    themselves be collections of differently wound parts, |signed| is not the unsigned area."""
    def vec(items):
        return ("call", "vec!", (("array", tuple(items)),))

    for ty, abs_ok in (("multi_polygon::MultiPolygon", True), ("geometry_collection::GeometryCollection", False)):
        name = ty.split("::")[-1]
        for meth in ("signed_area", "unsigned_area"):
            try:
                fn = F.impl_method(AREA, r"^%s%s<T>$" % (GT, ty), None, meth, crates=("geo",))
            except KeyError as e:
                rep.bad("R5.1", "sum:%s:anchor" % name, str(e))
                continue
            bad = None
            for n in range(0, 4):
                members = [("opaque", "m%d" % i) for i in range(n)]
                arg = ("&", ("adt", GT + ty, name, (vec(members),)))
                ex = Symex(F, concrete_iters=True, loop_bound=6, inline_crates=("geo", "geo_types"), no_inline=[r"Area<T>>::", r"::signed_area$", r"::unsigned_area$"])
                try:
                    ps = [p for p in ex.run(fn, args=[arg]) if p.kind != "cut"]
                except Unanalysable as e:
                    bad = "not analysable on a collection of %d members: %s" % (n, e)
                    break
                if len(ps) != 1 or ps[0].kind != "ret" or ps[0].pc:
                    bad = "on a collection of %d members the result depends on %s" % (n, [show_pc(p.pc)[:80] for p in ps][:2])
                    break

                def leaf(t):
                    sh = show(t)
                    if t[0] == "call":
                        m = t[1].rsplit("::", 1)[-1]
                        if m in ("signed_area", "unsigned_area") and len(t[2]) == 1:
                            who = re.sub(r"[&*() ]|opaque", "", show(t[2][0]))
                            for i in range(n):
                                if who == "m%d" % i:
                                    return ("s%d" if m == "signed_area" else "u%d") % i
                        if m == "abs" and len(t[2]) == 1:
                            try:
                                inner = from_term(t[2][0], leaf)
                                for i in range(n):
                                    if inner.equals(R(sym("s%d" % i))):
                                        return "u%d" % i if abs_ok else "|s%d|" % i
                                    if inner.equals(R(sym("u%d" % i))):
                                        return "u%d" % i
                            except ValueError:
                                pass
                    return "?" + sh[:60]
                try:
                    got = from_term(ps[0].ret, leaf)
                except ValueError as e:
                    bad = "result on %d members is not an arithmetic term: %s" % (n, e)
                    break
                want = R(P(0))
                for i in range(n):
                    want = want + R(sym(("s%d" if meth == "signed_area" else "u%d") % i))
                if not got.equals(want):
                    bad = "on a collection of %d members %s() = %s, expected %s (s_i / u_i: the members' signed / unsigned areas)" % (n, meth, show_poly(got.n), show_poly(want.n) or "0")
                    break
            if bad:
                rep.bad("R5.1", "sum:%s::%s" % (name, meth), "%s::%s: %s" % (name, meth, bad), where=fn.loc())
            else:
                rep.ok("R5.1", "sum:%s::%s[0..3 members]" % (name, meth))


def folds(rep, F, ex):
    rep.rule("R5.1", "zero-/one-dimensional types have zero area; MultiPolygon and GeometryCollection sum member areas (unsigned: absolute values); unsigned = |signed| for Polygon and Triangle")
    for ty in ("point::Point", "line::Line", "line_string::LineString", "multi_point::MultiPoint", "multi_line_string::MultiLineString"):
        for meth in ("signed_area", "unsigned_area"):
            try:
                fn = F.impl_method(AREA, r"^%s%s<T>$" % (GT, ty), None, meth, crates=("geo",))
                ps = single(ex, fn)
                if len(ps) == 1 and show(ps[0].ret) == "zero()":
                    rep.ok("R5.1", "zero:%s::%s" % (ty.split("::")[-1], meth))
                else:
                    rep.bad("R5.1", "zero:%s::%s" % (ty.split("::")[-1], meth), "area of a %s is %s, not the constant zero" % (ty.split("::")[-1], [show(p.ret)[:60] for p in ps]), where=fn.loc())
            except (KeyError, Unanalysable) as e:
                rep.bad("R5.1", "zero:%s:anchor" % ty, str(e))
    collection_sums(rep, F)
    for ty in ("polygon::Polygon", "triangle::Triangle"):
        try:
            fn = F.impl_method(AREA, r"^%s%s<T>$" % (GT, ty), None, "unsigned_area", crates=("geo",))
            ps = single(ex, fn)
            r = bare(ps[0].ret) if len(ps) == 1 else ""
            if r == "abs(signed_area(a1))":
                rep.ok("R5.1", "abs:%s" % ty.split("::")[-1])
            else:
                rep.bad("R5.1", "abs:%s" % ty.split("::")[-1], "unsigned_area is %s, not |signed_area|" % r[:80], where=fn.loc())
        except (KeyError, Unanalysable, IndexError) as e:
            rep.bad("R5.1", "abs:%s:anchor" % ty, str(e))


def polygon_area(rep, F, ex):
    """R5.2 on a polygon with two holes (exact unrolling, loop or fold alike): with the ring areas A_e, A_0, A_1 as the only unknowns the result is
    evaluated on integer assignments and must equal sign(A_e) * (|A_e| - |A_0| - |A_1|), for every winding of every ring."""
    import itertools
    from ..evalterm import ArithEval, NoModel
    rep.rule("R5.2", "Polygon::signed_area (two holes, exact unrolling, integer witnesses for the ring areas): sign(A_ext) * (|A_ext| - Σ|A_hole|) for every winding of every ring")
    try:
        fn = F.impl_method(AREA, r"^%spolygon::Polygon<T>$" % GT, None, "signed_area", crates=("geo",))
        PG, LS = GT + "polygon::Polygon", GT + "line_string::LineString"
        ring = lambda n: ("field", ("deref", ("arg", 1)), n)
        pg = ("&", ("adt", PG, "Polygon", (ring("ext"), ("call", "vec!", (("array", (ring("h0"), ring("h1"))),)))))
        ex2 = Symex(F, no_inline=[r"area::get_linestring_area$", r"area::twice_signed_ring_area$"], inline_crates=("geo", "geo_types"), loop_bound=6, concrete_iters=True)
        paths = ex2.run(fn, args=[pg])
    except (KeyError, Unanalysable) as e:
        rep.bad("R5.2", "anchor", str(e))
        return
    if any(p.kind != "ret" for p in paths):
        rep.bad("R5.2", "polygon-signed-area", "a path does not return", where=fn.loc())
        return
    n = 0
    for ae, a0, a1_ in itertools.product((-5, 5, 0), (-2, 0, 2), (-1, 1, 0)):
        if ae == 0 and (a0 or a1_):
            continue
        vals = {"ext": ae, "h0": a0, "h1": a1_}

        def area_sym(t):
            if (t[1].endswith("get_linestring_area") or t[1].endswith("twice_signed_ring_area")) and t[2]:
                m_ = re.search(r"a1\.(ext|h0|h1)", bare(t[2][0]))
                if m_:
                    return vals[m_.group(1)] * (2 if t[1].endswith("twice_signed_ring_area") else 1)
            return None
        ev = ArithEval(F, {}, area_sym)
        try:
            hit = ev.select_path(paths)
            if len(hit) != 1:
                rep.bad("R5.2", "polygon-signed-area", "ring areas %s select %d rows" % (vals, len(hit)), where=fn.loc())
                return
            got = ev.ev(hit[0].ret)
        except (NoModel, TypeError) as e:
            rep.bad("R5.2", "polygon-signed-area", "the result is not an arithmetic function of the ring areas (%s)" % e, where=fn.loc())
            return
        want = (abs(ae) - abs(a0) - abs(a1_)) * (-1 if ae < 0 else 1)
        n += 1
        if got != want:
            rep.bad("R5.2", "polygon-signed-area", "with ring areas exterior %s, holes %s and %s the signed area is %s, expected %s (sign of the exterior times |exterior| minus the absolute hole areas): "
                    "holes of mixed winding must not cancel each other" % (ae, a0, a1_, got, want), where=fn.loc())
            return
    rep.ok("R5.2", "polygon-signed-area[%d assignments]" % n, sample="±(|A_ext| − Σ|A_hole|), sign from A_ext")
    # get_linestring_area = twice / 2
    try:
        g = F.one(r"^geo::algorithm::area::get_linestring_area$", crates=("geo",))
        ex2 = Symex(F, no_inline=[r"twice_signed_ring_area$"], inline_crates=("geo",))
        ps = [p for p in ex2.run(g) if p.kind == "ret"]
        rr = from_term(ps[0].ret, lambda t: "TW" if "twice_signed_ring_area" in show(t) else show(t))
        if len(ps) == 1 and rr.equals(R(sym("TW")) / R(P(2))):
            rep.ok("R5.2", "ring-area=twice/2")
        else:
            rep.bad("R5.2", "ring-area-half", "get_linestring_area is not twice_signed_ring_area / 2", where=g.loc())
    except (KeyError, Unanalysable, ValueError, IndexError) as e:
        rep.bad("R5.2", "ring-area:anchor", str(e))


def ring_area(rep, F):
    """R5.3 on rings of 2, 3, 4 and 5 coordinates (exact unrolling, helpers inlined): an unclosed or too short ring gives zero; for a closed
    ring the result, as a polynomial in the coordinates (with the closing coordinate identified with the first), equals the shoelace sum
    Σ (x_i y_{i+1} - x_{i+1} y_i) — whatever loop-invariant shift the implementation conditions the segments with."""
    rep.rule("R5.3", "twice_signed_ring_area (2..5 coordinates, exact unrolling): 0 for short / unclosed rings; for closed rings the polynomial identity with the shoelace sum (any conditioning shift cancels)")
    try:
        fn = F.one(r"^geo::algorithm::area::twice_signed_ring_area$", crates=("geo",))
    except KeyError as e:
        rep.bad("R5.3", "anchor", str(e))
        return
    LS = GT + "line_string::LineString"
    for N in (2, 3, 4, 5):
        elems = tuple(("index", ("field", ("deref", ("arg", 1)), "0"), ("const", k)) for k in range(N))
        ring = ("&", ("adt", LS, "LineString", (("call", "vec!", (("array", elems),)),)))
        try:
            ex = Symex(F, inline_crates=("geo", "geo_types"), loop_bound=N + 3, concrete_iters=True)
            ex.assume_reflexive = True
            ps = ex.run(fn, args=[ring])
        except Unanalysable as e:
            rep.bad("R5.3", "unanalysable", str(e), where=fn.loc())
            return

        def leaf(t, N=N):
            s_ = show(t).replace("&", "").replace("*", "")
            return s_.replace("a1.0[%d]" % (N - 1), "a1.0[0]")
        for p in ps:
            if p.kind != "ret":
                rep.bad("R5.3", "paths", "a %s path for a ring of %d coordinates" % (p.kind, N), where=fn.loc())
                return
            atoms = [(bare(t), v) for t, v in p.pc]
            closed = None
            for a_, v in atoms:
                if re.match(r"^\(a1\.0\[(0|%d)\] == a1\.0\[(0|%d)\]\)$" % (N - 1, N - 1), a_):
                    closed = v
                else:
                    rep.bad("R5.3", "foreign-decision", "the ring area depends on `%s`" % a_[:100], where=fn.loc())
                    return
            try:
                got = from_term(p.ret, leaf)
            except ValueError as e:
                rep.bad("R5.3", "non-polynomial", "the result for %d coordinates is not a polynomial in the coordinates (%s)" % (N, e), where=fn.loc())
                return
            if N < 3 or closed == 0:
                want = R(P(0))
            else:
                want = R(P(0))
                for k in range(N - 1):
                    a, b = k, (k + 1) % (N - 1) if k + 1 == N - 1 else k + 1
                    want = want + R(sym("a1.0[%d].x" % a)) * R(sym("a1.0[%d].y" % b)) - R(sym("a1.0[%d].x" % b)) * R(sym("a1.0[%d].y" % a))
            if not got.equals(want):
                rep.bad("R5.3", "shoelace", "for a %s ring of %d coordinates twice the signed area is %s, expected the shoelace sum %s" % (
                    "closed" if closed != 0 else "short / unclosed", N, show_poly(got.n)[:160], show_poly(want.n)[:120]), where=fn.loc())
                return
    rep.ok("R5.3", "shoelace-identity[2..5 coordinates]")

def simple_areas(rep, F, ex):
    """R5.4: Rect and Triangle areas on grid witnesses with mixed signs and both vertex orders, through the extracted path tables (accessors of
    geo_types inlined, numeric evaluation): Rect signed = unsigned = width * height; Triangle signed = half the shoelace sum of its vertices in
    stored order, unsigned = its absolute value.  (An earlier form matched the TERM `fold(to_lines, 0, acc + determinant) / 2`, which the
    repair of the far-offset defect - shifting by a vertex first - changes without changing the value.)"""
    import itertools
    from ..numeval import NumEval
    from ..evalterm import NoModel
    rep.rule("R5.4", "Rect area = width * height (signed and unsigned); Triangle signed area = half the shoelace sum in stored vertex order, unsigned = |signed| - on grid witnesses with mixed signs and both orders (numeric evaluation of the path tables)")
    Cn = lambda n: ("opaque", n)
    G = [(-2.0, 1.0), (0.0, 0.0), (3.0, -1.0), (1.5, 2.5), (4.0, 4.0)]
    shapes = [
        ("rect", r"^%srect::Rect<T>$" % GT, ("adt", GT + "rect::Rect", "Rect", (Cn("c0"), Cn("c1"))),
         [(a, b) for a in G for b in G if a[0] <= b[0] and a[1] <= b[1]], lambda w: (w[1][0] - w[0][0]) * (w[1][1] - w[0][1])),
        ("triangle", r"^%striangle::Triangle<T>$" % GT, ("adt", GT + "triangle::Triangle", "Triangle", (Cn("c0"), Cn("c1"), Cn("c2"))),
         list(itertools.permutations(G, 3)), lambda w: ((w[1][0] - w[0][0]) * (w[2][1] - w[0][1]) - (w[2][0] - w[0][0]) * (w[1][1] - w[0][1])) / 2.0),
    ]
    for name, pat, shape, wit, ref in shapes:
        for meth in ("signed_area", "unsigned_area"):
            key = "%s:%s" % (name, meth) if name == "rect" else ("triangle" if meth == "signed_area" else "triangle:unsigned_area")
            try:
                fn = F.impl_method(AREA, pat, None, meth, crates=("geo",))
                sx = Symex(F, concrete_iters=True, loop_bound=8, inline_crates=("geo", "geo_types"), max_depth=14, max_paths=5000)
                sx.resolve_by_receiver = True
                sx.pure_assign_ops = True
                paths = [p for p in sx.run(fn, args=[("&", shape)]) if p.kind != "cut"]
            except (KeyError, Unanalysable) as e:
                rep.bad("R5.4", key + ":unanalysable", str(e))
                continue
            bad = None
            for w in wit:
                ev = NumEval(F, {Cn("c%d" % i): {"x": c[0], "y": c[1]} for i, c in enumerate(w)})
                try:
                    hit = ev.select_path(paths)
                    got = [float(ev.ev(h.ret)) for h in hit if h.kind == "ret"]
                except (NoModel, TypeError, KeyError, ValueError) as e:
                    bad = "cannot be evaluated on %s: %s" % (list(w), e)
                    break
                want = ref(w) if meth == "signed_area" else abs(ref(w))
                if len(got) != 1 or abs(got[0] - want) > 1e-9:
                    bad = "%s of %s%s evaluates to %s, the definition gives %s" % (meth, name, list(w), got, want)
                    break
            if bad:
                rep.bad("R5.4", key, bad, where=fn.loc())
            else:
                rep.ok("R5.4", key, sample="%d witnesses" % len(wit))


def winding(rep, F):
    rep.rule("R5.5", "winding_order: orientation (by the scalar's own kernel) of (prev, least vertex, next) with CCW -> CounterClockwise, CW -> Clockwise, Collinear -> None")
    try:
        fn = F.impl_method("geo::algorithm::winding_order::Winding", r"^%sline_string::LineString<T>$" % GT, None, "winding_order", crates=("geo",))
        ex = Symex(F, no_inline=[r"utils::least_index$", r"::is_closed$", r"LineString::<T>::is_closed"], loop_bound=1, inline_crates=("geo",), max_paths=20000)
        paths = ex.run(fn)
    except (KeyError, Unanalysable) as e:
        rep.bad("R5.5", "anchor", str(e))
        return
    table = {}
    uses_least = False
    for p in paths:
        if p.kind != "ret":
            continue
        o = [(t, v) for t, v in p.pc if t[0] == "discr" and "orient2d" in show(t)]
        if not o:
            continue
        t, v = o[-1]
        s = show(t)
        if "least_index" in s:
            uses_least = True
        names = [x["name"] for x in F.adts["geo::algorithm::kernels::Orientation"]["variants"]]
        r = show(p.ret)
        table.setdefault(names[v] if isinstance(v, int) and v < len(names) else str(v), set()).add(r)
    want = {"CounterClockwise": {"Option::Some(WindingOrder::CounterClockwise())"}, "Clockwise": {"Option::Some(WindingOrder::Clockwise())"}, "Collinear": {"Option::None()"}}
    if table == want and uses_least:
        rep.ok("R5.5", "winding-table", sample={k: sorted(v) for k, v in table.items()})
    else:
        rep.bad("R5.5", "winding-table", "winding_order maps orientations to %s%s" % ({k: sorted(v) for k, v in table.items()}, "" if uses_least else " and does not take the orientation at least_index()"), where=fn.loc())
    # the orientation must come from the scalar's own kernel (exact for floats): same rule as C03 R3.5, restricted to this function
    preds = fn.d.get("preds", [])
    for g in [fn] + F.closures_of(fn):
        for c in g.calls():
            if c.trait == "geo::algorithm::kernels::Kernel":
                st = c.self_ty or ""
                ok = bool(re.match(r"^<\w+ as geo::GeoNum>::Ker$", st)) or any(re.match(r"^<\w+ as geo::GeoNum>::Ker == %s$" % re.escape(st), p_) for p_ in preds)
                if ok:
                    rep.ok("R5.5", "kernel:%s#bb%d" % (short(g.path)[-40:], c.bb))
                else:
                    rep.bad("R5.5", "kernel-dispatch", "winding_order takes an orientation from `%s` instead of the scalar type's kernel: for floats the winding of a nearly degenerate ring can come out wrong" % short(st), where="%s:%s" % (g.rel_file, c.line))


# ------------------------------------------------------------------------------------------------
def winding_witnesses():
    """Simple closed rings on a small grid, both orientations, every start vertex, with consecutive repetitions of a
    vertex inserted (also of the least vertex, also right before the closing coordinate) -> (coords, expected)."""
    bases = [
        [(0, 0), (3, 0), (1, 2)],
        [(0, 0), (2, 0), (2, 2), (0, 2)],
        [(0, 0), (1, 0), (2, 0), (2, 2), (0, 2), (0, 1)],          # collinear vertices on the edges next to the least vertex
        [(0, 0), (3, 0), (3, 1), (1, 1), (1, 3), (0, 3)],          # concave
        [(0, 1), (1, 0), (2, 1), (1, 3)],
    ]
    from ..report import thorough
    if thorough():
        bases += [[(0, 0), (4, 0), (4, 3), (2, 1), (0, 3)], [(0, 2), (1, 0), (3, 0), (4, 2), (2, 4)], [(0, 0), (2, 0), (2, 1), (4, 1), (4, 3), (0, 3)]]
    seen = set()
    for base in bases:
        for ring in (base, base[::-1]):
            n = len(ring)
            for r in range(n):
                rot = ring[r:] + ring[:r]
                variants = [rot]
                for j in range(n):
                    variants.append(rot[:j + 1] + [rot[j]] + rot[j + 1:])                # vertex j twice
                    variants.append(rot[:j + 1] + [rot[j], rot[j]] + rot[j + 1:])        # vertex j three times
                variants.append(rot + [rot[0]])                                          # the first vertex again right before closing
                variants.append([rot[0]] + rot + [rot[0]])                               # ... and also doubled at the start
                for v in variants:
                    coords = tuple(v + [v[0]])
                    if coords in seen or len(coords) > 9:
                        continue
                    seen.add(coords)
                    a2 = sum(coords[i][0] * coords[i + 1][1] - coords[i + 1][0] * coords[i][1] for i in range(len(coords) - 1))
                    yield [{"x": x, "y": y} for x, y in coords], ("CounterClockwise" if a2 > 0 else "Clockwise")


def winding_table(rep, F, rule="R5.6"):
    """The path table of LineString::winding_order for a concrete number of coordinates N and a concrete least index k (both supplied
    as models of coords_count / least_index, so all vertex indices are concrete and the atoms are equalities of ring vertices and one
    orientation sign) is walked with witness rings: simple rings with repeated vertices in every position."""
    from ..symex import _ret
    from ..evalterm import Evaluator, Enum, NoModel
    rep.rule(rule, "winding_order on witness rings with repeated vertices (every start vertex, both orientations, repetitions of every vertex incl. the least one and the "
                   "one before the closing coordinate): the path table for each (length, least index) gives the sign of the ring's area")
    try:
        fn = F.impl_method("geo::algorithm::winding_order::Winding", r"line_string::LineString<T>$", None, "winding_order", crates=("geo",))
    except KeyError as e:
        rep.bad(rule, "winding-table:anchor", str(e))
        return

    def const(v):
        return lambda ex, st, call, args: _ret(st, ("const", v))
    tables = {}

    def table(n, k):
        if (n, k) not in tables:
            models = {"geo::utils::least_index": const(k),
                      "<geo_types::geometry::line_string::LineString<T> as geo::algorithm::coords_iter::CoordsIter>::coords_count": const(n),
                      "geo::algorithm::coords_iter::CoordsIter::coords_count": const(n)}
            ex = Symex(F, models=models, loop_bound=n + 2, no_inline=[r"is_closed$"], inline_crates=("geo",))
            tables[(n, k)] = [p for p in ex.run(fn) if p.kind != "cut"]
        return tables[(n, k)]
    calls = {"geo_types::geometry::line_string::LineString::<T>::is_closed": lambda ev, args: (lambda ls: ls["0"][0] == ls["0"][-1])(ev.ev(args[0]))}
    n_w = 0
    for coords, want in winding_witnesses():
        n = len(coords)
        k = min(range(n), key=lambda i: (coords[i]["x"], coords[i]["y"], i))
        try:
            paths = table(n, k)
            ev = Evaluator(F, {("arg", 1): {"0": coords}}, calls)
            hit = ev.select_path(paths)
            if len(hit) != 1:
                rep.bad(rule, "winding-table", "ring %s selects %d rows of the table for (length %d, least index %d)" % (fmt_ring(coords), len(hit), n, k), where=fn.loc())
                return
            if hit[0].kind == "panic":
                got = "panic"
            else:
                r = ev.ev(hit[0].ret)
                got = r.payload[0].variant if isinstance(r, Enum) and r.variant == "Some" else "None"
        except Unanalysable as e:
            rep.bad(rule, "winding-table:unanalysable", str(e), where=fn.loc())
            return
        except NoModel as e:
            rep.bad(rule, "winding-table:non-abstractable", "a decision of winding_order is not a function of vertex equalities and one orientation sign (%s)" % e, where=fn.loc())
            return
        n_w += 1
        if got != want:
            rep.bad(rule, "winding-table", "for the ring %s (area sign: %s) the path table of winding_order gives %s  [row: %s]" % (fmt_ring(coords), want, got, show_pc(hit[0].pc)[:260]),
                    where=fn.loc(), detail={"ring": fmt_ring(coords), "want": want, "got": got})
            return
    if n_w < 300:
        rep.bad(rule, "winding-table:floor", "only %d witness rings" % n_w)
        return
    rep.ok(rule, "winding-table[%d rings, %d (length, least index) tables]" % (n_w, len(tables)), sample={"rings": n_w, "tables": len(tables)})


def least_index_table(rep, F, rule="R5.7"):
    """utils::least_index on slices of 1..3 coordinates (exact unrolling): the returned index names a coordinate that is lexicographically least
    under the NUMERIC comparison of the scalars (x first, then y; -0.0 and +0.0 are the same number), evaluated on every slice over the
    values {-0.0, +0.0, 1.0}.  winding_order and Graham's scan start from that vertex: a pivot that is not extreme makes a convex vertex
    test meaningless."""
    import itertools
    import math
    from ..evalterm import ArithEval, Enum, NoModel
    rep.rule(rule, "least_index (slices of 1..3 coordinates, exact unrolling, coordinates over {-0.0, +0.0, 1.0}): the index returned names a lexicographically least coordinate under numeric comparison (x, then y), in particular -0.0 == +0.0")
    try:
        fn = F.one(r"^geo::utils::least_index$", crates=("geo",))
    except KeyError as e:
        rep.bad(rule, "least-index:anchor", str(e))
        return

    def tkey(v):
        return (v, math.copysign(1.0, v)) if v == 0 else (v, 0.0)

    class Ev(ArithEval):
        def call(self, t):
            m = t[1].rsplit("::", 1)[-1]
            if m == "total_cmp" and len(t[2]) == 2:
                a, b = tkey(self.ev(t[2][0])), tkey(self.ev(t[2][1]))
                return Enum("core::cmp::Ordering", "Less" if a < b else "Greater" if a > b else "Equal")
            if m == "cmp" and len(t[2]) == 2:
                a, b = self.ev(t[2][0]), self.ev(t[2][1])
                return Enum("core::cmp::Ordering", "Less" if a < b else "Greater" if a > b else "Equal")
            return ArithEval.call(self, t)
    vals = (-0.0, 0.0, 1.0)
    coords = [{"x": x, "y": y} for x in vals for y in vals]
    n_w = 0
    for n in (1, 2, 3):
        arr = ("&", ("array", tuple(("opaque", "c%d" % i) for i in range(n))))
        try:
            paths = [p for p in Symex(F, concrete_iters=True, loop_bound=8, inline_crates=("geo", "geo_types")).run(fn, args=[arr]) if p.kind != "cut"]
        except Unanalysable as e:
            rep.bad(rule, "least-index:unanalysable", "slice of %d coordinates: %s" % (n, e), where=fn.loc())
            return
        for cs in itertools.product(coords, repeat=n):
            ev = Ev(F, {("opaque", "c%d" % i): cs[i] for i in range(n)})
            try:
                hit = ev.select_path(paths)
                got = sorted(set(ev.ev(h.ret) if h.kind == "ret" else "panic" for h in hit))
            except (NoModel, TypeError, KeyError) as e:
                rep.bad(rule, "least-index:non-abstractable", "a decision of least_index cannot be evaluated on numbers (%s)" % e, where=fn.loc())
                return
            best = min((c["x"], c["y"]) for c in cs)
            n_w += 1
            if len(got) != 1 or got[0] == "panic" or not isinstance(got[0], int) or not (0 <= got[0] < n) or (cs[got[0]]["x"], cs[got[0]]["y"]) != best:
                rep.bad(rule, "least-index:table", "least_index(%s) = %s, but the lexicographically least coordinate is %s" %
                        ([(c["x"], c["y"]) for c in cs], got, best), where=fn.loc())
                return
    rep.ok(rule, "least-index[%d slices]" % n_w)


def extreme_index_table(rep, F, rule="R8.11"):
    """utils::least_and_greatest_index (quick hull's starting pair) on slices of 1..4 coordinates (exact unrolling): the pair returned names a
    lexicographically least and a lexicographically greatest coordinate (numeric comparison, x then y), on every slice over a small grid -
    including runs of coordinates with the same x at the start."""
    import itertools
    from ..evalterm import ArithEval, Enum, NoModel
    rep.rule(rule, "least_and_greatest_index (slices of 1..4 coordinates, exact unrolling): the indices returned name a lexicographically least and a lexicographically greatest coordinate (x, then y) on every slice of a 3x3 grid")
    try:
        fn = F.one(r"^geo::utils::least_and_greatest_index$", crates=("geo",))
    except KeyError as e:
        rep.bad(rule, "extreme-index:anchor", str(e))
        return

    class Ev(ArithEval):
        def call(self, t):
            m = t[1].rsplit("::", 1)[-1]
            if m in ("cmp", "total_cmp") and len(t[2]) == 2:
                a, b = self.ev(t[2][0]), self.ev(t[2][1])
                return Enum("core::cmp::Ordering", "Less" if a < b else "Greater" if a > b else "Equal")
            return ArithEval.call(self, t)
    vals = (0, 1, 2)
    coords = [{"x": x, "y": y} for x in vals for y in vals]
    n_w = 0
    for n in (1, 2, 3, 4):
        arr = ("&", ("array", tuple(("opaque", "c%d" % i) for i in range(n))))
        try:
            ex = Symex(F, concrete_iters=True, loop_bound=10, inline_crates=("geo", "geo_types"), max_paths=60000, budget_s=60)
            paths = [p for p in ex.run(fn, args=[arr]) if p.kind != "cut"]
        except Unanalysable as e:
            rep.bad(rule, "extreme-index:unanalysable", "slice of %d coordinates: %s" % (n, e), where=fn.loc())
            return
        dom = coords if n <= 3 else coords[::2]
        for cs in itertools.product(dom, repeat=n):
            ev = Ev(F, {("opaque", "c%d" % i): cs[i] for i in range(n)})
            try:
                hit = ev.select_path(paths)
                got = [tuple(ev.ev(h.ret)) if h.kind == "ret" else "panic" for h in hit]
            except (NoModel, TypeError, KeyError) as e:
                rep.bad(rule, "extreme-index:non-abstractable", "a decision of least_and_greatest_index cannot be evaluated on numbers (%s)" % e, where=fn.loc())
                return
            lo = min((c["x"], c["y"]) for c in cs)
            hi = max((c["x"], c["y"]) for c in cs)
            n_w += 1
            ok = len(set(got)) == 1 and got[0] != "panic" and all(isinstance(i, int) and 0 <= i < n for i in got[0]) and \
                (cs[got[0][0]]["x"], cs[got[0][0]]["y"]) == lo and (cs[got[0][1]]["x"], cs[got[0][1]]["y"]) == hi
            if not ok:
                rep.bad(rule, "extreme-index:table", "least_and_greatest_index(%s) = %s, but the least coordinate is %s and the greatest %s" %
                        ([(c["x"], c["y"]) for c in cs], got, lo, hi), where=fn.loc())
                return
    rep.ok(rule, "extreme-index[%d slices]" % n_w)


def fmt_ring(coords):
    return "[" + " ".join("(%d,%d)" % (c["x"], c["y"]) for c in coords) + "]"


def orient_tables(rep, F, rule="R5.9"):
    """Orient::orient of Polygon (exterior + two holes) and MultiPolygon (two members), decided on abstract rings: a ring is an identity plus a
    winding, and the Winding API is answered on that abstraction (winding_order, is_cw / is_ccw, clone_to_winding_order, make_cw / ccw_winding,
    make_winding_order, clone).  For every assignment of input windings and both directions the result must hold the same rings in the same
    places, the exterior wound as requested (Default: counter-clockwise) and every hole the opposite way - for every member of a collection."""
    import itertools
    from ..symex import _ret, _set_behind
    rep.rule(rule, "Orient::orient on abstract rings (identity + winding), every assignment of input windings, both directions: Polygon -> same rings, exterior wound as requested and every hole the opposite way; MultiPolygon -> the same for every member, in member order")
    GT_ = GT
    WO = "geo::algorithm::winding_order::WindingOrder"
    DIR = "geo::algorithm::orient::Direction"
    OPT = "core::option::Option"

    def ring(i, w):
        return ("adt", "verif::Ring", "Ring", (("const", i), ("adt", WO, w, ())))

    def ring_dec(v):
        for _ in range(4):
            if v[0] in ("&",):
                v = v[1]
        if v[0] == "adt" and v[1] == "verif::Ring":
            return (v[3][0][1], v[3][1][2])
        raise Unanalysable("not an abstract ring: %s" % show(v)[:80])

    def vec(items):
        return ("call", "vec!", (("array", tuple(items)),))

    def val(ex, st, a):
        v = a
        for _ in range(4):
            if v[0] == "ref":
                v = ex.load(st, v[1])
            elif v[0] == "&":
                v = v[1]
            else:
                break
        return v

    def m_winding_order(ex, st, call, args):
        r = val(ex, st, args[0])
        if r[0] != "adt" or r[1] != "verif::Ring":
            return NotImplemented
        return _ret(st, ("adt", OPT, "Some", (r[3][1],)))

    def m_is(which):
        def m(ex, st, call, args):
            r = val(ex, st, args[0])
            if r[0] != "adt" or r[1] != "verif::Ring":
                return NotImplemented
            return _ret(st, ("const", r[3][1][2] == which))
        return m

    def m_clone_to(ex, st, call, args):
        r = val(ex, st, args[0])
        w = val(ex, st, args[1])
        if r[0] != "adt" or r[1] != "verif::Ring" or w[0] != "adt":
            return NotImplemented
        return _ret(st, ("adt", "verif::Ring", "Ring", (r[3][0], ("adt", WO, w[2], ()))))

    def m_make(which):
        def m(ex, st, call, args):
            r = val(ex, st, args[0])
            if r[0] != "adt" or r[1] != "verif::Ring":
                return NotImplemented
            w = which
            if w is None:
                wv = val(ex, st, args[1])
                if wv[0] != "adt":
                    return NotImplemented
                w = wv[2]
            new = ("adt", "verif::Ring", "Ring", (r[3][0], ("adt", WO, w, ())))
            if args[0][0] == "ref":
                ex.store(st, args[0][1], new, log=False)
            else:
                return NotImplemented
            return _ret(st, ("tuple", ()))
        return m
    W = "geo::algorithm::winding_order::Winding::"
    models = {W + "winding_order": m_winding_order, W + "is_cw": m_is("Clockwise"), W + "is_ccw": m_is("CounterClockwise"),
              W + "clone_to_winding_order": m_clone_to, W + "make_cw_winding": m_make("Clockwise"), W + "make_ccw_winding": m_make("CounterClockwise"),
              W + "make_winding_order": m_make(None)}
    for g in F.find(r"winding_order::Winding>::(winding_order|is_cw|is_ccw|clone_to_winding_order|make_cw_winding|make_ccw_winding|make_winding_order)$", crates=("geo",)):
        models[g.path] = models[W + g.path.rsplit("::", 1)[-1]]

    def poly(k, ws):
        return ("adt", GT_ + "polygon::Polygon", "Polygon", (ring(10 * k, ws[0]), vec([ring(10 * k + j + 1, w) for j, w in enumerate(ws[1:])])))

    def poly_dec(v):
        """Polygon value or Polygon::new(ext, interiors) term -> [(id, winding), ...] exterior first"""
        for _ in range(3):
            if v[0] == "&":
                v = v[1]
        if v[0] == "call" and v[1].endswith("Polygon::<T>::new") and len(v[2]) == 2:
            ext, ints = v[2]
        elif v[0] == "adt" and v[1].endswith("polygon::Polygon"):
            ext, ints = v[3]
        else:
            raise Unanalysable("not a polygon: %s" % show(v)[:100])
        from ..citer import _array_items
        items = None
        t = ints
        for _ in range(3):
            if t[0] == "&":
                t = t[1]
        if t[0] == "call" and t[1] == "vec!":
            items = list(t[2][0][1]) if t[2] and t[2][0][0] == "array" else None
        if items is None:
            raise Unanalysable("interiors of the result are not a concrete list: %s" % show(ints)[:100])
        return [ring_dec(ext)] + [ring_dec(x) for x in items]
    WS = ("Clockwise", "CounterClockwise")
    n_ok = 0
    # Polygon (through the trait impl) and MultiPolygon
    for key, pat, builder, decode in (
            ("Polygon", r"^%spolygon::Polygon<T>$" % GT_, lambda ws: (poly(0, ws[:3]), [ws[:3]]), lambda v: [poly_dec(v)]),
            ("MultiPolygon", r"^%smulti_polygon::MultiPolygon<T>$" % GT_,
             lambda ws: (("adt", GT_ + "multi_polygon::MultiPolygon", "MultiPolygon", (vec([poly(0, ws[:2]), poly(1, ws[2:4])]),)), [ws[:2], ws[2:4]]), None)):
        try:
            fn = F.impl_method("geo::algorithm::orient::Orient", pat, None, "orient", crates=("geo",))
        except KeyError as e:
            rep.bad(rule, "orient:%s:anchor" % key, str(e))
            continue
        bad = None
        k = 0
        for ws in itertools.product(WS, repeat=3 if key == "Polygon" else 4):
            for d, want_ext in (("Default", "CounterClockwise"), ("Reversed", "Clockwise")):
                arg, members = builder(ws)
                ex = Symex(F, models=models, concrete_iters=True, loop_bound=8, inline_crates=("geo", "geo_types"), max_depth=12,
                           no_inline=[r"Polygon::<T>::new$", r"MultiPolygon::<T>::new$"])
                ex.fold_ground_eq = True
                try:
                    ps = [p for p in ex.run(fn, args=[("&", arg), ("adt", DIR, d, ())]) if p.kind != "cut"]
                    if len(ps) != 1 or ps[0].kind != "ret" or ps[0].pc:
                        raise Unanalysable("%d paths / a decision on something other than the windings: %s" % (len(ps), [show_pc(p.pc)[:80] for p in ps][:2]))
                    r = ps[0].ret
                    if key == "Polygon":
                        got = [poly_dec(r)]
                    else:
                        for _ in range(3):
                            if r[0] == "&":
                                r = r[1]
                        if not (r[0] == "call" and r[1].endswith("MultiPolygon::<T>::new") and r[2] and r[2][0][0] == "call" and r[2][0][1] == "vec!"):
                            raise Unanalysable("result is not MultiPolygon::new(concrete list): %s" % show(r)[:120])
                        got = [poly_dec(x) for x in r[2][0][2][0][1]]
                except Unanalysable as e:
                    bad = "inputs wound %s, direction %s: %s" % (list(ws), d, e)
                    break
                k += 1
                want = []
                for mi, mw in enumerate(members):
                    want.append([(10 * mi, want_ext)] + [(10 * mi + j + 1, "Clockwise" if want_ext == "CounterClockwise" else "CounterClockwise") for j in range(len(mw) - 1)])
                if got != want:
                    bad = "inputs wound %s, direction %s: result rings (id, winding) %s, expected %s" % (list(ws), d, got, want)
                    break
            if bad:
                break
        if bad:
            rep.bad(rule, "orient:%s" % key, "%s::orient: %s" % (key, bad), where=fn.loc())
        else:
            n_ok += 1
            rep.ok(rule, "orient:%s[%d assignments]" % (key, k))
    rep.floor(rule, "orient tables", n_ok, 2)


def offset_witnesses(rep, F, rule="R5.12"):
    """signed_area of Triangle, Rect and a Polygon ring of 4 coordinates on witnesses translated by 1e8 (the property's own example), evaluated
    through the extracted path tables in IEEE doubles in the order the code performs them: the value stays within 1e-6 of the exact area
    (computed in rationals).  A shoelace sum of un-shifted determinants loses the area entirely at that offset (products near 1e16, one unit
    in the last place is 2): the kernels shift by a vertex first."""
    from fractions import Fraction
    from ..numeval import NumEval
    from ..evalterm import NoModel
    rep.rule(rule, "signed_area of Triangle / Rect / a 4-coordinate Polygon ring translated by 1e8 (+ fractional parts), numeric evaluation of the extracted tables in operation order: within 1e-6 of the exact rational area")
    O = 1.0e8
    offs = [(0.0, 0.0), (0.3, 0.7), (1.0, 3.0), (123.456, 789.01), (5.5, 2.25)]
    GTp = GT

    def vec(items):
        return ("call", "vec!", (("array", tuple(items)),))
    Cn = lambda n: ("opaque", n)
    shapes = [
        ("Triangle", r"^%striangle::Triangle<T>$" % GTp, ("adt", GTp + "triangle::Triangle", "Triangle", (Cn("c0"), Cn("c1"), Cn("c2"))), [(0, 0), (1, 0), (0, 1)]),
        ("Rect", r"^%srect::Rect<T>$" % GTp, ("adt", GTp + "rect::Rect", "Rect", (Cn("c0"), Cn("c1"))), [(0, 0), (2, 3)]),
        ("Polygon", r"^%spolygon::Polygon<T>$" % GTp, ("adt", GTp + "polygon::Polygon", "Polygon", (("adt", GTp + "line_string::LineString", "LineString", (vec([Cn("c0"), Cn("c1"), Cn("c2"), Cn("c0")]),)), vec([]))),
         [(0, 0), (1, 0), (0, 1)]),
    ]
    n_ok = 0
    for name, pat, shape, base in shapes:
        try:
            fn = F.impl_method(AREA, pat, None, "signed_area", crates=("geo",))
            ex = Symex(F, concrete_iters=True, loop_bound=10, inline_crates=("geo", "geo_types"), max_depth=14, max_paths=5000)
            ex.resolve_by_receiver = True
            ex.pure_assign_ops = True
            paths = [p for p in ex.run(fn, args=[("&", shape)]) if p.kind != "cut"]
        except (KeyError, Unanalysable) as e:
            rep.bad(rule, "offset:%s:unanalysable" % name, str(e))
            continue
        bad = None
        for dx, dy in offs:
            cs = [(O + dx + x, O + dy + y) for x, y in base]
            env = {Cn("c%d" % i): {"x": c[0], "y": c[1]} for i, c in enumerate(cs)}
            ev = NumEval(F, env)
            try:
                hit = ev.select_path(paths)
                got = [float(ev.ev(h.ret)) for h in hit if h.kind == "ret"]
            except (NoModel, TypeError, KeyError, ValueError) as e:
                bad = "cannot be evaluated on %s: %s" % (cs, e)
                break
            fr = [(Fraction(c[0]), Fraction(c[1])) for c in cs]
            if name == "Rect":
                exact = (fr[1][0] - fr[0][0]) * (fr[1][1] - fr[0][1])
            else:
                ring = fr + [fr[0]]
                exact = sum(ring[i][0] * ring[i + 1][1] - ring[i + 1][0] * ring[i][1] for i in range(len(fr))) / 2
            if len(got) != 1 or abs(got[0] - float(exact)) > 1e-6:
                bad = "%s%s: signed_area evaluates to %s in doubles, the exact area is %s" % (name, [tuple(c) for c in cs], got, float(exact))
                break
        if bad:
            rep.bad(rule, "offset:%s" % name, bad, where=fn.loc())
        else:
            n_ok += 1
            rep.ok(rule, "offset:%s[%d witnesses at 1e8]" % (name, len(offs)))
    rep.floor(rule, "offset tables", n_ok, 3)
