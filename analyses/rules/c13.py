"""C13 — affine transforms obey matrix algebra (decided over the reals, exact polynomial identities).

 R13.1 last row = [0,0,1] for `new` and preserved by `compose`
 R13.2 apply(compose(a,b), p) == apply(b, apply(a, p))
 R13.3 inverse is None exactly on a*e - b*d == 0 (exact comparison) and otherwise compose(t, inverse(t)) == identity
 R13.4 translate / scale / rotate / skew equal the documented matrices about the given origin
 R13.5 scaled / translated / rotated / skewed append the new transform: self.compose(&X), in that operand order
 R13.6 AffineOps applies `apply` to every coordinate through MapCoords
Not decided: commutation of all predicates and measures with exact similarity maps; float rounding of the products.
"""
import re
from ..facts import Facts, short
from ..symex import Symex, Unanalysable, show, show_pc
from ..poly import R, P, sym, from_term, padd, pmul, subst, show_poly

LEVEL = "other"
AT = "geo::algorithm::affine_ops::AffineTransform"


def leaf(t):
    s = show(t).replace("*", "").replace("&", "")
    m = re.match(r"^a(\d)\.0\[(\d)\]\[(\d)\]$", s)
    if m:
        return "%s%s%s" % ({"1": "A", "2": "B"}.get(m.group(1), "M" + m.group(1)), m.group(2), m.group(3))
    return s


def rows_of(t):
    """term of type [[T; 3]; 3] -> list of 3 lists of 3 terms (handles symbolic matrices and in-place updates)"""
    while isinstance(t, tuple) and t[0] in ("&", "deref"):
        t = t[1]
    if t[0] == "array" and len(t[1]) == 3:
        return [elems_of(r) for r in t[1]]
    if t[0] == "upd" and t[2][0] in ("i", "idx") and isinstance(t[2][1], tuple) and t[2][1][0] == "const":
        rows = rows_of(t[1])
        rows[int(t[2][1][1])] = elems_of(t[3])
        return rows
    if t[0] in ("field", "arg", "index"):
        return [[("index", ("index", t, ("const", i)), ("const", j)) for j in range(3)] for i in range(3)]
    raise ValueError("not a 3x3 matrix: %s" % show(t)[:80])


def elems_of(t):
    while isinstance(t, tuple) and t[0] in ("&", "deref"):
        t = t[1]
    if t[0] == "array" and len(t[1]) == 3:
        return list(t[1])
    if t[0] == "upd" and t[2][0] in ("i", "idx") and isinstance(t[2][1], tuple) and t[2][1][0] == "const":
        e = elems_of(t[1])
        e[int(t[2][1][1])] = t[3]
        return e
    if t[0] in ("field", "arg", "index"):
        return [("index", t, ("const", j)) for j in range(3)]
    raise ValueError("not a row of 3: %s" % show(t)[:80])


def matrix_of(t):
    """ret term -> 3x3 list of R"""
    while isinstance(t, tuple) and t[0] in ("&", "deref"):
        t = t[1]
    if t[0] == "upd" and not (t[2][0] in ("i", "idx")):
        t = t[3]
    if t[0] == "adt" and t[1] == AT:
        t = t[3][0]
    if t[0] == "upd" and t[2] == ("f", "0"):
        t = t[3]
    return [[from_term(x, leaf) for x in row] for row in rows_of(t)]


def rsubst(r, env):
    return R(subst(r.n, env), subst(r.d, env))


def rsubst_r(r, env):
    """substitute rational functions for symbols (env: name -> R)"""
    def sub_poly(p):
        acc = R(P(0))
        for m, c in p.items():
            term = R({(): c})
            for s, k in m:
                base = env.get(s, R(sym(s)))
                for _ in range(k):
                    term = term * base
            acc = acc + term
        return acc
    return sub_poly(r.n) / sub_poly(r.d)


LAST = {"A20": R(P(0)), "A21": R(P(0)), "A22": R(P(1)), "B20": R(P(0)), "B21": R(P(0)), "B22": R(P(1))}


def run(rep, tier):
    rep.explanation = ("The loop-free bodies of AffineTransform are extracted as rational-function terms over opaque leaves (matrix entries, origin "
                       "coordinates, sin/cos/tan of the angle) and the algebraic laws are decided by normalising both sides to a canonical sum of "
                       "monomials (exact rationals, no solver). Float rounding and the commutation of every algorithm with similarity maps are "
                       "not decided.")
    rep.trusted = ["rustc MIR", "polynomial normaliser analyses/poly.py", "identities hold over the reals (not over f64)"]
    rep.assumptions = ["last row of every AffineTransform is [0,0,1] (R13.1 makes it inductive for values built through the public API)"]
    F = Facts("default")
    ex = Symex(F, inline_crates=("geo", "geo_types"))

    def body(name, want_paths=None):
        fn = F.one(r"^%s::<\w+>::%s$" % (AT, name), crates=("geo",))
        ps = ex.run(fn)
        return fn, [p for p in ps if p.kind == "ret"]

    rep.rule("R13.1", "last row [0,0,1]: established by new(), preserved by compose()")
    rep.rule("R13.2", "apply(compose(a,b), p) == apply(b, apply(a, p))")
    try:
        fn_new, pn = body("new")
        M = matrix_of(pn[0].ret)
        if [x.is_const(c) for x, c in zip(M[2], (0, 0, 1))] == [True] * 3 and all(M[i][j].equals(R(sym("a%d" % (i * 3 + j + 1)))) for i in range(2) for j in range(3)):
            rep.ok("R13.1", "new")
        else:
            rep.bad("R13.1", "new", "new(a,b,xoff,d,e,yoff) does not build [[a,b,xoff],[d,e,yoff],[0,0,1]]", where=fn_new.loc())
        fn_c, pc = body("compose")
        fn_a, pa = body("apply")
        r = pa[0].ret
        ax = from_term(r[3][0], leaf)
        ay = from_term(r[3][1], leaf)
        px, py = R(sym("a2.x")), R(sym("a2.y"))
        # apply as a function of a matrix S (named A.. by the leaf function) and a point
        def apply_with(Mx, qx, qy):
            env = {"A%d%d" % (i, j): Mx[i][j] for i in range(3) for j in range(3)}
            env["a2.x"], env["a2.y"] = qx, qy
            return rsubst_r(ax, env), rsubst_r(ay, env)
        C = None
        for p in pc:
            # every path of compose (fast paths included) must satisfy the laws under its own path condition: equalities
            # `entry == one()/zero()` that the path assumed are substituted on both sides
            guard = dict(LAST)
            for t, v in p.pc:
                if t[0] == "cmp" and t[1] == "eq" and v == 1:
                    for x, y in ((t[2], t[3]), (t[3], t[2])):
                        if y[0] == "call" and y[1].endswith(("One::one", "Zero::zero")) and re.match(r"^[AB]\d\d$", leaf(x)):
                            guard[leaf(x)] = R(P(1 if y[1].endswith("one") else 0))
            Cp = matrix_of(p.ret)
            if C is None or len(p.pc) == 0 or all(v == 0 for _, v in p.pc):
                C = Cp      # the general path is the reference for the builders below
            Cl = [[rsubst_r(x, guard) for x in row] for row in Cp]
            tag = "" if len(pc) == 1 else "[%s]" % show_pc(p.pc)[:60]
            if [x.is_const(c) for x, c in zip(Cl[2], (0, 0, 1))] == [True] * 3:
                rep.ok("R13.1", "compose-preserves" + tag)
            else:
                rep.bad("R13.1", "compose-last-row", "compose does not preserve the last row [0,0,1]: %s" % [show_poly(x.n) for x in Cl[2]], where=fn_c.loc())
            Am = [[rsubst_r(R(sym("A%d%d" % (i, j))), guard) for j in range(3)] for i in range(3)]
            Bm = [[rsubst_r(R(sym("B%d%d" % (i, j))), guard) for j in range(3)] for i in range(3)]
            lhs = apply_with(Cl, px, py)
            mid = apply_with(Am, px, py)
            rhs = apply_with(Bm, mid[0], mid[1])
            if lhs[0].equals(rhs[0]) and lhs[1].equals(rhs[1]):
                rep.ok("R13.2", "apply∘compose" + tag, sample="apply(compose(a,b),p).x = %s" % show_poly(lhs[0].n)[:160])
            else:
                rep.bad("R13.2", "apply∘compose", "on the path [%s] of compose, apply(compose(a,b), p) differs from apply(b, apply(a, p)): x-difference %s, y-difference %s" % (
                    show_pc(p.pc)[:120], show_poly((lhs[0] - rhs[0]).n)[:160], show_poly((lhs[1] - rhs[1]).n)[:160]), where=fn_c.loc())
        Cl = [[rsubst_r(x, LAST) for x in row] for row in C]
        # compose_many on a slice of two transforms (exact unrolling, fold or loop alike): as polynomial matrices, the result equals
        # ((self . t0) . t1) in compose's own convention (apply self, then t0, then t1)
        fn_m = F.one(r"^%s::<\w+>::compose_many$" % AT, crates=("geo",))
        elems = tuple(("index", ("deref", ("arg", 2)), ("const", k)) for k in range(2))
        exm = Symex(F, inline_crates=("geo", "geo_types"), loop_bound=6, concrete_iters=True)
        pm = [p for p in exm.run(fn_m, args=[("arg", 1), ("&", ("array", elems))]) if p.kind == "ret"]

        def leaf_m(t):
            s_ = show(t).replace("*", "").replace("&", "")
            m_ = re.match(r"^a1\.0\[(\d)\]\[(\d)\]$", s_)
            if m_:
                return "A%s%s" % m_.groups()
            m_ = re.match(r"^a2\[(\d)\]\.0\[(\d)\]\[(\d)\]$", s_)
            if m_:
                return "T%s_%s%s" % m_.groups()
            return s_
        if len(pm) != 1 or pm[0].pc:
            rep.bad("R13.2", "compose_many", "compose_many on two transforms has %d result paths" % len(pm), where=fn_m.loc())
        else:
            t_ = pm[0].ret
            while t_[0] in ("&", "deref"):
                t_ = t_[1]
            if t_[0] == "adt" and t_[1] == AT:
                t_ = t_[3][0]
            Mm = [[from_term(x, leaf_m) for x in row] for row in rows_of(t_)]
            last = {"A20": R(P(0)), "A21": R(P(0)), "A22": R(P(1))}
            for k in range(2):
                last.update({"T%d_20" % k: R(P(0)), "T%d_21" % k: R(P(0)), "T%d_22" % k: R(P(1))})
            Mm = [[rsubst_r(x, last) for x in row] for row in Mm]
            Amat = [[rsubst_r(R(sym("A%d%d" % (i, j))), last) for j in range(3)] for i in range(3)]
            cur = Amat
            for k in range(2):
                Tk = [[rsubst_r(R(sym("T%d_%d%d" % (k, i, j))), last) for j in range(3)] for i in range(3)]
                env_k = {"A%d%d" % (i, j): cur[i][j] for i in range(3) for j in range(3)}
                env_k.update({"B%d%d" % (i, j): Tk[i][j] for i in range(3) for j in range(3)})
                cur = [[rsubst_r(C[i][j], env_k) for j in range(3)] for i in range(3)]
            if all(Mm[i][j].equals(cur[i][j]) for i in range(3) for j in range(3)):
                rep.ok("R13.2", "compose_many=self.t0.t1")
            else:
                d = [(i, j) for i in range(3) for j in range(3) if not Mm[i][j].equals(cur[i][j])][0]
                rep.bad("R13.2", "compose_many", "compose_many(self, [t0, t1]) differs from self.compose(t0).compose(t1) (entry %s: %s): the chain is not applied in order" % (
                    d, show_poly((Mm[d[0]][d[1]] - cur[d[0]][d[1]]).n)[:160]), where=fn_m.loc())
    except (KeyError, Unanalysable, ValueError, IndexError) as e:
        rep.bad("R13.2", "unanalysable", str(e))
        return

    # ------------------------------------------------------------------ inverse
    rep.rule("R13.3", "inverse: None exactly when a*e - b*d == 0 (exact comparison); otherwise compose(t, inverse(t)) is the identity")
    try:
        fn_i, pi = body("inverse")
        det_want = R(sym("A00")) * R(sym("A11")) - R(sym("A01")) * R(sym("A10"))
        none_paths = [p for p in pi if p.ret[0] == "adt" and p.ret[2] == "None"]
        some_paths = [p for p in pi if p.ret[0] == "adt" and p.ret[2] == "Some"]
        guard_ok = False
        for p in pi:
            t0, v0 = p.pc[0]
            if t0[0] == "cmp" and t0[1] == "eq":
                try:
                    d = from_term(t0[2], leaf) - from_term(t0[3], leaf)
                    if d.equals(det_want) or d.equals(-det_want):
                        guard_ok = True
                except ValueError:
                    pass
        singular_none = any(p.pc[0][1] == 1 for p in none_paths) and not any(p.pc[0][1] == 1 for p in some_paths)
        if guard_ok and singular_none and all(p.pc[0][0][0] == "cmp" for p in pi):
            rep.ok("R13.3", "singular-iff-det-zero")
        else:
            rep.bad("R13.3", "singularity-guard", "inverse does not return None exactly on the exact test a*e - b*d == 0 (first decision: %s)" % show(pi[0].pc[0][0])[:160], where=fn_i.loc())
        ok_inv = bool(some_paths)
        for p in some_paths:
            Minv = matrix_of(p.ret[3][0])
            # B := inverse(A) in compose(A, B), with A's last row [0,0,1]
            env = {"B%d%d" % (i, j): rsubst_r(Minv[i][j], LAST) for i in range(3) for j in range(3)}
            env.update({k: v for k, v in LAST.items() if k[0] == "A"})
            prod = [[rsubst_r(C[i][j], env) for j in range(3)] for i in range(3)]
            for i in range(3):
                for j in range(3):
                    if not prod[i][j].is_const(1 if i == j else 0):
                        ok_inv = False
        if ok_inv:
            rep.ok("R13.3", "compose(t,inverse(t))=identity")
        else:
            rep.bad("R13.3", "inverse-formula", "compose(t, inverse(t)) is not the identity as a rational function", where=fn_i.loc())
    except (KeyError, Unanalysable, ValueError, IndexError) as e:
        rep.bad("R13.3", "unanalysable", str(e))

    # ------------------------------------------------------------------ constructors
    rep.rule("R13.4", "translate / scale / rotate / skew are T(o)·L·T(-o) for the documented linear part L about the given origin")
    def check_ctor(name, linear, origin):
        """linear(leaves, M) -> 2x2 expected R entries (may read them from M for opaque trig leaves); origin -> (x0, y0)"""
        fn, ps = body(name)
        for p in ps:
            M = matrix_of(p.ret)
            L = linear(M)
            x0, y0 = origin
            exp = [[L[0][0], L[0][1], x0 - (L[0][0] * x0 + L[0][1] * y0)],
                   [L[1][0], L[1][1], y0 - (L[1][0] * x0 + L[1][1] * y0)],
                   [R(P(0)), R(P(0)), R(P(1))]]
            for i in range(3):
                for j in range(3):
                    if not M[i][j].equals(exp[i][j]):
                        rep.bad("R13.4", "%s:entry[%d][%d]" % (name, i, j), "%s builds entry [%d][%d] = %s, the documented matrix has %s [path %s]" %
                                (name, i, j, show_poly(M[i][j].n)[:120], show_poly(exp[i][j].n)[:120], show_pc(p.pc)[:80]), where=fn.loc())
                        return
        rep.ok("R13.4", "%s[%d path(s)]" % (name, len(ps)))
    Z, ONE = R(P(0)), R(P(1))
    try:
        fn, ps = body("translate")
        M = matrix_of(ps[0].ret)
        exp = [[ONE, Z, R(sym("a1"))], [Z, ONE, R(sym("a2"))], [Z, Z, ONE]]
        if not all(M[i][j].equals(exp[i][j]) for i in range(3) for j in range(3)):
            rep.bad("R13.4", "translate", "translate(xoff, yoff) is not [[1,0,xoff],[0,1,yoff],[0,0,1]]", where=fn.loc())
        o3 = (R(sym("a3.x")), R(sym("a3.y")))
        check_ctor("scale", lambda M: [[R(sym("a1")), Z], [Z, R(sym("a2"))]], o3)
        o2 = (R(sym("a2.x")), R(sym("a2.y")))
        s = R(sym("sin_cos(to_radians(a1)).0"))
        c = R(sym("sin_cos(to_radians(a1)).1"))
        check_ctor("rotate", lambda M: [[c, -s], [s, c]], o2)
        o3b = (R(sym("a3.x")), R(sym("a3.y")))
        # skew: tan values are snapped to zero on separate paths: read them from the matrix, require unit diagonal
        check_ctor("skew", lambda M: [[ONE, M[0][1]], [M[1][0], ONE]], o3b)
        fn, ps = body("skew")
        vals = set()
        for p in ps:
            M = matrix_of(p.ret)
            for e in (M[0][1], M[1][0]):
                vals.add(show_poly(e.n))
        allowed = {"0", "tan(to_radians(a1))", "tan(to_radians(a2))"}
        if not vals <= allowed:
            rep.bad("R13.4", "skew:shear", "shear entries are %s, expected tan(xs) / tan(ys) or their snap to zero" % sorted(vals), where=fn.loc())
    except (KeyError, Unanalysable, ValueError, IndexError) as e:
        rep.bad("R13.4", "unanalysable", str(e))

    # ------------------------------------------------------------------ builders
    rep.rule("R13.5", "scaled / translated / rotated / skewed return self.compose(&X(..)): the new transform is applied after the existing chain")
    for bname, cname in (("scaled", "scale"), ("translated", "translate"), ("rotated", "rotate"), ("skewed", "skew")):
        try:
            fnb, pb = body(bname)
            fnc, pcn = body(cname)
            okb = bool(pb)
            for p in pb:
                Mb = matrix_of(p.ret)
                # the constructor matrix with the builder's argument numbering: builder args are (self, x.., origin) = ctor args shifted by one
                matched = False
                for q in pcn:
                    X = matrix_of(q.ret)
                    shift = {}
                    def sh(r_):
                        def ren(poly):
                            out = {}
                            for m, cf in poly.items():
                                mm = tuple(sorted((re.sub(r"\ba(\d)\b", lambda z: "a%d" % (int(z.group(1)) + 1), s_), k) for s_, k in m))
                                out[mm] = cf
                            return out
                        return R(ren(r_.n), ren(r_.d))
                    Xs = [[sh(x) for x in row] for row in X]
                    env_ab = {"B%d%d" % (i, j): Xs[i][j] for i in range(3) for j in range(3)}
                    want = [[rsubst_r(C[i][j], env_ab) for j in range(3)] for i in range(3)]
                    env_ba = {"B%d%d" % (i, j): R(sym("A%d%d" % (i, j))) for i in range(3) for j in range(3)}
                    env_ba.update({"A%d%d" % (i, j): Xs[i][j] for i in range(3) for j in range(3)})
                    wrong = [[rsubst_r(C[i][j], env_ba) for j in range(3)] for i in range(3)]
                    if all(Mb[i][j].equals(want[i][j]) for i in range(3) for j in range(3)):
                        matched = True
                    elif all(Mb[i][j].equals(wrong[i][j]) for i in range(3) for j in range(3)):
                        matched = "swapped"
                if matched is True:
                    continue
                okb = False
                rep.bad("R13.5", bname, "%s is %s" % (bname, "%s(..).compose(self): the new transform is applied BEFORE the existing chain" % cname if matched == "swapped" else "not self.compose(&%s(..))" % cname), where=fnb.loc())
                break
            if okb:
                rep.ok("R13.5", bname)
        except (KeyError, Unanalysable, ValueError, IndexError) as e:
            rep.bad("R13.5", bname + ":unanalysable", str(e))

    # ------------------------------------------------------------------ AffineOps
    rep.rule("R13.6", "AffineOps::affine_transform(_mut) is map_coords(_in_place)(|c| transform.apply(c))")
    try:
        for meth, mc in (("affine_transform", "map_coords"), ("affine_transform_mut", "map_coords_in_place")):
            fs = [f for f in F.find(r"affine_ops::AffineOps<T>>::%s$" % meth, crates=("geo",)) if f.kind != "Closure"]
            good = False
            for f in fs:
                calls = [c for c in f.calls()]
                cl = F.closures_of(f)
                uses_map = any(c.method == mc for c in calls)
                applies = any(re.search(r"AffineTransform::<T>::apply$", c.path or "") for g in cl for c in g.calls())
                good = uses_map and applies
            if good:
                rep.ok("R13.6", meth)
            else:
                rep.bad("R13.6", meth, "%s is not %s over transform.apply" % (meth, mc))
    except KeyError as e:
        rep.bad("R13.6", "anchor", str(e))
    origin_traits(rep, F)
    # the "documented origin" of scale / skew / rotate_around_center is the centre of bounding_rect(): the bounding-box tables (shared with C19)
    from . import c19
    c19.bbox_tables(rep, F, rule="R13.8")
    from . import gt_tables
    from . import mapcoords
    mapcoords.run(rep, F, "R13.10")
    # rotate_around_centroid / scale about the centroid weigh line work by its Euclidean length: the segment length kernel (shared with C07)
    from . import c07
    c07.point_kernel(rep, F, rule="R13.11")
    skew_regimes(rep, F)
    gt_tables.run(rep, F, "R13.9", select={"Rect::center", "Rect::min", "Rect::max"})


def origin_traits(rep, F):
    """R13.7 on normal forms: the methods of Rotate / Scale / Skew / Translate are inlined into each other (helpers of the same traits may be
    called or inlined at will) until only `affine_transform(_mut)(self, AffineTransform::X(..))` remains; the argument list of the constructor,
    in particular the origin (given point / centroid / centre of the bounding rectangle; identity when there is none), is compared with the
    documented one, and every _mut twin must reach affine_transform_mut with the same transform."""
    from .c01 import calls_of
    from ..symex import bare
    rep.rule("R13.7", "Rotate/Scale/Skew/Translate reduce to affine_transform(self, AffineTransform::X(args, documented origin)) (identity when the origin does not exist); every *_mut twin applies the same transform through affine_transform_mut")
    C_ = r"center\(\(into\(bounding_rect\(a1\)\) as Some\)\.0\)"
    spec = {
        "geo::algorithm::rotate::Rotate": {
            "rotate_around_point": [("", r"rotate\(a2, a3\)")],
            "rotate_around_centroid": [("=0", None), ("=1", r"rotate\(a2, \(into\(centroid\(a1\)\) as Some\)\.0\)")],
            "rotate_around_center": [("=0", None), ("=1", r"rotate\(a2, Point::Point\(%s\)\)" % C_)],
        },
        "geo::algorithm::scale::Scale": {
            "scale": [("=0", None), ("=1", r"scale\(a2, a2, %s\)" % C_)],
            "scale_xy": [("=0", None), ("=1", r"scale\(a2, a3, %s\)" % C_)],
            "scale_around_point": [("", r"scale\(a2, a3, a4\)")],
        },
        "geo::algorithm::skew::Skew": {
            "skew": [("=0", None), ("=1", r"skew\(a2, a2, %s\)" % C_)],
            "skew_xy": [("=0", None), ("=1", r"skew\(a2, a3, %s\)" % C_)],
            "skew_around_point": [("", r"skew\(a2, a3, a4\)")],
        },
        "geo::algorithm::translate::Translate": {
            "translate": [("", r"translate\(a2, a3\)")],
        },
    }
    KEEP = [r"AffineOps.*::affine_transform(_mut)?$", r"AffineTransform::<\w+>::(scale|skew|rotate|translate)$", r"Centroid.*::centroid$", r"BoundingRect.*::bounding_rect$", r"Rect::<T>::center$"]
    n = 0
    for tr, meths in spec.items():
        ims = [im for im in F.impls_of(tr) if im["crate"] == "geo"]
        if len(ims) != 1:
            rep.bad("R13.7", "impls:" + tr.split("::")[-1], "%d impls of %s (expected the one blanket impl)" % (len(ims), tr))
            continue
        im = ims[0]
        for m, rows in meths.items():
            key = "%s::%s" % (tr.split("::")[-1], m)
            try:
                fn = F.impl_fn(im, m)
                fm = F.impl_fn(im, m + "_mut")
                if fn is None or fm is None:
                    raise KeyError("method %s / %s_mut not found" % (m, m))
                ps = [p for p in Symex(F, inline_crates=("geo", "geo_types"), no_inline=KEEP, loop_bound=1).run(fn) if p.kind == "ret"]
                pm = [p for p in Symex(F, inline_crates=("geo", "geo_types"), no_inline=KEEP, loop_bound=1).run(fm) if p.kind == "ret"]
            except (KeyError, Unanalysable) as e:
                rep.bad("R13.7", key + ":anchor", str(e))
                continue
            n += 1
            bad = None
            for which, paths in (("", ps), ("_mut", pm)):
                if len(paths) != len(rows):
                    bad = "%s%s has %d result paths, expected %d" % (m, which, len(paths), len(rows))
                    break
                for suffix, pat in rows:
                    sel = [p for p in paths if show_pc(p.pc).endswith(suffix)] if suffix else paths
                    if len(sel) != 1:
                        bad = "%s%s: the decision whether an origin exists was not recognised" % (m, which)
                        break
                    p = sel[0]
                    cs = [c for c in calls_of(p) if re.search(r"affine_transform(_mut)?$", c[1])]
                    if pat is None:
                        if cs or (which == "" and bare(p.ret) != "a1"):
                            bad = "%s%s transforms although there is no origin" % (m, which)
                        continue
                    if len(cs) != 1 or not cs[0][1].endswith("affine_transform" + which):
                        bad = "%s%s does not end in exactly one affine_transform%s call" % (m, which, which)
                        break
                    tf = bare(cs[0][2][1])
                    if bare(cs[0][2][0]) != "a1" or not re.match("^" + pat + "$", tf):
                        bad = "%s%s applies %s to %s; expected the documented transform %s on self" % (m, which, tf[:120], bare(cs[0][2][0])[:20], pat.replace("\\", "")[:100])
                        break
                    if which == "" and not bare(p.ret).startswith("affine_transform(a1, "):
                        bad = "%s does not return the transformed geometry (%s)" % (m, bare(p.ret)[:80])
                        break
                if bad:
                    break
            if bad:
                rep.bad("R13.7", key, bad, where=fn.loc())
            else:
                rep.ok("R13.7", key)
    rep.floor("R13.7", "trait methods", n, 10)


def skew_regimes(rep, F, rule="R13.12"):
    """AffineTransform::skew on tiny-angle witnesses, the extracted table evaluated numerically under both scalar regimes (machine epsilon of
    f64 and of f32): the matrix is [[1, tan xs, -y0 tan xs], [tan ys, 1, -x0 tan ys]] - a tangent that the scalar type can represent (1e-7 is
    an ordinary f32 value) is not snapped to zero, so a tiny skew of a tall geometry is not the identity."""
    import math
    from ..numeval import NumEval
    from ..evalterm import NoModel
    rep.rule(rule, "AffineTransform::skew with tiny angles (5e-6 and -3e-6 degrees), numeric evaluation with the machine epsilon of f64 and of f32: entries are tan(xs), tan(ys) and the matching offsets, not snapped to zero")
    try:
        fn = F.one(r"affine_ops::AffineTransform::<U>::skew$", crates=("geo",))
        paths = [p for p in Symex(F, inline_crates=("geo", "geo_types"), max_depth=10, max_paths=2000).run(fn) if p.kind != "cut"]
    except (KeyError, Unanalysable) as e:
        rep.bad(rule, "skew-regimes:anchor", str(e))
        return
    bad = None
    n = 0
    for regime, eps in (("f64", 2.220446049250313e-16), ("f32", 1.1920929e-07)):
        class Ev(NumEval):
            def call(self, t, eps=eps):
                m = t[1].rsplit("::", 1)[-1]
                if m == "epsilon" and not t[2]:
                    return eps
                return NumEval.call(self, t)
        for xs, ys, ox, oy in ((5e-6, -3e-6, 2.0, 1.0e6), (0.0, 5e-6, -4.0, 3.0), (30.0, 0.0, 1.0, 1.0)):
            ev = Ev(F, {("arg", 1): xs, ("arg", 2): ys, ("arg", 3): {"x": ox, "y": oy}})
            try:
                hit = ev.select_path(paths)
                if len(hit) != 1 or hit[0].kind != "ret":
                    bad = "skew(%s, %s) selects %d rows under the %s regime" % (xs, ys, len(hit), regime)
                    break
                r = ev.ev(hit[0].ret)
            except (NoModel, TypeError, KeyError, ValueError) as e:
                bad = "cannot be evaluated under the %s regime: %s" % (regime, e)
                break
            m = r["0"] if isinstance(r, dict) and "0" in r else r
            try:
                got = [float(m[0][1]), float(m[1][0]), float(m[0][2]), float(m[1][2])]
            except (TypeError, KeyError, IndexError):
                bad = "the result is not a 3x3 matrix: %r" % (r,)
                break
            tx, ty = math.tan(math.radians(xs)), math.tan(math.radians(ys))
            want = [tx, ty, -oy * tx, -ox * ty]
            n += 1
            if any(abs(g - w) > 1e-12 * max(1.0, abs(w)) + 1e-22 for g, w in zip(got, want)):
                bad = "skew(xs = %s deg, ys = %s deg, origin (%s, %s)) with the scalar type's epsilon = %s (%s): entries [b, d, xoff, yoff] = %s, expected %s" % (xs, ys, ox, oy, eps, regime, got, want)
                break
        if bad:
            break
    if bad:
        rep.bad(rule, "skew-regimes", bad, where=fn.loc())
    else:
        rep.ok(rule, "skew-regimes[%d evaluations, f64 and f32 epsilon]" % n)
