"""C17 — PreparedGeometry answers exactly like the plain geometry (history-independence half).

An ownership / typestate argument: results can depend on earlier uses only through shared mutable state, and the only
interior-mutable state reachable from a PreparedGeometry is Vec<Rc<RefCell<Edge>>>.
 R17.1 freshness: every relate() works on a graph whose edges are freshly allocated deep copies
 R17.2 the cached graph is never handed out: PreparedGeometry's Relate impl only clones
 R17.3 typestate: self nodes are computed once, the clone carries the flag, swap_labels runs iff the index changes
 R17.4 the cached bounding box and dimensions are those of the geometry itself (same source as the unprepared path)
 R17.5 both paths construct the same line intersector type
"""
import re
from ..facts import Facts, short
from ..symex import Symex, Unanalysable, show, show_pc
from ..dispatch import Lam, find_closures
from .c01 import opaque, calls_of

LEVEL = "other"
PG = "geo::algorithm::relate::geomgraph::index::prepared_geometry::"
GGm = "geo::algorithm::relate::geomgraph::geometry_graph::GeometryGraph"
PLG = "geo::algorithm::relate::geomgraph::planar_graph::PlanarGraph"


def has_call(t, rx, depth=0):
    if isinstance(t, tuple) and t and depth < 40:
        if t[0] == "call" and isinstance(t[1], str) and re.search(rx, t[1]):
            return True
        return any(has_call(x, rx, depth + 1) for x in t if isinstance(x, tuple))
    return False


def run(rep, tier):
    rep.explanation = ("History independence by ownership: PreparedGeometry::geometry_graph returns clone_for_arg_index, whose PlanarGraph is "
                       "rebuilt with every edge re-allocated as Rc::new(RefCell::new(edge.clone())) on every path (no Rc handle of the cached graph "
                       "is shared), node storage contains no interior mutability, the clone carries has_computed_self_nodes and swaps labels "
                       "exactly when the operand index changes; cached bounding box / dimensions come from the geometry itself. Equality of the "
                       "matrices as such rests on C01's undecided core and on rstar's envelope queries (dependency).")
    rep.trusted = ["rustc MIR", "rstar envelope queries return every candidate (dependency)", "symbolic Clone model: clone of Vec<Rc<_>> shares the Rc handles"]
    rep.assumptions = ["C01's undecided core"]
    F = Facts("default")
    freshness(rep, F)
    typestate(rep, F)
    cached_fields(rep, F)
    candidate_pairs(rep, F)
    cow_dimensions(rep, F)
    # the plain operand and its prepared form go through one and the same pipeline only if no operand type overrides relate() and every
    # plain operand's graph is GeometryGraph::new(idx, GeometryCow::from(self)) - what prepare_geometry builds too (rule shared with C01)
    from . import c01
    from ..report import Alias
    rep.rule("R17.8", "no Relate impl overrides relate() and every plain operand's graph is GeometryGraph::new(idx, GeometryCow::from(self)): a plain operand and its PreparedGeometry are related by the same pipeline (C01 R1.1)")
    c01.uniform_dispatch(Alias(rep, "R17.8", " - relate() on the plain geometry and on its PreparedGeometry can then differ"), F)


def freshness(rep, F):
    rep.rule("R17.1", "clone_for_arg_index re-allocates every edge (Rc::new(RefCell::new(edge.clone()))) on every path; no Rc handle of the cached graph reaches the returned graph; nodes hold no interior mutability")
    rep.rule("R17.2", "PreparedGeometry's Relate impl only returns clone_for_arg_index of the cached graph and does not override relate()")
    # R17.2
    ims = [im for im in F.impls_of("geo::algorithm::relate::Relate") if "PreparedGeometry" in im["self_ty"]]
    if len(ims) != 1:
        rep.bad("R17.2", "impl", "expected one Relate impl for PreparedGeometry, found %d" % len(ims))
    else:
        names = sorted(it["name"] for it in ims[0]["items"])
        if names != ["geometry_graph"]:
            rep.bad("R17.2", "items", "PreparedGeometry's Relate impl defines %s" % names)
        fn = F.impl_fn(ims[0], "geometry_graph")
        try:
            ps = [p for p in opaque(F).run(fn) if p.kind == "ret"]
            s = show(ps[0].ret).replace("&", "").replace("*", "") if ps else ""
            if len(ps) == 1 and re.match(r"GeometryGraph::<[^>]*>::clone_for_arg_index\(a1\.geometry_graph, a2\)$", s):
                rep.ok("R17.2", "geometry_graph=clone_for_arg_index", sample=s)
            else:
                rep.bad("R17.2", "geometry_graph", "PreparedGeometry::geometry_graph is not self.geometry_graph.clone_for_arg_index(arg_index): %s" % s[:160], where=fn.loc())
        except Unanalysable as e:
            rep.bad("R17.2", "unanalysable", str(e), where=fn.loc())
    # R17.1 (b): GeometryGraph::clone_for_arg_index builds its planar graph from PlanarGraph::clone_for_arg_index
    try:
        fn = F.one(r"^%s::<[^>]*>::clone_for_arg_index$" % GGm, crates=("geo",))
        ex = opaque(F)
        ex.watch_adts = {GGm}
        ps = [p for p in ex.run(fn) if p.kind == "ret"]
        ok = bool(ps)
        for p in ps:
            aggs = [e for e in p.trace if e[0] == "agg" and e[1] == GGm]
            if len(aggs) != 1:
                ok = False
                rep.bad("R17.1", "graph-clone:shared-graph", "a path of GeometryGraph::clone_for_arg_index returns %s instead of a graph rebuilt around PlanarGraph::clone_for_arg_index: a derived Clone copies the Rc handles, so the relate call works on (and mutates) the cached edges [path %s]" % (show(p.ret)[:80], show_pc(p.pc)[:80]), where=fn.loc())
                continue
            a = F.adts[GGm]["variants"][0]["fields"]
            vals = dict(zip([f["name"] for f in a], aggs[0][3]))
            pg = show(vals.get("planar_graph", ()))
            if not re.search(r"PlanarGraph::<[^>]*>::clone_for_arg_index\(", pg):
                ok = False
                rep.bad("R17.1", "graph-clone:planar", "the cloned GeometryGraph takes its planar graph from %s, not from PlanarGraph::clone_for_arg_index: edges would be shared with the cached graph" % pg[:120], where=fn.loc())
            flag = vals.get("has_computed_self_nodes")
            if flag != ("const", True):
                ok = False
                rep.bad("R17.3", "clone-flag", "the clone does not carry has_computed_self_nodes = true (%s)" % show(flag), where=fn.loc())
            idx = show(vals.get("arg_index", ()))
            if idx != "a2":
                ok = False
                rep.bad("R17.1", "graph-clone:index", "the clone's arg_index is %s, not the requested one" % idx, where=fn.loc())
        if ok:
            rep.ok("R17.1", "GeometryGraph::clone_for_arg_index[%d paths]" % len(ps))
    except (KeyError, Unanalysable) as e:
        rep.bad("R17.1", "graph-clone:anchor", str(e))
    # R17.1 (c): PlanarGraph::clone_for_arg_index
    try:
        fn = F.one(r"^%s::<F>::clone_for_arg_index$" % PLG, crates=("geo",))
        ex = opaque(F)
        ex.watch_adts = {PLG}
        paths = ex.run(fn)
        rets = [p for p in paths if p.kind == "ret"]
        if not rets:
            rep.bad("R17.1", "planar:no-return", "no returning path", where=fn.loc())
        fields = [f["name"] for f in F.adts[PLG]["variants"][0]["fields"]]
        for p in rets:
            key = "planar:path[%s]" % show_pc(p.pc)[:60]
            aggs = [e for e in p.trace if e[0] == "agg" and e[1] == PLG]
            r = p.ret
            # the returned graph must be an aggregate built on this path (possibly with labels swapped afterwards)
            base = r
            while isinstance(base, tuple) and base[0] == "havoc":
                base = base[2]
            if not aggs or base[0] != "adt" or base[1] != PLG:
                rep.bad("R17.1", "planar:shared-graph", "a path returns %s instead of a freshly built PlanarGraph: Rc handles of the cached edges are shared, so a relate call can mutate the prepared geometry [path %s]" % (show(r)[:100], show_pc(p.pc)[:80]), where=fn.loc())
                continue
            vals = dict(zip(fields, base[3]))
            ev = vals.get("edges")
            while isinstance(ev, tuple) and ev[0] == "havoc":
                ev = ev[2]       # later in-place effects on the freshly built vector (label swapping) do not change which Rc handles it holds
            es = show(ev)
            cls = find_closures(ev, [])
            fresh = False
            if re.match(r"collect\(map\((slice::<impl \[T\]>::)?iter\(.*a1\.edges", es.replace("&", "").replace("*", "")) and len(cls) == 1:
                lam = Lam(opaque(F), cls[0], 1)
                if lam.paths:
                    fresh = all(re.match(r"Rc::<T>::new\(RefCell::<T>::new\(", show(q.ret)) for q in lam.paths)
                    # ... and what is re-allocated is a complete copy of the cached edge (Clone of the borrowed Edge), not an edge rebuilt from some
                    # of its parts: the self-node intersections recorded at prepare time live in the edge and are not recomputed for the clone
                    def is_whole_copy(t, d=0):
                        """Rc::new(RefCell::new(X)) with X = the borrowed cached edge itself (through clone / deref / borrow wrappers only)"""
                        for _ in range(30):
                            if not isinstance(t, tuple):
                                return False
                            if t[0] in ("&", "deref"):
                                t = t[1]
                            elif t[0] == "call" and t[1].rsplit("::", 1)[-1] in ("new", "clone", "deref", "borrow", "as_ref", "to_owned") and len(t[2]) == 1 and "Edge" not in t[1].rsplit("::", 2)[-2:][0]:
                                t = t[2][0]
                            elif t[0] == "bound":
                                return True
                            else:
                                return False
                        return False
                    whole = all(is_whole_copy(q.ret) for q in lam.paths)
                    if fresh and not whole:
                        fresh = False
                        rep.bad("R17.1", "planar:edge-copy", "the re-allocated edge is %s, not a clone of the whole cached edge: state recorded in the edge at prepare time (self-node intersections) is lost while the clone is marked as already self-noded" % show(lam.paths[0].ret)[:140], where=fn.loc())
            if fresh:
                rep.ok("R17.1", key + ":edges-reallocated", sample=es[:120])
            else:
                rep.bad("R17.1", "planar:edges", "the edges of the returned graph are %s: not one fresh Rc::new(RefCell::new(clone)) per cached edge" % es[:140], where=fn.loc())
            # swap_labels iff index differs
            swapped = any(c[1].endswith("::swap_labels") for c in calls_of(p))
            if not swapped:
                # the helper inlined: the nodes and the edges of the new graph are both traversed mutably (to swap their label arguments)
                its = [show(c[2][0]) for c in calls_of(p) if re.search(r"::(iter_mut|into_iter)$", c[1]) and c[2]]
                swapped = any(".nodes" in x or "nodes" in x for x in its) and any("edges" in x for x in its) and \
                    not any(c[1].endswith("swap_label_args") is False and False for c in calls_of(p))
            differs = None
            for t, v in p.pc:
                s = show(t)
                if re.search(r"\(a2 == a3\)|\(a3 == a2\)", s):
                    differs = (v == 0)
                if re.search(r"Not\(\(a2 == a3\)\)", s):
                    differs = (v == 1)
            if differs is None or differs != swapped:
                rep.bad("R17.3", "swap-labels", "swap_labels %s on the path where the operand index %s" % ("runs" if swapped else "does not run", {True: "changes", False: "stays", None: "is not compared"}[differs]), where=fn.loc())
            else:
                rep.ok("R17.3", "swap-labels:%s" % ("changed" if differs else "same"))
    except (KeyError, Unanalysable) as e:
        rep.bad("R17.1", "planar:anchor", str(e))
    # nodes: no interior mutability below NodeMap
    bad = []
    seen = set()

    def scan(ty, depth=0):
        if depth > 6:
            return
        for m in re.finditer(r"([A-Za-z_][A-Za-z0-9_:]*)(?=<|,|>|$|\)| )", ty):
            name = m.group(1)
            if name in seen:
                continue
            seen.add(name)
            if re.search(r"(^|::)(Rc|RefCell|Cell|Arc|Mutex|RwLock|OnceCell)$", name):
                bad.append(name)
            a = F.adts.get(name)
            if a:
                for v in a["variants"]:
                    for f in v["fields"]:
                        scan(f["ty"], depth + 1)
    pl = F.adts.get(PLG)
    if pl:
        for f in pl["variants"][0]["fields"]:
            if f["name"] == "nodes":
                scan(f["ty"])
    if bad:
        rep.bad("R17.1", "nodes-interior-mutability", "node storage contains %s: nodes.clone() would share mutable state" % bad)
    else:
        rep.ok("R17.1", "nodes-plain-data[%d types scanned]" % len(seen))


def typestate(rep, F):
    rep.rule("R17.3", "typestate of the cached graph: set_tree only from prepare_geometry; compute_self_nodes is a no-op once has_computed_self_nodes is set; the clone carries the flag; swap_labels iff the index changes")
    callers = set()
    for fn in F.lib_fns(("geo",)):
        for c in fn.calls():
            if re.search(r"GeometryGraph::<[^>]*>::set_tree$", c.path or ""):
                callers.add(fn.path)
    if callers and all(x.endswith("prepared_geometry::prepare_geometry") for x in callers):
        rep.ok("R17.3", "set_tree-callers", sample=sorted(callers))
    else:
        rep.bad("R17.3", "set_tree-callers", "set_tree is called from %s" % sorted(callers))
    try:
        fn = F.one(r"^%s::<[^>]*>::compute_self_nodes$" % GGm, crates=("geo",))
        ps = [p for p in opaque(F).run(fn) if p.kind == "ret"]
        ok = False
        for p in ps:
            flag = [v for t, v in p.pc if "has_computed_self_nodes" in show(t)]
            eff = [c for c in calls_of(p) if c[3] is not None]
            if flag and flag[0] == 1 and not eff:
                ok = True
            if flag and flag[0] == 1 and eff:
                rep.bad("R17.3", "self-nodes-guard", "compute_self_nodes does work although has_computed_self_nodes is set", where=fn.loc())
                return
        if ok:
            rep.ok("R17.3", "self-nodes-once")
        else:
            rep.bad("R17.3", "self-nodes-guard", "compute_self_nodes is not guarded by has_computed_self_nodes: a reused prepared graph would be noded again", where=fn.loc())
    except (KeyError, Unanalysable) as e:
        rep.bad("R17.3", "self-nodes:anchor", str(e))


def cached_fields(rep, F):
    rep.rule("R17.4", "prepare_geometry caches the bounding box of the geometry itself and builds the graph with operand index 0 from the same geometry")
    rep.rule("R17.5", "prepared and unprepared paths node with the same line intersector type")
    PGA = PG + "PreparedGeometry"
    try:
        fn = F.one(r"^%sprepare_geometry$" % PG, crates=("geo",))
        ex = opaque(F)
        ex.watch_adts = {PGA}
        ps = [p for p in ex.run(fn) if p.kind == "ret"]
        fields = [f["name"] for f in F.adts[PGA]["variants"][0]["fields"]]
        for p in ps:
            aggs = [e for e in p.trace if e[0] == "agg" and e[1] == PGA]
            if len(aggs) != 1:
                rep.bad("R17.4", "aggregate", "PreparedGeometry built %d times on a path" % len(aggs), where=fn.loc())
                continue
            vals = dict(zip(fields, aggs[0][3]))
            br = show(vals["bounding_rect"])
            if re.match(r"(<.*as )?(geo::algorithm::bounding_rect::)?BoundingRect(<.*>)?(>)?::bounding_rect\(.*geometry\(", br.replace("&", "").replace("*", "")) or re.match(r"bounding_rect\(.*GeometryGraph::<[^>]*>::geometry\(", br.replace("&", "").replace("*", "")):
                rep.ok("R17.4", "bounding-rect-of-geometry", sample=br[:120])
            else:
                rep.bad("R17.4", "bounding-rect-source", "the cached bounding box is %s, not geometry.bounding_rect(): the envelope shortcut of relate would use a different box than the unprepared path" % br[:160], where=fn.loc())
            news = [c for c in calls_of(p) if re.search(r"GeometryGraph::<[^>]*>::new$", c[1])]
            if len(news) == 1 and news[0][2][0] == ("const", 0):
                rep.ok("R17.4", "graph-index-0")
            else:
                rep.bad("R17.4", "graph-index", "the cached graph is not built with operand index 0", where=fn.loc())
            li = [c for c in calls_of(p) if c[1].endswith("compute_self_nodes")]
            if li and has_call(li[0][2], r"robust_line_intersector::RobustLineIntersector::new$"):
                rep.ok("R17.5", "prepared-intersector")
            else:
                rep.bad("R17.5", "prepared-intersector", "prepared graph is noded with %s" % li[:1], where=fn.loc())
    except (KeyError, Unanalysable) as e:
        rep.bad("R17.4", "anchor", str(e))
    try:
        fn = F.one(r"relate_operation::RelateOperation::<[^>]*>::new$", crates=("geo",))
        ps = [p for p in opaque(F).run(fn) if p.kind == "ret"]
        if ps and all(has_call(p.ret, r"robust_line_intersector::RobustLineIntersector::new$") for p in ps):
            rep.ok("R17.5", "unprepared-intersector")
        else:
            rep.bad("R17.5", "unprepared-intersector", "RelateOperation::new does not use RobustLineIntersector::new()", where=fn.loc())
    except (KeyError, Unanalysable) as e:
        rep.bad("R17.5", "anchor", str(e))


def candidate_pairs(rep, F, rule="R17.7"):
    """The edge-set intersector that both plain and prepared operands are noded by: every candidate pair the segment index reports is handed to
    SegmentIntersector::add_intersections with the edges of the graph it came from - between two graphs without any filter (whether or not
    the two graphs share one cached index, e.g. prepared.relate(&prepared)), within one graph with the single documented exception
    `same edge and not check_for_self_intersecting_edges`.  A pair that is filtered is an intersection that is never noded."""
    from ..symex import bare
    rep.rule(rule, "RStarEdgeSetIntersector: between two graphs every candidate pair reaches add_intersections(edges_0[s0.edge_idx], s0.segment_idx, edges_1[s1.edge_idx], s1.segment_idx) unconditionally; "
                   "within one graph a pair is skipped only when it is the same edge and self-intersections are not checked")
    NEXT = r"next\((?:havoc\()*into_iter\(intersection_candidates_with_other_tree\(.*?\)\)\)*\)"
    for nm, g0, g1 in (("compute_intersections_between_sets", "a2", "a3"), ("compute_intersections_within_set", "a2", "a2")):
        key = "candidates:" + nm
        try:
            fn = F.one(r"RStarEdgeSetIntersector as .*EdgeSetIntersector<F>>::%s$" % nm, crates=("geo",))
            # helpers of the crate are inlined (an extracted `add_candidate(..)` is the same code); the graph accessors, the index and the sink stay symbols
            paths = Symex(F, inline_crates=("geo",), loop_bound=2, max_paths=5000,
                          no_inline=[r"::add_intersections$", r"::get_or_build_tree$", r"GeometryGraph.*::edges$", r"intersection_candidates", r"::deref$"]).run(fn)
        except (KeyError, Unanalysable) as e:
            rep.bad(rule, key + ":unanalysable", str(e))
            continue
        bad = None
        n_calls = 0
        for p in paths:
            if p.kind == "panic":
                continue
            items = []          # (iterator-state string, skip-allowed?)
            flags = {}
            for t, v in p.pc:
                b = bare(t)
                m = re.match(r"^discr\((%s)\)$" % NEXT, b)
                if m:
                    if v == 1:
                        items.append(m.group(1))
                    continue
                if nm.endswith("within_set"):
                    if b == "a3":
                        flags["check"] = v
                        continue
                    m = re.match(r"^\(\((.*) as Some\)\.0\.0\.edge_idx (==|!=) \((.*) as Some\)\.0\.1\.edge_idx\)$", b)
                    if m and m.group(1) == m.group(3):
                        same = (v == 1) if m.group(2) == "==" else (v == 0)
                        flags[m.group(1)] = same
                        continue
                bad = ("filter", "%s decides on `%s`: candidate pairs reported by the segment index can be dropped before they are intersected" % (nm, b[:160]))
                break
            if bad:
                break
            calls = [c for c in calls_of(p) if c[1].endswith("::add_intersections")]
            want = []
            for it in items:
                if nm.endswith("within_set") and flags.get("check") == 0 and flags.get(it) is True:
                    continue
                if nm.endswith("within_set") and flags.get("check") == 0 and it not in flags:
                    continue        # the path was cut / the comparison not reached
                want.append(it)
            if p.kind == "cut":
                # the last item of a cut path may not have been processed yet
                if len(calls) < len(want) - 1:
                    bad = ("missing", "%d candidate pairs but %d calls of add_intersections" % (len(want), len(calls)))
                    break
            elif len(calls) != len(want):
                bad = ("missing", "%d candidate pairs to intersect but %d calls of add_intersections [%s]" % (len(want), len(calls), show_pc(p.pc)[:200]))
                break
            for c, it in zip(calls, want):
                a = [bare(x) for x in c[2]]
                exp = ["deref(edges(%s)[(%s as Some).0.0.edge_idx])" % (g0, it), "(%s as Some).0.0.segment_idx" % it,
                       "deref(edges(%s)[(%s as Some).0.1.edge_idx])" % (g1, it), "(%s as Some).0.1.segment_idx" % it]
                norm = lambda s_: s_.replace("&", "").replace("*", "")
                if [norm(x) for x in a[1:5]] != [norm(x) for x in exp]:
                    bad = ("operands", "add_intersections is called with (%s), expected the candidate's own (edges_0[s0.edge_idx], s0.segment_idx, edges_1[s1.edge_idx], s1.segment_idx)" % ", ".join(x[-60:] for x in a[1:5]))
                    break
                n_calls += 1
            if bad:
                break
        if bad:
            rep.bad(rule, key + ":" + bad[0], bad[1], where=fn.loc())
        elif n_calls < 3:
            rep.bad(rule, key + ":floor", "only %d add_intersections calls seen" % n_calls, where=fn.loc())
        else:
            rep.ok(rule, "%s[%d paths, %d calls]" % (key, len(paths), n_calls))


def cow_dimensions(rep, F, rule="R17.6"):
    """PreparedGeometry answers is_empty / dimensions / boundary_dimensions through the GeometryCow it caches (the plain operand answers with
    its own impl): for every variant each of the three is exactly the wrapped geometry's own method - the disjoint-envelope shortcut of relate
    writes these values into the matrix, so a prepared ring with a 0-dimensional 'boundary' gives another matrix than the plain ring."""
    from ..symex import bare
    rep.rule(rule, "GeometryCow (what a PreparedGeometry answers HasDimensions with): for every variant is_empty / dimensions / boundary_dimensions return the wrapped geometry's own is_empty / dimensions / boundary_dimensions, unconditionally")
    COW = "geo::geometry_cow::GeometryCow"
    HD = "geo::algorithm::dimensions::HasDimensions"
    try:
        variants = [v["name"] for v in F.adts[COW]["variants"]]
    except KeyError:
        rep.bad(rule, "cow:anchor", "GeometryCow not found")
        return
    n = 0
    for meth in ("is_empty", "dimensions", "boundary_dimensions"):
        try:
            fn = F.impl_method(HD, r"geometry_cow::GeometryCow<'_, C>$", None, meth, crates=("geo",))
        except KeyError as e:
            rep.bad(rule, "cow:%s:anchor" % meth, str(e))
            continue
        for v in variants:
            arg = ("&", ("adt", COW, v, (("opaque", "inner"),)))
            try:
                ps = [p for p in opaque(F, max_paths=500).run(fn, args=[arg]) if p.kind != "cut"]
            except Unanalysable as e:
                rep.bad(rule, "cow:%s:%s:unanalysable" % (meth, v), str(e), where=fn.loc())
                continue
            ok = len(ps) == 1 and ps[0].kind == "ret" and not ps[0].pc
            r = bare(ps[0].ret) if ps else ""
            if ok:
                m = re.match(r"^(\w+)\((.*)\)$", r)
                ok = bool(m) and m.group(1) == meth and "opaque(inner)" in m.group(2) and not re.search(r"\b(dimensions|boundary_dimensions|is_empty|boundary)\(", m.group(2))
            if ok:
                n += 1
                rep.ok(rule, "cow:%s:%s" % (meth, v))
            else:
                rep.bad(rule, "cow:%s:%s" % (meth, v), "GeometryCow::%s.%s() is %s on %d path(s): not the wrapped geometry's own %s" % (v, meth, r[:120], len(ps), meth), where=fn.loc())
    rep.floor(rule, "GeometryCow delegations", n, 30)
