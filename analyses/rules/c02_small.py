"""R2.7 — every loop-free Intersects / Contains impl between the five "small" types (Coord, Point, Line, Rect, Triangle)
is tabulated from MIR and compared with exact reference geometry of convex sets on an integer witness catalogue.

All five types denote convex sets (a point, a segment, a filled axis-parallel rectangle, a filled triangle), so the
reference is short and exact:
  intersects(A, B)  <=>  a vertex of one lies in the other, or two boundary segments meet
  contains(A, B)    <=>  every vertex of B lies in closed A, and B does not lie in the boundary of A
                          (dim A = 2: not all vertices of B on one edge of A; dim A = 1: B is not a single end point of A)
which is the DE-9IM `T*****FF*` for convex operands.  Degenerate rectangles / triangles (zero area) are outside the
property's domain (valid geometries) and are not in the catalogue; zero-length lines are included (they are handled
explicitly by the kernels and mean a point).

Which pairs are tabulated is decided from the dispatch class of the impl rustc selects (relate fall-backs and impls
that loop over a converted polygon are left to the other rules).  A pair that is tabulated today (TABULATED) must stay
tabulatable: otherwise its decisions are no longer a function of orientation signs and coordinate comparisons.
A *new* loop-free kernel is tabulated like the others, so it is decided on its merits instead of being flagged as unknown.
"""
import itertools
from ..symex import Symex, Unanalysable, show_pc
from ..evalterm import Evaluator, NoModel, orient
from .c02_kernels import Tree, CALLS, HELPERS, C, on_segment, tri_position, rect_position, fmt, INTERSECTS, CONTAINS

SMALL = ["Coord", "Point", "Line", "Rect", "Triangle"]
# pairs whose selected impl is tabulated on the pinned tree (confirmed by running this rule); floor of the rule
TABULATED = {
    "intersects": 20,
    "contains": 13,
}


# ---------------------------------------------------------------- reference geometry of convex sets
def verts(kind, v):
    if kind == "Coord":
        return [v]
    if kind == "Point":
        return [v["0"]]
    if kind == "Line":
        return [v["start"]] if v["start"] == v["end"] else [v["start"], v["end"]]
    if kind == "Rect":
        mn, mx = v["min"], v["max"]
        return [C(mn["x"], mn["y"]), C(mx["x"], mn["y"]), C(mx["x"], mx["y"]), C(mn["x"], mx["y"])]
    if kind == "Triangle":
        return [v["0"], v["1"], v["2"]]
    raise KeyError(kind)


def dim(kind, v):
    n = len(verts(kind, v))
    return 0 if n == 1 else 1 if n == 2 else 2


def edges(vs):
    if len(vs) == 1:
        return []
    if len(vs) == 2:
        return [(vs[0], vs[1])]
    return [(vs[i], vs[(i + 1) % len(vs)]) for i in range(len(vs))]


def in_closed(kind, v, p):
    vs = verts(kind, v)
    if len(vs) == 1:
        return vs[0] == p
    if len(vs) == 2:
        return on_segment(p, vs[0], vs[1])
    if kind == "Rect":
        return rect_position(v, p) != "Outside"
    return tri_position(v, p) != "Outside"


def seg_meet(a, b):
    (p1, p2), (q1, q2) = a, b
    if on_segment(q1, p1, p2) or on_segment(q2, p1, p2) or on_segment(p1, q1, q2) or on_segment(p2, q1, q2):
        return True
    o1, o2, o3, o4 = orient(p1, p2, q1), orient(p1, p2, q2), orient(q1, q2, p1), orient(q1, q2, p2)
    return o1 != o2 and o3 != o4 and "Collinear" not in (o1, o2, o3, o4)


def ref_intersects(ka, a, kb, b):
    va, vb = verts(ka, a), verts(kb, b)
    if any(in_closed(ka, a, p) for p in vb) or any(in_closed(kb, b, p) for p in va):
        return True
    return any(seg_meet(e, f) for e in edges(va) for f in edges(vb))


def ref_contains(ka, a, kb, b):
    va, vb = verts(ka, a), verts(kb, b)
    if not all(in_closed(ka, a, p) for p in vb):
        return False
    da = dim(ka, a)
    if da == 0:
        return True
    if da == 1:
        return not (len(vb) == 1 and vb[0] in va)
    return not any(all(on_segment(p, e[0], e[1]) for p in vb) for e in edges(va))


# ---------------------------------------------------------------- witness values
PTS = [C(x, y) for x in range(4) for y in range(4)]
PTS3 = [C(x, y) for x in range(3) for y in range(3)]


def values(kind, role):
    """role 'a' (self) gets the small catalogue, role 'b' the wide one"""
    if kind == "Coord":
        return PTS
    if kind == "Point":
        return [{"0": p} for p in PTS]
    from ..report import thorough
    if thorough():
        role = "b" if kind != "Triangle" else role
    if kind == "Line":
        pts = PTS3 if role == "a" else PTS
        out = [{"start": s, "end": e} for s, e in itertools.product(pts, repeat=2)]
        return out if role == "a" else out[::2] + [{"start": p, "end": p} for p in PTS]
    if kind == "Rect":
        iv = [(0, 2), (0, 3), (1, 2), (1, 3), (2, 3)] if role == "a" else [(0, 1), (0, 2), (0, 3), (1, 2), (1, 3), (2, 3)]
        return [{"min": C(x0, y0), "max": C(x1, y1)} for (x0, x1), (y0, y1) in itertools.product(iv, repeat=2)]
    if kind == "Triangle":
        out = []
        pts = PTS3
        for a, b, c in itertools.product(pts, repeat=3):
            if orient(a, b, c) != "Collinear":
                out.append({"0": a, "1": b, "2": c})
        return out[::7] if role == "a" else out[::11]
    raise KeyError(kind)


class Recorder:
    """stand-in for the report inside a worker process: records the calls, the parent replays them"""
    def __init__(self):
        self.log = []
        self.info = {}

    def ok(self, *a, **kw):
        self.log.append(("ok", a, kw))

    def bad(self, *a, **kw):
        self.log.append(("bad", a, kw))


_CTX = {}


def _work(job):
    name, a, b = job
    F, D, ref = _CTX["F"], _CTX[name][0], _CTX[name][1]
    inst, fn = D.impl_instance(a, b)
    rec = Recorder()
    res = tabulate(rec, F, D, inst, fn, "%s:%s-%s" % (name, a, b), a, b, ref)
    return name, res, rec.log, rec.info


def run(rep, F, D_int, D_con, tier):
    import multiprocessing as mp
    import os
    rep.rule("R2.7", "every loop-free Intersects / Contains impl between Coord, Point, Line, Rect, Triangle: the MIR decision table agrees with the exact "
                     "reference for convex sets on every witness of the catalogue (a new kernel is tabulated too)")
    jobs = []
    _CTX.update({"F": F, "intersects": (D_int, ref_intersects), "contains": (D_con, ref_contains)})
    for name, D in (("intersects", D_int), ("contains", D_con)):
        for a in SMALL:
            for b in SMALL:
                inst, fn = D.impl_instance(a, b)
                if fn is None:
                    continue
                if D.summarise(inst, fn).cls == "relate":
                    continue
                jobs.append((name, a, b))
    done = {"intersects": 0, "contains": 0}
    nproc = min(len(jobs), max(1, (os.cpu_count() or 2) - 1), 12)
    try:
        ctx = mp.get_context("fork")
        with ctx.Pool(nproc) as pool:
            results = pool.map(_work, jobs, chunksize=1)
    except (OSError, ValueError):
        results = [_work(j) for j in jobs]
    for name, res, log, info in results:
        if res:
            done[name] += 1
        for kind, a, kw in log:
            getattr(rep, kind)(*a, **kw)
        for k, v in info.items():
            rep.info.setdefault(k, []).extend(v)
    for name in ("intersects", "contains"):
        rep.floor("R2.7", "%s pairs tabulated" % name, done[name], TABULATED[name])


def tabulate(rep, F, D, inst, fn, key, a, b, ref):
    ex = Symex(F, no_inline=HELPERS + [r"Relate::relate$", r"::to_polygon$", r"coordinate_position$", r"::orient2d$"], max_paths=20000, mono=D.M, budget_s=60, concrete_iters=True, loop_bound=6)
    try:
        paths = ex.run(fn, inst=inst)
    except Unanalysable as e:
        rep.info.setdefault("small_pairs_not_tabulated", []).append("%s (%s)" % (key, str(e)[:60]))
        return False
    rets = [p for p in paths if p.kind == "ret"]
    if any(p.kind == "cut" for p in paths) or not rets:
        rep.info.setdefault("small_pairs_not_tabulated", []).append("%s (loops)" % key)
        return False
    # calls that stay uninterpreted (relate, to_polygon ...) make the pair a non-kernel: not tabulated here
    tree = Tree(rets)
    n = 0
    for va in values(a, "a"):
        for vb in values(b, "b"):
            ev = Evaluator(F, {("arg", 1): va, ("arg", 2): vb}, CALLS)
            try:
                hit = tree.select(ev)
                if len(hit) != 1:
                    rep.bad("R2.7", key, "witness %s / %s selects %d rows of the decision table" % (fmt(va), fmt(vb), len(hit)), where=fn.loc())
                    return True
                got = bool(ev.ev(hit[0].ret))
            except NoModel as e:
                if n == 0:
                    rep.info.setdefault("small_pairs_not_tabulated", []).append("%s (%s)" % (key, str(e)[:60]))
                    return False
                rep.bad("R2.7", key + ":non-abstractable", "a decision is not a function of orientation signs, coordinate comparisons and verified helpers (%s)" % e, where=fn.loc())
                return True
            want = ref(a, va, b, vb)
            n += 1
            if got != want:
                rep.bad("R2.7", key, "%s %s, %s %s: the decision table of the selected impl gives %s, exact geometry gives %s  [row: %s]" % (
                    a, fmt(va), b, fmt(vb), got, want, show_pc(hit[0].pc)[:300]), where=fn.loc(),
                    detail={"self": fmt(va), "other": fmt(vb), "got": got, "want": want})
                return True
    rep.ok("R2.7", "%s[%d witnesses, %d rows]" % (key, n, len(rets)), sample={"pair": key, "witnesses": n, "rows": len(rets)})
    return True
