"""R2.7 — every loop-free Intersects / Contains impl between the five "small" types (Coord, Point, Line, Rect, Triangle)
is tabulated from MIR and compared with exact reference geometry of convex sets on an integer witness catalogue.

All five types denote convex sets (a point, a segment, a filled axis-parallel rectangle, a filled triangle), so the
reference is short and exact:
  intersects(A, B)  <=>  a vertex of one lies in the other, or two boundary segments meet
  contains(A, B)    <=>  every vertex of B lies in closed A, and B does not lie in the boundary of A
                          (dim A = 2: not all vertices of B on one edge of A; dim A = 1: B is not a single end point of A)
which is the DE-9IM `T*****FF*` for convex operands.  Degenerate rectangles / triangles (zero area) are outside the
property's domain (valid geometries) and are not in the catalogue; zero-length lines are included (they are handled
explicitly by the kernels and mean a point).

Which pairs are tabulated is decided from the dispatch class of the impl rustc selects (relate fall-backs and impls
that loop over a converted polygon are left to the other rules).  A pair that is tabulated today (TABULATED) must stay
tabulatable: otherwise its decisions are no longer a function of orientation signs and coordinate comparisons.
A *new* loop-free kernel is tabulated like the others, so it is decided on its merits instead of being flagged as unknown.
"""
import itertools
from ..symex import Symex, Unanalysable, show_pc
from ..evalterm import Evaluator, NoModel, orient
from .c02_kernels import Tree, CALLS, HELPERS, C, on_segment, tri_position, rect_position, fmt, INTERSECTS, CONTAINS

SMALL = ["Coord", "Point", "Line", "Rect", "Triangle"]
# pairs whose selected impl is tabulated on the pinned tree (confirmed by running this rule); floor of the rule
TABULATED = {
    "intersects": 20,
    "contains": 13,
}


# ---------------------------------------------------------------- reference geometry of convex sets
def verts(kind, v):
    if kind == "Coord":
        return [v]
    if kind == "Point":
        return [v["0"]]
    if kind == "Line":
        return [v["start"]] if v["start"] == v["end"] else [v["start"], v["end"]]
    if kind == "Rect":
        mn, mx = v["min"], v["max"]
        return [C(mn["x"], mn["y"]), C(mx["x"], mn["y"]), C(mx["x"], mx["y"]), C(mn["x"], mx["y"])]
    if kind == "Triangle":
        return [v["0"], v["1"], v["2"]]
    raise KeyError(kind)


def dim(kind, v):
    n = len(verts(kind, v))
    return 0 if n == 1 else 1 if n == 2 else 2


def edges(vs):
    if len(vs) == 1:
        return []
    if len(vs) == 2:
        return [(vs[0], vs[1])]
    return [(vs[i], vs[(i + 1) % len(vs)]) for i in range(len(vs))]


def in_closed(kind, v, p):
    vs = verts(kind, v)
    if len(vs) == 1:
        return vs[0] == p
    if len(vs) == 2:
        return on_segment(p, vs[0], vs[1])
    if kind == "Rect":
        return rect_position(v, p) != "Outside"
    return tri_position(v, p) != "Outside"


def seg_meet(a, b):
    (p1, p2), (q1, q2) = a, b
    if on_segment(q1, p1, p2) or on_segment(q2, p1, p2) or on_segment(p1, q1, q2) or on_segment(p2, q1, q2):
        return True
    o1, o2, o3, o4 = orient(p1, p2, q1), orient(p1, p2, q2), orient(q1, q2, p1), orient(q1, q2, p2)
    return o1 != o2 and o3 != o4 and "Collinear" not in (o1, o2, o3, o4)


def ref_intersects(ka, a, kb, b):
    va, vb = verts(ka, a), verts(kb, b)
    if any(in_closed(ka, a, p) for p in vb) or any(in_closed(kb, b, p) for p in va):
        return True
    return any(seg_meet(e, f) for e in edges(va) for f in edges(vb))


def ref_contains(ka, a, kb, b):
    va, vb = verts(ka, a), verts(kb, b)
    if not all(in_closed(ka, a, p) for p in vb):
        return False
    da = dim(ka, a)
    if da == 0:
        return True
    if da == 1:
        return not (len(vb) == 1 and vb[0] in va)
    return not any(all(on_segment(p, e[0], e[1]) for p in vb) for e in edges(va))


# ---------------------------------------------------------------- witness values
PTS = [C(x, y) for x in range(4) for y in range(4)]
PTS3 = [C(x, y) for x in range(3) for y in range(3)]


def values(kind, role):
    """role 'a' (self) gets the small catalogue, role 'b' the wide one"""
    if kind == "Coord":
        return PTS
    if kind == "Point":
        return [{"0": p} for p in PTS]
    from ..report import thorough
    if thorough():
        role = "b" if kind != "Triangle" else role
    if kind == "Line":
        pts = PTS3 if role == "a" else PTS
        out = [{"start": s, "end": e} for s, e in itertools.product(pts, repeat=2)]
        return out if role == "a" else out[::2] + [{"start": p, "end": p} for p in PTS]
    if kind == "Rect":
        iv = [(0, 2), (0, 3), (1, 2), (1, 3), (2, 3)] if role == "a" else [(0, 1), (0, 2), (0, 3), (1, 2), (1, 3), (2, 3)]
        return [{"min": C(x0, y0), "max": C(x1, y1)} for (x0, x1), (y0, y1) in itertools.product(iv, repeat=2)]
    if kind == "Triangle":
        out = []
        pts = PTS3
        for a, b, c in itertools.product(pts, repeat=3):
            if orient(a, b, c) != "Collinear":
                out.append({"0": a, "1": b, "2": c})
        return out[::7] if role == "a" else out[::11]
    raise KeyError(kind)


class Recorder:
    """stand-in for the report inside a worker process: records the calls, the parent replays them"""
    def __init__(self):
        self.log = []
        self.info = {}

    def ok(self, *a, **kw):
        self.log.append(("ok", a, kw))

    def bad(self, *a, **kw):
        self.log.append(("bad", a, kw))


_CTX = {}


def _work(job):
    name, a, b = job
    F, D, ref = _CTX["F"], _CTX[name][0], _CTX[name][1]
    inst, fn = D.impl_instance(a, b)
    rec = Recorder()
    res = tabulate(rec, F, D, inst, fn, "%s:%s-%s" % (name, a, b), a, b, ref)
    return name, res, rec.log, rec.info


def run(rep, F, D_int, D_con, tier):
    import multiprocessing as mp
    import os
    rep.rule("R2.7", "every loop-free Intersects / Contains impl between Coord, Point, Line, Rect, Triangle: the MIR decision table agrees with the exact "
                     "reference for convex sets on every witness of the catalogue (a new kernel is tabulated too)")
    jobs = []
    _CTX.update({"F": F, "intersects": (D_int, ref_intersects), "contains": (D_con, ref_contains)})
    for name, D in (("intersects", D_int), ("contains", D_con)):
        for a in SMALL:
            for b in SMALL:
                inst, fn = D.impl_instance(a, b)
                if fn is None:
                    continue
                if D.summarise(inst, fn).cls == "relate":
                    continue
                jobs.append((name, a, b))
    done = {"intersects": 0, "contains": 0}
    nproc = min(len(jobs), max(1, (os.cpu_count() or 2) - 1), 12)
    try:
        ctx = mp.get_context("fork")
        with ctx.Pool(nproc) as pool:
            results = pool.map(_work, jobs, chunksize=1)
    except (OSError, ValueError):
        results = [_work(j) for j in jobs]
    for name, res, log, info in results:
        if res:
            done[name] += 1
        for kind, a, kw in log:
            getattr(rep, kind)(*a, **kw)
        for k, v in info.items():
            rep.info.setdefault(k, []).extend(v)
    for name in ("intersects", "contains"):
        rep.floor("R2.7", "%s pairs tabulated" % name, done[name], TABULATED[name])


def tabulate(rep, F, D, inst, fn, key, a, b, ref, rule="R2.7", args=None, env_of=None, va_list=None, vb_list=None, calls=None):
    ex = Symex(F, no_inline=HELPERS + [r"Relate::relate$", r"::to_polygon$", r"coordinate_position$", r"::orient2d$"], max_paths=20000, mono=D.M, budget_s=60, concrete_iters=True, loop_bound=8)
    try:
        paths = ex.run(fn, inst=inst, args=args)
    except Unanalysable as e:
        rep.info.setdefault("small_pairs_not_tabulated", []).append("%s (%s)" % (key, str(e)[:60]))
        return False
    rets = [p for p in paths if p.kind == "ret"]
    if any(p.kind == "cut" for p in paths) or not rets:
        rep.info.setdefault("small_pairs_not_tabulated", []).append("%s (loops)" % key)
        return False
    # calls that stay uninterpreted (relate, to_polygon ...) make the pair a non-kernel: not tabulated here
    tree = Tree(rets)
    n = 0
    for va in (va_list if va_list is not None else values(a, "a")):
        for vb in (vb_list if vb_list is not None else values(b, "b")):
            ev = Evaluator(F, env_of(va, vb) if env_of else {("arg", 1): va, ("arg", 2): vb}, calls or CALLS)
            try:
                hit = tree.select(ev)
                if len(hit) != 1:
                    rep.bad(rule, key, "witness %s / %s selects %d rows of the decision table" % (fmt(va), fmt(vb), len(hit)), where=fn.loc())
                    return True
                got = bool(ev.ev(hit[0].ret))
            except NoModel as e:
                if n == 0:
                    rep.info.setdefault("small_pairs_not_tabulated", []).append("%s (%s)" % (key, str(e)[:60]))
                    return False
                rep.bad(rule, key + ":non-abstractable", "a decision is not a function of orientation signs, coordinate comparisons and verified helpers (%s)" % e, where=fn.loc())
                return True
            want = ref(a, va, b, vb)
            n += 1
            if got != want:
                rep.bad(rule, key, "%s %s, %s %s: the decision table of the selected impl gives %s, exact geometry gives %s  [row: %s]" % (
                    a, fmt(va), b, fmt(vb), got, want, show_pc(hit[0].pc)[:300]), where=fn.loc(),
                    detail={"self": fmt(va), "other": fmt(vb), "got": got, "want": want})
                return True
    rep.ok(rule, "%s[%d witnesses, %d rows]" % (key, n, len(rets)), sample={"pair": key, "witnesses": n, "rows": len(rets)})
    return True



# ---------------------------------------------------------------- line strings of a concrete size (R2.10)
def ls_segments(cs):
    return [(cs[i], cs[i + 1]) for i in range(len(cs) - 1)]


def ref_intersects_ls(ka, a, kb, b):
    """a and/or b may be a list of coordinates (a line string); the others are the convex kinds"""
    def parts(k, v):
        if k.startswith("LineString"):
            return [("Line", {"start": s_, "end": e_}) for s_, e_ in ls_segments(v)]
        return [(k, v)]
    return any(ref_intersects(k1, v1, k2, v2) for k1, v1 in parts(ka, a) for k2, v2 in parts(kb, b))


def _bbox_model(ev, args):
    """BoundingRect::bounding_rect of a witness value, as Option<Rect> (R19.8 / R2.9 decide bounding_rect itself)"""
    from ..evalterm import Enum
    v = ev.ev(args[0])
    cs = []

    def walk(x):
        if isinstance(x, dict):
            if "x" in x and "y" in x and len(x) == 2:
                cs.append(x)
            else:
                for y in x.values():
                    walk(y)
        elif isinstance(x, (list, tuple)):
            for y in x:
                walk(y)
    walk(v)
    if not cs:
        return Enum("core::option::Option", "None")
    return Enum("core::option::Option", "Some", [{"min": C(min(c["x"] for c in cs), min(c["y"] for c in cs)), "max": C(max(c["x"] for c in cs), max(c["y"] for c in cs))}])


LS_CALLS = dict(CALLS)
LS_CALLS["vec!"] = lambda ev, args: ev.ev(args[0])
LS_CALLS["geo::algorithm::bounding_rect::BoundingRect::bounding_rect"] = _bbox_model


def run_linestring(rep, F, D_int, tier, rule="R2.10"):
    """Intersects between a LineString of 2 / 3 coordinates (exact unrolling of the member loop, bounding-box rejection included) and Coord,
    Point, Line, Rect, Triangle and a second LineString, in both operand orders: the decision table of the impl rustc selects agrees with
    "some segment of the line string meets the other operand" on every witness."""
    rep.rule(rule, "Intersects with a LineString operand of 2 / 3 coordinates (exact unrolling; both operand orders; Coord, Point, Line, Rect, Triangle, LineString): the decision table agrees with `some segment meets the other operand` on every witness")
    GTY = "geo_types::geometry::"
    LS = GTY + "line_string::LineString"

    def ls_arg(n, tag):
        return ("&", ("adt", LS, "LineString", (("call", "vec!", (("array", tuple(("opaque", "%s%d" % (tag, i)) for i in range(n))),)),)))
    sub = [C(0, 0), C(2, 1), C(1, 2), C(3, 3), C(0, 2)]

    def ls_values(n):
        out = [list(cs) for cs in itertools.product(sub, repeat=n)]
        return out if n == 2 else out[::3]
    n_ok = 0
    jobs = []
    for other in [k for k in SMALL if k != "Rect"] + ["LineString"]:       # Rect pairs: too many rows (each coordinate forks on four bounds)
        for n in (2, 3):
            jobs.append(("LineString", n, other, 2 if other == "LineString" else None))
            if other != "LineString":
                jobs.append((other, None, "LineString", n))
    for a, na, b, nb in jobs:
        inst, fn = D_int.impl_instance(a, b)
        key = "intersects:%s%s-%s%s" % (a, "/%d" % na if na else "", b, "/%d" % nb if nb else "")
        if fn is None:
            continue
        args = [ls_arg(na, "p") if na else ("arg", 1), ls_arg(nb, "q") if nb else ("arg", 2)]

        def env_of(va, vb, na=na, nb=nb):
            env = {}
            if na:
                env.update({("opaque", "p%d" % i): va[i] for i in range(na)})
            else:
                env[("arg", 1)] = va
            if nb:
                env.update({("opaque", "q%d" % i): vb[i] for i in range(nb)})
            else:
                env[("arg", 2)] = vb
            return env
        va_list = ls_values(na) if na else values(a, "a")[::3]
        vb_list = ls_values(nb) if nb else values(b, "b")[::3]
        ka = "LineString" if na else a
        kb = "LineString" if nb else b
        rec = Recorder()
        res = tabulate(rec, F, D_int, inst, fn, key, ka, kb, ref_intersects_ls, rule=rule, args=args, env_of=env_of, va_list=va_list, vb_list=vb_list, calls=LS_CALLS)
        for kind, a_, kw in rec.log:
            getattr(rep, kind)(*a_, **kw)
        for k_, v_ in rec.info.items():
            rep.info.setdefault(k_, []).extend(v_)
        if res and not any(kind == "bad" for kind, _, _ in rec.log):
            n_ok += 1
    rep.floor(rule, "line-string intersects tables", n_ok, 12)



# ---------------------------------------------------------------- Contains between Line and small LineStrings (R2.11)
def _on_polyline(p, segs):
    from fractions import Fraction
    for a, b in segs:
        # p = (x, y) rational; on segment a-b ?
        cross = (b["x"] - a["x"]) * (p[1] - a["y"]) - (b["y"] - a["y"]) * (p[0] - a["x"])
        if cross != 0:
            continue
        if min(a["x"], b["x"]) <= p[0] <= max(a["x"], b["x"]) and min(a["y"], b["y"]) <= p[1] <= max(a["y"], b["y"]):
            return True
    return False


def ref_contains_linear(ka, a, kb, b):
    """DE-9IM contains (T*****FF*) for one-dimensional operands given as coordinate lists (a Line is a two-element list)."""
    from fractions import Fraction

    def coords(k, v):
        return [v["start"], v["end"]] if k == "Line" else list(v)
    ca, cb = coords(ka, a), coords(kb, b)
    sa = [(ca[i], ca[i + 1]) for i in range(len(ca) - 1)]
    sb = [(cb[i], cb[i + 1]) for i in range(len(cb) - 1)]
    pts_a = ca
    # B inside A as point sets
    for s0, s1 in sb:
        if s0 == s1:
            if not _on_polyline((Fraction(s0["x"]), Fraction(s0["y"])), sa):
                return False
            continue
        ts = {Fraction(0), Fraction(1)}
        dx, dy = s1["x"] - s0["x"], s1["y"] - s0["y"]
        for v in pts_a:
            cr = dx * (v["y"] - s0["y"]) - dy * (v["x"] - s0["x"])
            if cr == 0:
                t = Fraction((v["x"] - s0["x"]) * dx + (v["y"] - s0["y"]) * dy, dx * dx + dy * dy)
                if 0 < t < 1:
                    ts.add(t)
        ts = sorted(ts)
        for t in ts + [(ts[i] + ts[i + 1]) / 2 for i in range(len(ts) - 1)]:
            if not _on_polyline((s0["x"] + t * dx, s0["y"] + t * dy), sa):
                return False
    distinct_b = [c for i, c in enumerate(cb) if c not in cb[:i]]
    if len(distinct_b) > 1:
        return True          # a curve inside A meets A's interior (A's boundary is finite)
    # B is a single point: it must lie in the interior of A (mod-2 boundary: the end points of an open curve)
    pt = distinct_b[0]
    distinct_a = [c for i, c in enumerate(ca) if c not in ca[:i]]
    if len(distinct_a) == 1:
        return distinct_a[0] == pt
    boundary = [] if ca[0] == ca[-1] else [ca[0], ca[-1]]
    return pt not in boundary


def run_linear_contains(rep, F, D_con, tier, rule="R2.11"):
    """Contains between a Line and LineStrings of 2 / 3 coordinates (exact unrolling): Line >= LineString(2, 3), LineString(2) >= Line,
    LineString(2) >= LineString(2): the decision table of the selected impl agrees with the point-set definition (every point of b on a, and
    their interiors meet) on every witness of a 3x3 grid.  Larger line strings are loop kernels beyond a bounded table (not decided)."""
    rep.rule(rule, "Contains between Line and LineStrings of 2 / 3 coordinates (exact unrolling): the decision table agrees with `every point of b lies on a and the interiors meet` on every grid witness")
    GTY = "geo_types::geometry::"
    LS = GTY + "line_string::LineString"

    def ls_arg(n, tag):
        return ("&", ("adt", LS, "LineString", (("call", "vec!", (("array", tuple(("opaque", "%s%d" % (tag, i)) for i in range(n))),)),)))
    line_vals = [{"start": s_, "end": e_} for s_, e_ in itertools.product(PTS3, repeat=2)]
    sub = [C(0, 0), C(1, 1), C(2, 2), C(2, 0), C(1, 0)]

    def ls_values(n):
        return [list(cs) for cs in itertools.product(sub, repeat=n)]
    n_ok = 0
    for a, na, b, nb in (("Line", None, "LineString", 2), ("Line", None, "LineString", 3), ("LineString", 2, "Line", None), ("LineString", 2, "LineString", 2)):
        inst, fn = D_con.impl_instance(a, b)
        key = "contains:%s%s-%s%s" % (a, "/%d" % na if na else "", b, "/%d" % nb if nb else "")
        if fn is None:
            continue
        args = [ls_arg(na, "p") if na else ("arg", 1), ls_arg(nb, "q") if nb else ("arg", 2)]

        def env_of(va, vb, na=na, nb=nb):
            env = {}
            if na:
                env.update({("opaque", "p%d" % i): va[i] for i in range(na)})
            else:
                env[("arg", 1)] = va
            if nb:
                env.update({("opaque", "q%d" % i): vb[i] for i in range(nb)})
            else:
                env[("arg", 2)] = vb
            return env
        va_list = ls_values(na) if na else line_vals
        vb_list = ls_values(nb) if nb else line_vals
        rec = Recorder()
        res = tabulate(rec, F, D_con, inst, fn, key, "LineString" if na else a, "LineString" if nb else b, ref_contains_linear, rule=rule, args=args, env_of=env_of,
                       va_list=va_list, vb_list=vb_list, calls=LS_CALLS)
        for kind, a_, kw in rec.log:
            getattr(rep, kind)(*a_, **kw)
        for k_, v_ in rec.info.items():
            rep.info.setdefault(k_, []).extend(v_)
        if res and not any(kind == "bad" for kind, _, _ in rec.log):
            n_ok += 1
    rep.floor(rule, "linear contains tables", n_ok, 4)


# ---------------------------------------------------------------- Contains folds over collections (R2.12)
def run_contains_folds(rep, F, rule="R2.12"):
    """The hand-written Contains impls that fold over the members of a collection, on collections of 0..3 abstract members with the member
    predicates (contains / intersects / equality of a member with the other operand) as free booleans, every consistent assignment:
      Point ⊇ Multi* / GeometryCollection  = the collection is not empty and the point contains EVERY member;
      MultiPolygon ⊇ MultiPoint            = neither is empty, EVERY point intersects the multi polygon and SOME point is in its interior;
      MultiPoint / MultiPolygon / GeometryCollection ⊇ Coord = SOME member contains it (members are disjoint in the property's domain)."""
    import itertools
    import re
    from ..symex import bare
    from .c02_kernels import GT
    rep.rule(rule, "Contains folds over collections (0..3 abstract members, every assignment of the member predicates): Point ⊇ collection = non-empty and all members contained; "
                   "MultiPolygon ⊇ MultiPoint = both non-empty, all points intersect, some point is interior; collection ⊇ Coord = some member contains it")
    P = GT + "point::Point"
    O = lambda n: ("opaque", n)

    def vec(items):
        return ("call", "vec!", (("array", tuple(items)),))
    coll = {
        "MultiPoint": lambda ms: ("adt", GT + "multi_point::MultiPoint", "MultiPoint", (vec(ms),)),
        "MultiLineString": lambda ms: ("adt", GT + "multi_line_string::MultiLineString", "MultiLineString", (vec(ms),)),
        "MultiPolygon": lambda ms: ("adt", GT + "multi_polygon::MultiPolygon", "MultiPolygon", (vec(ms),)),
        "GeometryCollection": lambda ms: ("adt", GT + "geometry_collection::GeometryCollection", "GeometryCollection", (vec(ms),)),
    }
    cases = []
    for c in ("MultiPoint", "MultiLineString", "MultiPolygon", "GeometryCollection"):
        cases.append(("Point⊇%s" % c, r"point::Point<T>$", r"%s<T>$" % coll[c](())[1].replace(GT, "").replace("::", "::"), "rhs", c, "all"))
    cases.append(("MultiPolygon⊇MultiPoint", r"multi_polygon::MultiPolygon<T>$", r"multi_point::MultiPoint<T>$", "rhs", "MultiPoint", "all-any"))
    for c in ("MultiPoint", "MultiPolygon", "GeometryCollection"):
        cases.append(("%s⊇Coord" % c, r"%s<T>$" % coll[c](())[1].replace(GT, ""), r"coord::Coord<T>$", "self", c, "any"))
    n_ok = 0
    for key, sre, rre, side, cname, law in cases:
        try:
            fn = F.impl_method(CONTAINS, sre, rre, "contains", crates=("geo",))
        except KeyError as e:
            rep.bad(rule, "fold:%s:anchor" % key, str(e))
            continue
        bad = None
        n = 0
        for K in range(4):
            members = [O("m%d" % i) for i in range(K)]
            cval = ("&", coll[cname](members))
            other = ("&", O("x"))
            args = [other, cval] if side == "rhs" else [cval, other]
            ex = Symex(F, concrete_iters=True, loop_bound=K + 4, max_paths=20000, budget_s=30, inline_crates=("geo", "geo_types"),
                       no_inline=[r"Contains<.*>>::contains$", r"Intersects<.*>>::intersects$", r"::contains$", r"::intersects$", r"HasDimensions>::is_empty$"])
            ex.resolve_by_receiver = False
            try:
                paths = [p for p in ex.run(fn, args=args) if p.kind != "cut"]
            except Unanalysable as e:
                bad = ("unanalysable", "%d member(s): %s" % (K, e))
                break
            for p in paths:
                if p.kind != "ret":
                    bad = ("paths", "a path does not return")
                    break
                # member predicates decided on this path
                val = {}
                other_atoms = []
                for t, v in p.pc:
                    b = bare(t)
                    m = re.match(r"^(contains|intersects)\((.*)\)$", b)
                    mi = re.findall(r"opaque\(m(\d)\)", b)
                    if m and len(set(mi)) == 1 and "opaque(x)" in b:
                        val[(m.group(1), int(mi[0]))] = bool(v)
                        continue
                    m2 = re.match(r"^\((.*) == (.*)\)$", b)
                    if m2 and len(set(mi)) == 1 and "opaque(x)" in b:
                        val[("contains", int(mi[0]))] = bool(v)       # equality of a member point with the coordinate = that member contains it
                        continue
                    if re.match(r"^is_empty\(", b):
                        val[("empty", "self" if "opaque(x)" in b else "coll")] = bool(v)
                        continue
                    other_atoms.append(b)
                if val.get(("empty", "coll")) is False and K == 0:
                    continue                   # infeasible: a collection without members is empty
                if other_atoms:
                    bad = ("other-decision", "decides on `%s`, which is not a predicate of one member against the other operand" % other_atoms[0][:120])
                    break
                r = p.ret
                if r[0] != "const":
                    # the result is itself a member predicate (tail position): both values
                    b = bare(r)
                    m = re.match(r"^(contains|intersects)\((.*)\)$", b)
                    mi = re.findall(r"opaque\(m(\d)\)", b)
                    if not (m and len(set(mi)) == 1):
                        bad = ("result", "returns `%s`" % b[:120])
                        break
                    outcomes = [(dict(val, **{(m.group(1), int(mi[0])): x}), x) for x in (False, True)]
                else:
                    outcomes = [(val, bool(r[1]))]
                for v_, got in outcomes:
                    # every completion of the undecided member predicates must give the same answer as the law (short-circuit evaluation leaves some undecided)
                    free = [(kind_, i) for kind_ in (("contains", "intersects") if law == "all-any" else ("contains",)) for i in range(K) if (kind_, i) not in v_]
                    wants = set()
                    for bits in itertools.product((False, True), repeat=len(free)):
                        a = dict(v_)
                        a.update(dict(zip(free, bits)))
                        if any(a.get(("contains", i)) and a.get(("intersects", i)) is False for i in range(K)):
                            continue           # interior implies intersects
                        if v_.get(("empty", "self")) or v_.get(("empty", "coll")):
                            wants.add(False)
                            continue
                        if law == "all":
                            wants.add(K > 0 and all(a[("contains", i)] for i in range(K)))
                        elif law == "any":
                            wants.add(any(a[("contains", i)] for i in range(K)))
                        else:
                            wants.add(K > 0 and all(a[("intersects", i)] or a[("contains", i)] for i in range(K)) and any(a[("contains", i)] for i in range(K)))
                    n += 1
                    if wants != {got}:
                        bad = ("table", "%d member(s), member predicates %s: returns %s, the law gives %s" % (
                            K, {"%s(m%s)" % k: x for k, x in v_.items()}, got, sorted(wants)))
                        break
                if bad:
                    break
            if bad:
                break
        if bad:
            rep.bad(rule, "fold:%s:%s" % (key, bad[0]), "%s: %s" % (key, bad[1]), where=fn.loc())
        else:
            n_ok += 1
            rep.ok(rule, "fold:%s[%d rows, 0..3 members]" % (key, n))
    rep.floor(rule, "contains folds", n_ok, 8)
