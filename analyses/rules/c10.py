"""C10 — triangulations and monotone subdivision: two structural clauses plus fold checks.

 R10.1 ear-cut layout agreement: the writer flattens every ring as x then y (two scalars per vertex), hole start indices are
       vertices.len()/2 taken *before* the hole is written, `dims` = 2, and the reader decodes vertex i as
       (vertices[2*i], vertices[2*i+1]); triangle corners are therefore polygon vertices
 R10.2 MonoPoly::calculate_coordinate_position: a coordinate collinear with the bounding top/bottom segment is reported on
       the boundary only if it lies within that segment (table on integer witnesses incl. vertical segments)
 R10.3 stitching: the exterior among several rings is the one that contains ALL the others
 R10.6 stitching: a ring is a hole of a parent ring iff Polygon(parent).contains(the whole ring) — the DE-9IM predicate on the ring, not a
       vertex sample (all vertices of a hole may lie on the parent's outline)
 R10.4 monotone builder: in every `X.finish_with(Y)` X is a lower and Y an upper chain: a chain fetched through the first entry of a
       `help` pair (top chain of the region below a merge vertex) is never the receiver, one fetched through the second entry (bottom
       chain of the region above) never the argument
 R10.5 monotone builder: every way through the arms that continue an incoming chain updates the helper of the segment below
       (textbook invariant helper(e_j) <- v_i), unless there is no segment below
Not decided: tiling / no overlap, Delaunay (spade), areas of stitched polygons, correctness of the sweep as a whole.
"""
import itertools
import re
from ..facts import Facts, short
from ..symex import Symex, Unanalysable, show, show_pc, bare
from ..dispatch import Lam, find_closures
from ..evalterm import Evaluator, Enum, NoModel, orient
from .c01 import opaque, calls_of
from .c02_kernels import Tree, CALLS, C, fmt, on_segment, position_of

LEVEL = "other"
EC = "geo::algorithm::triangulate_earcut::"


def run(rep, tier):
    rep.explanation = ("Writer/reader layout agreement of the ear-cut hand-off (terms of the index arithmetic), the decision table of MonoPoly's point "
                       "location on witnesses with vertical bounding segments, and the fold kind of the ring classification in stitch. Tiling, "
                       "disjointness, Delaunay faces and area conservation depend on the external triangulators / data and are not decided.")
    rep.trusted = ["rustc MIR", "earcutr / spade (dependencies)", "reference geometry in analyses/rules/c02_kernels.py"]
    rep.assumptions = ["valid polygons"]
    F = Facts("default")
    earcut_layout(rep, F)
    monopoly_position(rep, F)
    snap_table(rep, F)
    # every exact predicate this property rests on is a sign of the orientation kernel (rules shared with C03)
    from . import c03 as _c03
    _c03.kernel_rules(rep, F, "R10.12")
    stitch_fold(rep, F)
    parent_test(rep, F)
    builder_roles(rep, F)
    helper_update(rep, F)
    sweep_split(rep, F)
    stitch_keeps_interiors(rep, F)
    collection_contains_point(rep, F)
    subdivision_intersects(rep, F)
    monopoly_position(rep, F)
    snap_table(rep, F)


def earcut_layout(rep, F):
    rep.rule("R10.1", "ear-cut: writer pushes x then y per vertex; hole index = vertices.len()/2 before writing the hole; earcut called with dims 2; reader decodes (v[2i], v[2i+1])")
    try:
        # writer: a polygon with an exterior of 2 coordinates and holes of 2 and 1 coordinates (exact unrolling, helpers inlined)
        g = F.one(r"^%spolygon_to_earcutr_input$" % EC, crates=("geo",))
        GTY = "geo_types::geometry::"

        def ring(name, n):
            return ("adt", GTY + "line_string::LineString", "LineString",
                    (("call", "vec!", (("array", tuple(("field", ("field", ("deref", ("arg", 1)), name), "c%d" % k) for k in range(n))),)),))
        pg = ("&", ("adt", GTY + "polygon::Polygon", "Polygon", (ring("ext", 2), ("call", "vec!", (("array", (ring("h0", 2), ring("h1", 1))),)))))
        exw = Symex(F, inline_crates=("geo", "geo_types"), no_inline=[r"coords_count$"], loop_bound=12, concrete_iters=True)
        ps = exw.run(g, args=[pg])
        want = ("EarcutrInput::EarcutrInput(vec!([a1.ext.c0.x, a1.ext.c0.y, a1.ext.c1.x, a1.ext.c1.y, a1.h0.c0.x, a1.h0.c0.y, a1.h0.c1.x, a1.h0.c1.y, a1.h1.c0.x, a1.h1.c0.y]), vec!([2, 4]))")
        got = sorted({bare(p.ret) if p.kind == "ret" else p.kind for p in ps})
        fields = [f["name"] for f in F.adts[EC + "EarcutrInput"]["variants"][0]["fields"]] if (EC + "EarcutrInput") in F.adts else []
        if got == [want] and fields == ["vertices", "interior_indexes"]:
            rep.ok("R10.1", "writer:x-then-y")
            rep.ok("R10.1", "hole-index:len/2-before-hole")
        else:
            rep.bad("R10.1", "writer", "for an exterior of 2 and holes of 2 and 1 coordinates the ear-cut input is %s (fields %s); expected all rings in order, x then y per vertex, and hole "
                    "start indices [2, 4] (vertex counts before each hole)" % ([x[:260] for x in got][:2], fields), where=g.loc())
        r = F.one(r"^%sIter::<T>::triangle_index_to_coord$" % EC, crates=("geo",))
        ps = [p for p in opaque(F).run(r) if p.kind == "ret"]
        s = bare(ps[0].ret) if ps else ""
        if re.match(r"^Coord::Coord\(a1\.0\.vertices\[\(a2 Mul 2\)\], a1\.0\.vertices\[\(\(a2 Mul 2\) Add 1\)\]\)$", s):
            rep.ok("R10.1", "reader:(v[2i],v[2i+1])")
        else:
            rep.bad("R10.1", "reader", "vertex i is decoded as %s, expected (vertices[2*i], vertices[2*i+1])" % s[:140], where=r.loc())
        # dims argument
        dims = None
        for fn in F.lib_fns(("geo",)):
            for c in fn.calls():
                if (c.path or "").endswith("earcutr::earcut"):
                    a = c.args[2] if len(c.args) > 2 else None
                    if a and "const" in a:
                        dims = a["const"].get("val")
        if dims == 2:
            rep.ok("R10.1", "dims=2")
        else:
            rep.bad("R10.1", "dims", "earcutr::earcut is called with dims = %s" % dims)
    except (KeyError, Unanalysable, IndexError) as e:
        rep.bad("R10.1", "anchor", str(e))


def monopoly_position(rep, F):
    rep.rule("R10.2", "MonoPoly position: `collinear with the bounding segment` means boundary only within the segment's extent (checked on witnesses with vertical / sloped top and bottom segments)")
    try:
        fn = F.impl_method("geo::algorithm::coordinate_position::CoordinatePosition", r"monotone::mono_poly::MonoPoly<T>$", None, "calculate_coordinate_position", crates=("geo",))
        ex = Symex(F, no_inline=[r"MonoPoly::<T>::bounding_segment$", r"::intersects$"], inline_crates=("geo",))
        paths = [p for p in ex.run(fn) if p.kind == "ret"]
    except (KeyError, Unanalysable) as e:
        rep.bad("R10.2", "anchor", str(e))
        return
    bs = None
    for p in paths:
        for t, v in p.pc:
            if t[0] == "discr" and isinstance(t[1], tuple) and t[1][0] == "call" and t[1][1].endswith("bounding_segment"):
                bs = t[1]
    if bs is None:
        rep.bad("R10.2", "shape", "bounding_segment is not consulted", where=fn.loc())
        return
    tree = Tree(paths)
    calls = dict(CALLS)
    inb = lambda ev, args: True     # the query lies in the bounds
    calls["geo::algorithm::intersects::Intersects::intersects"] = inb
    for p_ in paths:
        for t_, v_ in p_.pc:
            if t_[0] == "call" and t_[1].endswith("::intersects"):
                calls[t_[1]] = inb
    n = 0
    from ..report import thorough
    pts = [C(x, y) for x in range(4 if thorough() else 3) for y in range(4)]
    for ts, te, bs_, be in itertools.product(pts, repeat=4):
        # x-monotone segments running left to right (vertical allowed), top above or touching bottom at both ends of the common span
        if not (ts["x"] <= te["x"] and bs_["x"] <= be["x"]) or ts == te or bs_ == be:
            continue
        if (ts["x"], te["x"]) != (bs_["x"], be["x"]):
            continue
        if not (ts["y"] >= bs_["y"] and te["y"] >= be["y"]):
            continue
        top = {"start": ts, "end": te}
        bot = {"start": bs_, "end": be}
        for q in pts:
            if not (ts["x"] <= q["x"] <= te["x"]):
                continue
            env = {("arg", 2): q, bs: Enum("core::option::Option", "Some", [(top, bot)]),
                   ("field", ("as", bs, "Some"), "0"): (top, bot)}
            ev = Evaluator(F, env, calls)
            try:
                hit = tree.select(ev)
                if len(hit) != 1:
                    rep.bad("R10.2", "table", "witness selects %d rows" % len(hit), where=fn.loc())
                    return
                got = position_of(ex, ev, hit[0])
            except NoModel as e:
                rep.bad("R10.2", "non-abstractable", str(e), where=fn.loc())
                return
            n += 1
            on_t, on_b = on_segment(q, ts, te), on_segment(q, bs_, be)
            col_t = orient(ts, q, te) == "Collinear"
            col_b = orient(bs_, q, be) == "Collinear"
            # necessary condition: a coordinate collinear with a bounding segment but outside its extent is not on that boundary
            if got == "OnBoundary" and not on_t and not on_b:
                rep.bad("R10.2", "collinear-outside-extent", "with top %s, bottom %s the coordinate %s is reported on the boundary although it lies on neither segment (it is only collinear with the %s one, outside its extent): "
                        "on a vertical edge the subdivision claims points of the whole vertical line" % (fmt(top), fmt(bot), fmt(q), "top" if col_t else "bottom"), where=fn.loc(),
                        detail={"top": fmt(top), "bottom": fmt(bot), "coord": fmt(q)})
                return
            if (on_t or on_b) and got != "OnBoundary":
                rep.bad("R10.2", "on-segment-not-boundary", "with top %s, bottom %s the coordinate %s lies on a bounding segment but is reported %s" % (fmt(top), fmt(bot), fmt(q), got), where=fn.loc())
                return
    rep.ok("R10.2", "monopoly-position[%d witnesses]" % n)


def stitch_fold(rep, F):
    rep.rule("R10.3", "stitch: the outermost ring of a group is the one that contains all the other rings (an `all` fold over the others)")
    try:
        fn = F.one(r"stitch::.*find_outmost_ring$", crates=("geo",))
    except KeyError:
        fs = [f for f in F.find(r"stitch::.*find_outmost_ring", crates=("geo",)) if f.kind != "Closure"]
        if not fs:
            rep.bad("R10.3", "anchor", "find_outmost_ring not found")
            return
        fn = fs[0]
    kinds = []
    for g in [fn] + F.closures_of(fn):
        for c in g.calls():
            if c.trait == "core::iter::traits::iterator::Iterator" and c.method in ("all", "any"):
                kinds.append(c.method)
    if kinds == ["all"]:
        rep.ok("R10.3", "outmost=contains-all-others")
    else:
        rep.bad("R10.3", "outmost-fold", "the outermost ring is chosen with %s over the other rings: with `any`, a ring that contains only one of several loops is taken as exterior and the remaining loops become holes" % kinds, where=fn.loc())


def builder_roles(rep, F):
    from ..origin import Origin
    rep.rule("R10.4", "monotone builder: finish_with(lower, upper): the chain taken through help[0] is never the receiver, the chain taken through help[1] never the argument")
    try:
        fn = F.one(r"monotone::builder::Builder::<T>::process_next_pt$", crates=("geo",))
    except KeyError as e:
        rep.bad("R10.4", "anchor", str(e))
        return
    O = Origin(fn)
    n = 0
    for c in fn.calls():
        if not (c.path or "").endswith("::finish_with") or len(c.args) != 2:
            continue
        n += 1
        recv, arg = O.operand(c.args[0]), O.operand(c.args[1])

        def role(e):
            m = re.search(r"index_mut\(&\*arg1\.chains, (.*)\)\)\)$", e)
            if not m:
                return "?"
            idx = m.group(1)
            if re.search(r"as Some\)\.0\[0\]$", idx):
                return "help[0]"
            if re.search(r"as Some\)\.0\[1\]$", idx):
                return "help[1]"
            if idx.endswith(".chain_idx)"):
                return "segment"
            return "?"
        rr, ra = role(recv), role(arg)
        if rr == "?" or ra == "?":
            rep.bad("R10.4", "provenance", "the chains joined at line %s are not taken from self.chains through a segment's chain_idx or a help pair (%s / %s)" % (c.line, recv[:80], arg[:80]), where=fn.loc())
        elif rr == "help[0]" or ra == "help[1]":
            rep.bad("R10.4", "roles", "line %s joins %s.finish_with(%s): help = [top chain of the region below, bottom chain of the region above], so help[0] must be the upper (argument) "
                    "and help[1] the lower (receiver) chain of the piece; swapped, the piece's top and bottom chains are exchanged and point location in it fails" % (c.line, rr, ra), where=fn.loc())
        else:
            rep.ok("R10.4", "finish_with:%s.finish_with(%s)" % (rr, ra))
    rep.floor("R10.4", "finish_with sites", n, 6)


def helper_update(rep, F):
    from ..origin import Origin
    rep.rule("R10.5", "monotone builder: from every arm that continues an incoming chain, every way to the return passes a helper_chain.set on the segment below, or the test that there is none")
    try:
        fn = F.one(r"monotone::builder::Builder::<T>::process_next_pt$", crates=("geo",))
    except KeyError as e:
        rep.bad("R10.5", "anchor", str(e))
        return
    O = Origin(fn, stop=("in_chains", "bot_segment"))
    names = {n: p["l"] for n, p in fn.d.get("names", []) if not p["p"]}
    inch, bot = names.get("in_chains"), names.get("bot_segment")
    if inch is None or bot is None:
        rep.bad("R10.5", "anchor", "locals in_chains / bot_segment not found", where=fn.loc())
        return
    sets = set()
    for c in fn.calls():
        if (c.path or "").endswith("Cell::<T>::set") and ".helper_chain" in O.operand(c.args[0]):
            sets.add(c.bb)
    if len(sets) < 1:
        rep.bad("R10.5", "floor", "no helper_chain.set site", where=fn.loc())
        return
    # arm entries: switch on the discriminant of in_chains.0 taking the Some edge
    entries = []
    none_edges = set()
    for i, b in enumerate(fn.blocks):
        t = b["t"]
        if t.get("k") != "switch":
            continue
        d = O.operand(t["discr"])
        tg = dict((v, bb) for v, bb in t["targets"])
        if d == "discr(in_chains.0)":
            some = tg.get(1, t["otherwise"] if 1 not in tg else None)
            if some is not None:
                entries.append(some)
        if d == "discr(bot_segment)":
            none = tg.get(0, t["otherwise"] if 0 not in tg else None)
            if none is not None:
                none_edges.add((i, none))
    if not entries:
        rep.bad("R10.5", "shape", "the match on in_chains was not found", where=fn.loc())
        return
    rets = set(fn.return_blocks())
    for e in entries:
        seen, todo, bad = set(), [e], None
        while todo:
            x = todo.pop()
            if x in seen or x in sets:
                continue
            seen.add(x)
            if x in rets:
                bad = x
                break
            for y in fn.succ(x):
                if (x, y) in none_edges:
                    continue
                todo.append(y)
        if bad is not None:
            rep.bad("R10.5", "helper-not-updated", "from the arm at bb%d (an incoming chain is continued at this event) the return is reachable without helper_chain.set on the segment below "
                    "and without finding that there is no such segment: a later split vertex above that segment is then connected to a stale helper chain" % e, where=fn.loc())
        else:
            rep.ok("R10.5", "arm@in_chains.0=Some")


def parent_test(rep, F):
    rep.rule("R10.6", "stitch: the parent test of find_parent_idxs is <Polygon as Contains<LineString>>::contains(Polygon::new(parent, []), ring), with no fold over the ring's coordinates")
    fs = [f for f in F.find(r"stitch::stitch_multipolygon_from_lines::find_parent_idxs", crates=("geo",))]
    if not fs:
        rep.bad("R10.6", "anchor", "find_parent_idxs not found")
        return
    tests = []
    folds = []
    for g in fs:
        for c in g.calls():
            if c.method in ("contains", "intersects", "within", "coordinate_position", "is_contains") and (c.trait or "").startswith("geo::"):
                tests.append((g, c, [str(t) for t in c.raw.get("arg_tys", [])]))
            if c.trait == "core::iter::traits::iterator::Iterator" and c.method in ("any", "all"):
                folds.append((g, c))
    good = len(tests) == 1 and tests[0][1].method == "contains" and len(tests[0][2]) == 2 and tests[0][2][0].endswith("polygon::Polygon<F>") and tests[0][2][1].endswith("line_string::LineString<F>") and not folds
    if good:
        rep.ok("R10.6", "parent=Polygon.contains(ring)")
    else:
        rep.bad("R10.6", "parent-test", "the parent test is %s%s: a hole whose vertices all lie on the outline of its parent (pieces touching in single points around a void) is then not "
                "recognised and is emitted as a separate polygon" % ([(t[1].method, [x.rsplit("::", 1)[-1] for x in t[2]]) for t in tests], " under an `%s` over coordinates" % folds[0][1].method if folds else ""),
                where=fs[0].loc())


def sweep_split(rep, F):
    """R10.7: the monotone sweep's check_interior_intersection(a, b), with the accessors of the two segments answered by a witness (left / right
    end points in sweep order, orient2d of a segment and a point), on every pair of grid segments: SplitA(p) only for an end point p of b that
    lies strictly inside a (collinear with a and strictly between its end points); SplitB(p) symmetrically; None only when no end point of
    one segment lies strictly inside the other.  A split at any other point cuts an edge where it does not pass."""
    from ..evalterm import Evaluator, Enum, NoModel, orient
    import itertools
    rep.rule("R10.7", "monotone sweep, check_interior_intersection (all pairs of segments of a 3x3 grid): SplitA(p) / SplitB(p) is returned only for an end point p of the other segment lying strictly inside the split segment, None only when there is none")
    try:
        fn = F.one(r"sweep::SimpleSweep::<T, P>::check_interior_intersection$", crates=("geo",))
        paths = [p for p in Symex(F, inline_crates=()).run(fn) if p.kind != "cut"]
    except (KeyError, Unanalysable) as e:
        rep.bad("R10.7", "sweep-split:anchor", str(e))
        return
    ORI = "geo::algorithm::kernels::Orientation"

    class Ev(Evaluator):
        def call(self, t):
            m = t[1].rsplit("::", 1)[-1]
            a = t[2]
            if m == "line" and len(a) == 1:
                return self.ev(a[0])
            if m in ("left", "right") and len(a) == 1:
                return self.ev(a[0])[m]
            if m in ("deref", "clone", "into", "from") and len(a) == 1:
                return self.ev(a[0])
            if m == "orient2d" and len(a) == 2:
                seg, pt = self.ev(a[0]), self.ev(a[1])
                return Enum(ORI, orient({"x": seg["left"][0], "y": seg["left"][1]}, {"x": seg["right"][0], "y": seg["right"][1]}, {"x": pt[0], "y": pt[1]}))
            if m in ("eq", "ne") and len(a) == 2:
                r = self.ev(a[0]) == self.ev(a[1])
                return r if m == "eq" else not r
            if m in ("lt", "le", "gt", "ge") and len(a) == 2:
                x, y = self.ev(a[0]), self.ev(a[1])
                return {"lt": x < y, "le": x <= y, "gt": x > y, "ge": x >= y}[m]
            return Evaluator.call(self, t)
    pts = [(x, y) for x in range(3) for y in range(3)]
    segs = [{"left": p, "right": q} for p in pts for q in pts if p < q]

    def strictly_inside(p, s):
        return s["left"] < p < s["right"] and orient({"x": s["left"][0], "y": s["left"][1]}, {"x": s["right"][0], "y": s["right"][1]}, {"x": p[0], "y": p[1]}) == "Collinear"
    n = 0
    for sa, sb in itertools.product(segs, repeat=2):
        ev = Ev(F, {("arg", 2): sa, ("arg", 3): sb})
        try:
            hit = ev.select_path(paths)
            if len(hit) != 1 or hit[0].kind != "ret":
                rep.bad("R10.7", "sweep-split:table", "segments %s, %s select %s rows" % (sa, sb, [h.kind for h in hit]), where=fn.loc())
                return
            r = ev.ev(hit[0].ret)
        except (NoModel, TypeError, KeyError) as e:
            rep.bad("R10.7", "sweep-split:non-abstractable", "a decision is not a function of the end points' sweep order and of orient2d(segment, end point): %s" % e, where=fn.loc())
            return
        n += 1
        cand_a = [p for p in (sb["left"], sb["right"]) if strictly_inside(p, sa)]
        cand_b = [p for p in (sa["left"], sa["right"]) if strictly_inside(p, sb)]
        v = r.variant if isinstance(r, Enum) else str(r)
        pay = tuple(r.payload[0]) if isinstance(r, Enum) and r.payload else None
        ok = (v == "SplitA" and pay in cand_a) or (v == "SplitB" and pay in cand_b) or (v == "None" and not cand_a and not cand_b)
        if not ok:
            rep.bad("R10.7", "sweep-split:table", "a = %s-%s, b = %s-%s: the table returns %s%s; end points of b strictly inside a: %s, of a strictly inside b: %s" %
                    (sa["left"], sa["right"], sb["left"], sb["right"], v, pay or "", cand_a, cand_b), where=fn.loc())
            return
    rep.ok("R10.7", "sweep-split[%d segment pairs]" % n)


def stitch_keeps_interiors(rep, F):
    """R10.8: find_and_fix_holes_in_exterior never loses a hole: on every returning path the result is the input polygon itself, or a
    Polygon::new(.., interiors) whose interiors term is built from the input's own interiors (Polygon::interiors(poly) / into_inner(poly))."""
    rep.rule("R10.8", "stitch, find_and_fix_holes_in_exterior: on every path the result is the input polygon or a polygon whose interiors are derived from the input polygon's interiors() as well as from the rings split off the exterior (previously existing holes are preserved)")
    try:
        fn = F.one(r"stitch::find_and_fix_holes_in_exterior$", crates=("geo",))
        ps = [p for p in Symex(F, inline_crates=(), loop_bound=1).run(fn) if p.kind == "ret"]
    except (KeyError, Unanalysable) as e:
        rep.bad("R10.8", "stitch-interiors:anchor", str(e))
        return

    def mentions_own_interiors(t, d=0):
        if not isinstance(t, tuple) or d > 60:
            return False
        if t and t[0] == "call" and isinstance(t[1], str) and t[1].rsplit("::", 1)[-1] in ("interiors", "into_inner", "interiors_mut") and "a1" in show(t)[:400]:
            return True
        return any(mentions_own_interiors(x, d + 1) for x in t if isinstance(x, tuple))
    n_new = 0
    for p in ps:
        r = p.ret
        if r == ("arg", 1):
            continue
        if r[0] == "call" and r[1].endswith("Polygon::<T>::new") and len(r[2]) == 2:
            n_new += 1
            if mentions_own_interiors(r[2][1]):
                rep.ok("R10.8", "stitch-interiors:rebuilt[%d]" % n_new)
            else:
                rep.bad("R10.8", "stitch-interiors:dropped", "the polygon rebuilt from the split exterior takes its interiors from %s: the holes the input polygon already had are dropped" % show(r[2][1])[:200], where=fn.loc())
        elif "a1" in show(r)[:2000] and not (r[0] == "call" and "new" in r[1]):
            continue        # the input polygon, possibly mutated in place
        else:
            rep.bad("R10.8", "stitch-interiors:shape", "a path returns %s, neither the input polygon nor Polygon::new(exterior, interiors)" % show(r)[:160], where=fn.loc())
    rep.floor("R10.8", "paths rebuilding the polygon", n_new, 1)


def collection_contains_point(rep, F):
    """R10.9: constrained triangulation of a collection keeps a triangle iff its centroid lies in SOME member: contains_point of the collection
    impls of the triangulation requirement trait (Vec<G> and its slice twin &[G]) on collections of 0..3 members, with the members' own
    answers as free booleans: the result is the disjunction, for every valuation."""
    import itertools
    rep.rule("R10.9", "TriangulationRequirementTrait::contains_point for Vec<G> and for &[G] (0..3 members, exact unrolling, every valuation of the members' answers): true exactly when some member contains the point")
    TR = "geo::algorithm::triangulate_delaunay::private::TriangulationRequirementTrait"
    n_ok = 0
    impls = [im for im in F.impls if im.get("trait") == TR and (im["self_ty"].startswith("alloc::vec::Vec<") or im["self_ty"].startswith("&[") or im["self_ty"].startswith("&'a ["))]
    for im in impls:
        key = "Vec<G>" if im["self_ty"].startswith("alloc::vec::Vec") else "&[G]"
        fn = F.impl_fn(im, "contains_point")
        if fn is None:
            rep.bad("R10.9", "contains_point:%s:anchor" % key, "no contains_point")
            continue
        bad = None
        for n in range(0, 4):
            members = tuple(("opaque", "m%d" % i) for i in range(n))
            coll = ("call", "vec!", (("array", members),)) if key == "Vec<G>" else ("&", ("array", members))
            try:
                ex = Symex(F, concrete_iters=True, loop_bound=8, inline_crates=("geo",), max_depth=8)
                ps = [p for p in ex.run(fn, args=[("&", coll), ("opaque", "p")]) if p.kind != "cut"]
            except Unanalysable as e:
                bad = "%d members: %s" % (n, e)
                break
            # every path: atoms are the members' answers; the result must be their disjunction
            for p in ps:
                if p.kind != "ret":
                    bad = "%d members: a path panics" % n
                    break
                vals = {}
                for t, v in p.pc:
                    sh = show(t)
                    m = re.search(r"contains_point\(&?\*?&?opaque\(m(\d)\)", sh.replace(" ", ""))
                    if not m:
                        m = re.search(r"opaque\(m(\d)\)", sh)
                    if not m or "contains_point" not in sh:
                        bad = "%d members: decides on %s, not on a member's contains_point" % (n, sh[:80])
                        break
                    vals[int(m.group(1))] = bool(v)
                if bad:
                    break
                r = p.ret
                if r not in (("const", True), ("const", False), ("const", 1), ("const", 0)):
                    # the last member's answer may be returned as is
                    sh = show(r)
                    m = re.search(r"opaque\(m(\d)\)", sh)
                    if "contains_point" in sh and m and not any(vals.values()):
                        continue
                    bad = "%d members: returns %s" % (n, sh[:80])
                    break
                res = bool(r[1])
                known_true = any(vals.values())
                all_false = len(vals) == n and not known_true
                if res and not known_true:
                    bad = "%d members answering %s: returns true although no member contains the point" % (n, vals)
                    break
                if not res and not all_false:
                    bad = "%d members answering %s: returns false %s" % (n, vals, "although a member contains the point" if known_true else "without asking every member")
                    break
            if bad:
                break
        if bad:
            rep.bad("R10.9", "contains_point:%s" % key, "%s: %s" % (key, bad), where=fn.loc())
        else:
            n_ok += 1
            rep.ok("R10.9", "contains_point:%s[0..3 members]" % key)
    rep.floor("R10.9", "collection impls of contains_point", n_ok, 2)


def subdivision_intersects(rep, F):
    """R10.10: a coordinate intersects the monotone subdivision exactly when it intersects some piece: Intersects<Coord> for MonotonicPolygons on
    subdivisions of 0..3 pieces (exact unrolling) with the pieces' own answers as free booleans is their disjunction, for every valuation, and
    decides on nothing else (no ordering / bounding-box shortcut over the pieces)."""
    rep.rule("R10.10", "Intersects<Coord> for MonotonicPolygons (0..3 pieces, exact unrolling, every valuation of the pieces' answers): true exactly when some piece intersects the coordinate; no other decision (no shortcut that skips pieces)")
    try:
        fn = F.impl_method("geo::algorithm::intersects::Intersects", r"monotone::MonotonicPolygons<T>$", r"coord::Coord<T>$", "intersects", crates=("geo",))
    except KeyError as e:
        rep.bad("R10.10", "subdivision:anchor", str(e))
        return
    MP = "geo::algorithm::monotone::MonotonicPolygons"
    bad = None
    for n in range(0, 4):
        members = tuple(("opaque", "m%d" % i) for i in range(n))
        arg = ("adt", MP, "MonotonicPolygons", (("call", "vec!", (("array", members),)),))
        try:
            ex = Symex(F, concrete_iters=True, loop_bound=8, inline_crates=("geo",), max_depth=8, no_inline=[r"MonoPoly<.*Intersects", r"mono_poly::"])
            ps = [p for p in ex.run(fn, args=[("&", arg), ("&", ("opaque", "c"))]) if p.kind != "cut"]
        except Unanalysable as e:
            bad = "%d pieces: %s" % (n, e)
            break
        for p in ps:
            if p.kind != "ret":
                bad = "%d pieces: a path panics" % n
                break
            vals = {}
            for t, v in p.pc:
                sh = show(t)
                m = re.search(r"opaque\(m(\d)\)", sh)
                if not m or "intersects" not in sh or "bounding_rect" in sh or "partition_point" in sh:
                    bad = "%d pieces: decides on %s, not on a piece's intersects(coordinate)" % (n, sh[:100])
                    break
                vals[int(m.group(1))] = bool(v)
            if bad:
                break
            r = p.ret
            if r[0] != "const":
                sh = show(r)
                if r[0] == "call" and r[1].rsplit("::", 1)[-1] == "intersects" and re.search(r"opaque\(m\d\)", show(r[2][0])) and not any(vals.values()):
                    continue        # the last piece's own answer, returned as is
                bad = "%d pieces: returns %s, which is not a function of the pieces' own answers alone" % (n, sh[:100])
                break
            res = bool(r[1])
            if res and not any(vals.values()):
                bad = "%d pieces answering %s: true although no piece intersects" % (n, vals)
                break
            if not res and not (len(vals) == n and not any(vals.values())):
                bad = "%d pieces answering %s: false %s" % (n, vals, "although a piece intersects" if any(vals.values()) else "without asking every piece")
                break
        if bad:
            break
    if bad:
        rep.bad("R10.10", "subdivision:intersects", bad, where=fn.loc())
    else:
        rep.ok("R10.10", "subdivision:intersects[0..3 pieces]")


# ------------------------------------------------------------------------------------------------ R10.11
def monopoly_position(rep, F, rule="R10.11"):
    """MonoPoly::calculate_coordinate_position (the O(log n) point location every piece of a monotone subdivision answers `intersects` with) on
    monotone polygons with top and bottom chains of 2 and 3 coordinates (chains unrolled exactly, `partition_point` as the index of the first
    element failing its predicate, orient2d answered exactly): for every query point of a grid the position is Inside / OnBoundary / Outside
    as for the polygon `top + reversed bottom`; a point on either chain is on the boundary, a point between the chains at the x of an
    interior vertex is inside."""
    import itertools
    from ..evalterm import Evaluator, Enum, NoModel
    from .c02_kernels import _pip, CALLS as KCALLS
    rep.rule(rule, "MonoPoly::calculate_coordinate_position (chains of 2 and 3 coordinates, every query of a grid): the point is reported Outside exactly when it is outside the polygon made of the two chains (`intersects` of a piece)")
    try:
        fn = F.impl_method("geo::algorithm::coordinate_position::CoordinatePosition", r"monotone::mono_poly::MonoPoly<T>$", None, "calculate_coordinate_position", crates=("geo",))
    except KeyError as e:
        rep.bad(rule, "monopoly:anchor", str(e))
        return
    MP = "geo::algorithm::monotone::mono_poly::MonoPoly"
    GTp = "geo_types::geometry::"
    try:
        fields = [f["name"] for f in F.adts[MP]["variants"][0]["fields"]]
    except (KeyError, IndexError):
        rep.bad(rule, "monopoly:anchor", "MonoPoly layout not found")
        return
    if set(fields) != {"top", "bot", "bounds"}:
        rep.bad(rule, "monopoly:anchor", "MonoPoly has other fields than the rule knows: %s" % fields)
        return
    shapes = [
        # (top chain, bottom chain): x-monotone, same end points, top above bottom
        ([(0, 2), (2, 4), (4, 2)], [(0, 2), (2, 0), (4, 2)]),
        ([(0, 0), (4, 4)], [(0, 0), (2, 0), (4, 4)]),
        ([(0, 3), (1, 4), (4, 1)], [(0, 3), (4, 1)]),
        ([(0, 0), (0, 4), (4, 4)], [(0, 0), (4, 0), (4, 4)]),         # vertical first / last edges
    ]
    total = 0

    def orient_call(ev, a):
        p, q, r = (ev.ev(x) for x in a)
        v = (q["x"] - p["x"]) * (r["y"] - q["y"]) - (q["y"] - p["y"]) * (r["x"] - q["x"])
        return Enum("geo::algorithm::kernels::Orientation", "CounterClockwise" if v > 0 else "Clockwise" if v < 0 else "Collinear")
    for top, bot in shapes:
        def ls(tag, n):
            return ("adt", GTp + "line_string::LineString", "LineString", (("call", "vec!", (("array", tuple(("opaque", "%s%d" % (tag, i)) for i in range(n))),)),))
        by = {"top": ls("t", len(top)), "bot": ls("b", len(bot)), "bounds": ("opaque", "bounds")}
        mp = ("&", ("adt", MP, "MonoPoly", tuple(by[f] for f in fields)))
        ex = Symex(F, concrete_iters=True, loop_bound=8, inline_crates=("geo", "geo_types"), max_paths=20000, budget_s=60, no_inline=[r"::orient2d$"])
        try:
            paths = [p for p in ex.run(fn, args=[mp, ("arg", 2), ("arg", 3), ("arg", 4)]) if p.kind != "cut"]
        except Unanalysable as e:
            rep.bad(rule, "monopoly:unanalysable", str(e), where=fn.loc())
            return
        rets = [p for p in paths if p.kind == "ret"]
        env0 = {}
        for i, c in enumerate(top):
            env0[("opaque", "t%d" % i)] = C(*c)
        for i, c in enumerate(bot):
            env0[("opaque", "b%d" % i)] = C(*c)
        allc = top + bot
        env0[("opaque", "bounds")] = {"min": C(min(c[0] for c in allc), min(c[1] for c in allc)), "max": C(max(c[0] for c in allc), max(c[1] for c in allc))}
        ring = [C(*c) for c in top] + [C(*c) for c in reversed(bot)][1:]
        calls = dict(KCALLS)
        for k in F.fns:
            if k.endswith("::orient2d"):
                calls[k] = orient_call
        calls["geo::algorithm::kernels::Kernel::orient2d"] = orient_call
        for qx in range(-1, 6):
            for qy in range(-1, 6):
                q = C(qx, qy)
                env = dict(env0)
                env[("arg", 2)] = q
                env[("deref", ("arg", 2))] = q
                ev = Evaluator(F, env, calls)
                try:
                    hit = ev.select_path(rets)
                    gots = {position_of(ex, ev, h) for h in hit}
                except (NoModel, KeyError, TypeError) as e:
                    rep.bad(rule, "monopoly:non-abstractable", "a decision of MonoPoly::calculate_coordinate_position is not a coordinate comparison or an orientation sign (%s)" % e, where=fn.loc())
                    return
                want = _pip(ring, q)
                total += 1
                # the property speaks of `intersects` (= not Outside): Inside and OnBoundary are not told apart here (on a vertical closing
                # edge the impl answers Inside for a boundary point, which no caller of the subdivision distinguishes)
                if len(gots) != 1 or (gots == {"Outside"}) != (want == "Outside"):
                    rep.bad(rule, "monopoly:table", "monotone polygon top %s bottom %s: %s is %s in the path table, exact geometry gives %s - `intersects` of the piece is wrong there" % (
                        top, bot, fmt(q), "/".join(sorted(gots)) or "no row", want), where=fn.loc())
                    return
    rep.ok(rule, "monopoly[%d witnesses, %d shapes]" % (total, len(shapes)))


# ------------------------------------------------------------------------------------------------ R10.13
def snap_table(rep, F, rule="R10.13"):
    """snap_or_register_point (the de-duplication of constraint end points in front of the Delaunay back end) with two known points, evaluated
    numerically on witnesses near the origin and at offsets of 1e6: a point is replaced by the nearest known point exactly when their
    Euclidean distance is below the snap radius AS GIVEN, otherwise it is kept and registered - distinct polygon vertices a unit apart are
    not merged because they lie far from the origin (merged vertices make constraint lines collapse and triangles vanish)."""
    import math
    from ..numeval import NumEval
    from ..evalterm import NoModel, Enum
    rep.rule(rule, "snap_or_register_point (two known points; witnesses near the origin and at offset 1e6): the nearest known point is returned exactly when it is closer than the given snap radius, otherwise the point itself, which is then registered")
    try:
        fn = F.one(r"triangulate_delaunay::snap_or_register_point$", crates=("geo",))
    except KeyError as e:
        rep.bad(rule, "snap:anchor", str(e))
        return
    kp = ("call", "vec!", (("array", (("opaque", "k0"), ("opaque", "k1"))),))
    ex = Symex(F, concrete_iters=True, loop_bound=8, inline_crates=("geo", "geo_types"), max_depth=14, max_paths=5000, budget_s=30)
    ex.live_iter_mut = True
    try:
        paths = [p for p in ex.run(fn, args=[("opaque", "p"), ("arg", 2), ("opaque", "r")], mem={("arg", 2): kp}) if p.kind != "cut"]
    except Unanalysable as e:
        rep.bad(rule, "snap:unanalysable", str(e), where=fn.loc())
        return
    n = 0
    for ox, oy in ((0.0, 0.0), (1.0e6, 2.0e6), (-4.0e6, 2.5e5)):
        for (k0, k1, pt, r) in (((0, 0), (5, 0), (1, 0), 1e-4), ((0, 0), (5, 0), (0.00005, 0), 1e-4), ((0, 0), (5, 0), (5, 0.00002), 1e-4), ((0, 0), (5, 0), (2, 3), 1e-4), ((0, 0), (1, 0), (0.75, 0), 0.5)):
            D = lambda c: {"x": ox + c[0], "y": oy + c[1]}
            ev = NumEval(F, {("opaque", "k0"): D(k0), ("opaque", "k1"): D(k1), ("opaque", "p"): D(pt), ("opaque", "r"): r})
            try:
                hit = ev.select_path(paths)
                if len(hit) != 1 or hit[0].kind != "ret":
                    rep.bad(rule, "snap:table", "known %s %s, point %s (offset (%s, %s)) selects %s" % (k0, k1, pt, ox, oy, [h.kind for h in hit]), where=fn.loc())
                    return
                v = ev.ev(hit[0].ret)
                got = (float(v["x"]), float(v["y"]))
                fin = ev.ev(ex.canon(hit[0].st, hit[0].st.mem.get(("S", ("arg", 2)))))
                n_known = len(fin) if isinstance(fin, list) else None
            except (NoModel, TypeError, KeyError, ValueError) as e:
                rep.bad(rule, "snap:non-abstractable", "cannot be evaluated: %s" % e, where=fn.loc())
                return
            # reference on the untranslated configuration
            d0, d1 = math.hypot(pt[0] - k0[0], pt[1] - k0[1]), math.hypot(pt[0] - k1[0], pt[1] - k1[1])
            near, dn = (k0, d0) if d0 <= d1 else (k1, d1)
            want = near if dn < r else pt
            wantD = (ox + want[0], oy + want[1])
            n += 1
            if abs(got[0] - wantD[0]) > 1e-9 or abs(got[1] - wantD[1]) > 1e-9 or (n_known is not None and n_known != (2 if dn < r else 3)):
                rep.bad(rule, "snap:table", "known points %s and %s, point %s, all translated by (%s, %s), snap radius %s: returns %s with %s known point(s) afterwards; the nearest known point is at distance %.6g, so the result should be %s" % (
                    k0, k1, pt, ox, oy, r, got, n_known, dn, wantD), where=fn.loc())
                return
    rep.ok(rule, "snap[%d witnesses]" % n)
