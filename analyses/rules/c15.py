"""C15 — interpolation, location and densification (plumbing clauses only).

 R15.1 LineString ratio forms are the distance forms applied to ratio * length (coincidence by construction)
 R15.2 clamp tables: Line: x <= 0 -> near end, x >= bound -> far end, else interpolate(near, far, x) with bound 1 (ratio) or
       length (distance); from_end is the mirror image of from_start; LineString: distance <= 0 -> first / last vertex,
       walk over lines() / rev_lines(), beyond the end -> last / first vertex; all four guards use the same relation
 R15.3 densify_between: n = ceil(distance / max) segments, interior points point_at_ratio_between(start, end, k/n), k in 1..n
 R15.4 Densifiable for Polygon / Multi* / Rect / Triangle: every part is densified with the same metric and bound on every path
      (Polygon: exterior and every interior; Multi*: every member; Rect / Triangle: their polygon)
Not decided: arc-length identities, line_locate_point round trip, the strict length bound in floats.
"""
import re
from ..facts import Facts, short
from ..symex import Symex, Unanalysable, show, show_pc, bare
from .c01 import opaque, calls_of

LEVEL = "other"
IL = "geo::algorithm::line_measures::interpolate_line::InterpolatableLine"
GT = "geo_types::geometry::"


def run(rep, tier):
    rep.explanation = ("Clamp / mirror tables of the Line and LineString interpolation entry points, the ratio-to-distance reduction, and the segment "
                       "count and interior points of densify_between, all from MIR path tables with calls uninterpreted; R15.6 / R15.7 evaluate the "
                       "arc-length identities on witness line strings through the extracted tables. For arbitrary inputs they are numeric and not decided.")
    rep.trusted = ["rustc MIR", "the metric space's point_at_*_between and length"]
    rep.assumptions = []
    F = Facts("default")
    line_tables(rep, F)
    linestring_tables(rep, F)
    densify(rep, F)
    densify_containers(rep, F)
    from . import c07
    c07.point_kernel(rep, F, rule="R15.5")
    arc_length_laws(rep, F)
    deprecated_twins(rep, F)
    euclidean_primitives(rep, F)
    # the ratio forms multiply by length(self): the length of a line string is the sum over ALL its segments (table shared with C16)
    from . import c16
    c16.length_tables(rep, F, "R15.9", tier)
    # interpolation in the Rhumb / Haversine spaces is point_at_ratio_between of those spaces: their laws, also across the antimeridian (C16 R16.5 / R16.7)
    from ..report import Alias as _Alias
    rep.rule("R15.10", "the metric spaces the interpolation entry points are generic over: Rhumb wrap of the longitude difference and the Haversine / Rhumb laws on witness pairs incl. antimeridian crossings in both directions (C16 R16.5 / R16.7)")
    c16.rhumb_wrap(_Alias(rep, "R15.10"), F)
    c16.metric_laws(_Alias(rep, "R15.10"), F, tier)


def table(F, fn, loop_bound=1):
    ps = opaque(F, loop_bound=loop_bound).run(fn)
    rows = []
    for p in ps:
        if p.kind != "ret":
            continue
        rows.append(([(bare(t), v) for t, v in p.pc], bare(p.ret), p))
    return rows


def line_tables(rep, F):
    rep.rule("R15.2", "Line: x <= 0 -> near end; x >= bound -> far end; else interpolate(near, far, x); from_end mirrors from_start (start <-> end)")
    spec = {
        "point_at_ratio_from_start": ("one()", "point_at_ratio_between", "start_point(a1)", "end_point(a1)"),
        "point_at_ratio_from_end": ("one()", "point_at_ratio_between", "end_point(a1)", "start_point(a1)"),
        "point_at_distance_from_start": ("length(a2, a1)", "point_at_distance_between", "start_point(a1)", "end_point(a1)"),
        "point_at_distance_from_end": ("length(a2, a1)", "point_at_distance_between", "end_point(a1)", "start_point(a1)"),
    }
    for meth, (bound, interp, near, far) in spec.items():
        try:
            fn = F.impl_method(IL, r"^%sline::Line<F>$" % GT, None, meth, crates=("geo",))
            rows = table(F, fn)
        except (KeyError, Unanalysable) as e:
            rep.bad("R15.2", "line:%s:anchor" % meth, str(e))
            continue
        got = {}
        for atoms, ret, p in rows:
            key = tuple((a, v) for a, v in atoms)
            got[key] = ret
        lo = "(a3 <= zero())"
        hi = "(%s <= a3)" % bound
        want = {((lo, 1),): near, ((lo, 0), (hi, 1)): far, ((lo, 0), (hi, 0)): "%s(a2, %s, %s, a3)" % (interp, near, far)}
        if got == want:
            rep.ok("R15.2", "line:" + meth, sample={str(k): v for k, v in got.items()})
        else:
            diff = {str(k): (got.get(k), v) for k, v in want.items() if got.get(k) != v}
            extra = [str(k) for k in got if k not in want]
            rep.bad("R15.2", "line:" + meth, "clamp table deviates: expected-vs-got %s%s" % (diff, " extra rows %s" % extra[:2] if extra else ""), where=fn.loc())


def vertex_result(ret, which, atoms):
    """`self.0.<which>().map(|c| Point(*c))`: None for an empty line string, else the point at that vertex"""
    if re.match(r"^map\(%s\(a1\.0\), closure\[\]\)$" % which, ret):
        return True
    if ret == "Option::None()":
        return any(a == "discr(%s(a1.0))" % which and v == 0 for a, v in atoms)
    return re.match(r"^Option::Some\(Point::Point\(\(%s\(a1\.0\) as Some\)\.0\)\)$" % which, ret) is not None


def linestring_tables(rep, F):
    rep.rule("R15.1", "LineString ratio forms = distance forms applied to ratio * length(self)")
    for meth, dist in (("point_at_ratio_from_start", "point_at_distance_from_start"), ("point_at_ratio_from_end", "point_at_distance_from_end")):
        try:
            fn = F.impl_method(IL, r"^%sline_string::LineString<F>$" % GT, None, meth, crates=("geo",))
            rows = table(F, fn)
            if len(rows) == 1 and not rows[0][0] and rows[0][1] == "%s(a1, a2, mul(a3, length(a2, a1)))" % dist:
                rep.ok("R15.1", meth)
            else:
                rep.bad("R15.1", meth, "%s is %s" % (meth, [r[1][:100] for r in rows][:2]), where=fn.loc())
        except (KeyError, Unanalysable) as e:
            rep.bad("R15.1", meth + ":anchor", str(e))
    guards = {}
    for meth, near, far, walk in (("point_at_distance_from_start", "first", "last", "lines"), ("point_at_distance_from_end", "last", "first", "rev_lines")):
        try:
            fn = F.impl_method(IL, r"^%sline_string::LineString<F>$" % GT, None, meth, crates=("geo",))
            rows = table(F, fn)
        except (KeyError, Unanalysable) as e:
            rep.bad("R15.2", "linestring:%s:anchor" % meth, str(e))
            continue
        problems = []
        first_atoms = {atoms[0][0] for atoms, ret, p in rows if atoms}
        guards[meth] = first_atoms
        if first_atoms != {"(a3 <= zero())"}:
            problems.append("the first decision is %s, expected `distance <= 0`" % sorted(first_atoms))
        for atoms, ret, p in rows:
            if atoms and atoms[0] == ("(a3 <= zero())", 1):
                if not vertex_result(ret, near, atoms):
                    problems.append("distance <= 0 returns %s, expected the %s vertex" % (ret[:60], near))
            walked = [c for c in calls_of(p) if c[1].endswith("::" + walk)]
            other = [c for c in calls_of(p) if c[1].endswith("::" + ("rev_lines" if walk == "lines" else "lines"))]
            if atoms and atoms[0][1] == 0:
                if not walked or other:
                    problems.append("the walk does not run over %s()" % walk)
                nexts = [v for a, v in atoms if a.startswith("discr(next(")]
                if nexts and nexts[-1] == 0 and not vertex_result(ret, far, atoms):
                    problems.append("past the end returns %s, expected the %s vertex" % (ret[:60], far))
                if "point_at_distance_between" in ret:
                    m = re.match(r"^Option::Some\(point_at_distance_between\(a2, start_point\((.*)\), end_point\((.*)\), (.*)\)\)$", ret)
                    if not m or m.group(1) != m.group(2):
                        problems.append("interpolates with %s" % ret[:120])
                    lt = [(a, v) for a, v in atoms if " < " in a and "length(" in a]
                    if not lt or lt[-1][1] != 0 or not re.match(r"^\(length\(a2, .*\) < .*\)$", lt[-1][0]):
                        problems.append("the segment is chosen by %s, expected `segment_length < remaining` false" % (lt[-1] if lt else None,))
        if problems:
            rep.bad("R15.2", "linestring:" + meth, problems[0], where=fn.loc())
        else:
            rep.ok("R15.2", "linestring:%s[%d rows]" % (meth, len(rows)))
    if len(guards) == 2 and len({frozenset(v) for v in guards.values()}) != 1:
        rep.bad("R15.2", "linestring:sibling-guards", "from_start and from_end clamp with different relations: %s" % {k: sorted(v) for k, v in guards.items()})


def densify(rep, F):
    rep.rule("R15.3", "densify_between: number of pieces = ceil(distance(start, end) / max_segment_length); interior points are point_at_ratio_between(start, end, k/n) for k in 1..n, pushed in order")
    try:
        fn = F.one(r"^geo::algorithm::line_measures::densify::densify_between$", crates=("geo",))
        ps = opaque(F, loop_bound=1).run(fn)
    except (KeyError, Unanalysable) as e:
        rep.bad("R15.3", "anchor", str(e))
        return
    problems = []
    seen_push = False
    for p in ps:
        if p.kind not in ("ret", "cut"):
            continue
        cs = calls_of(p)
        n_terms = [bare(("call", c[1], c[2])) for c in cs if c[1].endswith("::to_u64")]
        if n_terms:
            if not re.match(r"^to_u64\(ceil\(div\(distance\(a1, a2, a3\), a5\)\)\)$", n_terms[0]):
                problems.append("the number of pieces is %s, expected ceil(distance(start, end) / max)" % n_terms[0][:120])
        for c in cs:
            if c[1].endswith("Vec::<T, A>::push"):
                seen_push = True
                v = bare(c[2][1])
                if not re.match(r"^point_at_ratio_between\(a1, a2, a3, mul\(div\(one\(\), .*\), .*\)\)$", v):
                    problems.append("an inserted point is %s, expected point_at_ratio_between(start, end, k/n)" % v[:120])
        rng = [bare(("call", c[1], c[2])) for c in cs if "Range" in c[1] and c[1].endswith("into_iter")]
    if not seen_push:
        problems.append("no interior point is ever pushed")
    # the loop range starts at 1
    starts_at_one = False
    for bb, pl, rv, line in fn.all_assigns():
        if rv[0] == "agg" and isinstance(rv[1], dict) and str(rv[1].get("adt", "")).endswith("ops::range::Range"):
            o = rv[2][0]
            if "const" in o and o["const"].get("val") == 1:
                starts_at_one = True
    if not starts_at_one:
        problems.append("the interior points do not start at k = 1")
    if problems:
        rep.bad("R15.3", "densify_between", problems[0], where=fn.loc())
    else:
        rep.ok("R15.3", "densify_between")


def densify_containers(rep, F):
    """R15.4 on containers of concrete size (exact unrolling; struct literals and `new` constructors are the same thing for Multi*): the result
    is built from densify(part, same metric, same bound) of every part, in order."""
    rep.rule("R15.4", "Densifiable (Polygon with 2 holes, Multi* of 2 members, exact unrolling): the result is the same container over densify(part, metric, bound) of every part in order; Rect / Triangle = densify(to_polygon())")
    PG, LS = GT + "polygon::Polygon", GT + "line_string::LineString"
    part = lambda n: ("field", ("deref", ("arg", 1)), n)
    two = ("call", "vec!", (("array", (part("m0"), part("m1"))),))
    cases = {
        "polygon::Polygon<F>": (("&", ("adt", PG, "Polygon", (part("ext"), two))),
                                r"^new\(densify\(a1\.ext, a2, a3\), vec!\(\[densify\(a1\.m0, a2, a3\), densify\(a1\.m1, a2, a3\)\]\)\)$"),
        "multi_line_string::MultiLineString<F>": (("&", ("adt", GT + "multi_line_string::MultiLineString", "MultiLineString", (two,))),
                                                  r"^(new|MultiLineString::MultiLineString)\(vec!\(\[densify\(a1\.m0, a2, a3\), densify\(a1\.m1, a2, a3\)\]\)\)$"),
        "multi_polygon::MultiPolygon<F>": (("&", ("adt", GT + "multi_polygon::MultiPolygon", "MultiPolygon", (two,))),
                                           r"^(new|MultiPolygon::MultiPolygon)\(vec!\(\[densify\(a1\.m0, a2, a3\), densify\(a1\.m1, a2, a3\)\]\)\)$"),
        "rect::Rect<F>": (None, r"^densify\(to_polygon\(a1\), a2, a3\)$"),
        "triangle::Triangle<F>": (None, r"^densify\(to_polygon\(a1\), a2, a3\)$"),
    }
    n = 0
    for ty, (val, pat) in cases.items():
        try:
            fn = F.one(r"^<%s%s as geo::algorithm::line_measures::densify::Densifiable<F>>::densify$" % (re.escape(GT), re.escape(ty)), crates=("geo",))
            ex = Symex(F, inline_crates=("geo", "geo_types"), no_inline=[r"Densifiable<F>>::densify$", r"Polygon::<T>::new$", r"::to_polygon$", r"MultiLineString::<T>::new$", r"MultiPolygon::<T>::new$"],
                       loop_bound=6, concrete_iters=True)
            ps = [p for p in ex.run(fn, args=[val, ("arg", 2), ("arg", 3)] if val is not None else None) if p.kind != "cut"]
        except (KeyError, Unanalysable) as e:
            rep.bad("R15.4", ty + ":anchor", str(e))
            continue
        n += 1
        rets = sorted({bare(p.ret) if p.kind == "ret" else p.kind for p in ps})
        if len(rets) == 1 and re.match(pat, rets[0]):
            rep.ok("R15.4", ty.split("::")[-1])
        else:
            rep.bad("R15.4", ty.split("::")[-1], "%s::densify gives %s; not every part is densified (with the same metric and bound, in order) on every path: a part that is skipped keeps segments "
                    "longer than the bound" % (ty.split("::")[-1], [r_[:160] for r_ in rets][:2]), where=fn.loc())
    rep.floor("R15.4", "container impls", n, 5)


def arc_length_laws(rep, F):
    """R15.6: the interpolation entry points of Line and LineString (2 and 3 coordinates, exact unrolling) evaluated on witnesses through their
    extracted path tables, with the metric space's segment primitives answered by their Euclidean meaning (length = hypot, point_at_distance_between
    = start + (end - start) * d / |end - start|, point_at_ratio_between = start + (end - start) * r):
      point_at_ratio_from_start(r) is the point at arc length clamp(r) * length from the start;
      point_at_ratio_from_end(1 - r), point_at_distance_from_start(r * length) and point_at_distance_from_end((1 - r) * length) coincide with it."""
    import itertools
    import math
    from ..numeval import NumEval
    from ..evalterm import NoModel, Enum
    rep.rule("R15.6", "Line and LineString (3 coordinates, repeated vertices included) on witnesses, through the extracted path tables: point_at_ratio_from_start(r) is the point at arc length clamp(r)*length; the from_end form at 1-r and both distance forms coincide with it (r in {-0.5, 0, 0.25, 0.5, 0.9, 1, 1.5})")
    IL = "geo::algorithm::line_measures::interpolate_line::InterpolatableLine"
    GT = "geo_types::geometry::"
    base = [(0.0, 0.0), (3.0, 4.0), (3.0, 0.0), (6.0, 8.0)]
    ratios = (-0.5, 0.0, 0.25, 0.5, 0.9, 1.0, 1.5)

    def vec(items):
        return ("call", "vec!", (("array", tuple(items)),))

    def xy(v):
        if isinstance(v, Enum):
            if v.variant != "Some":
                return None
            v = v.payload[0]
        if isinstance(v, dict) and "0" in v:
            v = v["0"]
        return (float(v["x"]), float(v["y"]))

    def ref_point(cs, r):
        segs = [(cs[i], cs[i + 1]) for i in range(len(cs) - 1)]
        lens = [math.hypot(b[0] - a[0], b[1] - a[1]) for a, b in segs]
        L = sum(lens)
        r = min(1.0, max(0.0, r))
        if L == 0:
            return cs[0]
        s = r * L
        for (a, b), l in zip(segs, lens):
            if l == 0:
                continue
            if s <= l + 1e-12:
                t = s / l
                return (a[0] + (b[0] - a[0]) * t, a[1] + (b[1] - a[1]) * t)
            s -= l
        return cs[-1]

    class Ev(NumEval):
        def call(self, t):
            m = t[1].rsplit("::", 1)[-1]
            a = t[2]

            def pt(v):
                v = self.ev(v)
                if isinstance(v, dict) and "0" in v and isinstance(v["0"], dict):
                    v = v["0"]
                return (float(v["x"]), float(v["y"]))
            if m == "length" and len(a) == 2:
                g = self.ev(a[1])
                if isinstance(g, dict) and "start" in g:
                    return math.hypot(g["end"]["x"] - g["start"]["x"], g["end"]["y"] - g["start"]["y"])
                cs = g["0"] if isinstance(g, dict) else g
                return sum(math.hypot(cs[i + 1]["x"] - cs[i]["x"], cs[i + 1]["y"] - cs[i]["y"]) for i in range(len(cs) - 1))
            if m == "distance" and len(a) == 3:
                p, q = pt(a[1]), pt(a[2])
                return math.hypot(q[0] - p[0], q[1] - p[1])
            if m == "point_at_distance_between" and len(a) == 4:
                p, q, d = pt(a[1]), pt(a[2]), float(self.ev(a[3]))
                l = math.hypot(q[0] - p[0], q[1] - p[1])
                f = d / l if l != 0 else float("nan")
                return {"0": {"x": p[0] + (q[0] - p[0]) * f, "y": p[1] + (q[1] - p[1]) * f}}
            if m == "point_at_ratio_between" and len(a) == 4:
                p, q, r = pt(a[1]), pt(a[2]), float(self.ev(a[3]))
                return {"0": {"x": p[0] + (q[0] - p[0]) * r, "y": p[1] + (q[1] - p[1]) * r}}
            return NumEval.call(self, t)
    n_ok = 0
    for ty, n in (("line::Line", 2), ("line_string::LineString", 3)):
        name = ty.split("::")[-1]
        if n == 2:
            arg = ("adt", GT + ty, name, (("opaque", "c0"), ("opaque", "c1")))
        else:
            arg = ("adt", GT + ty, name, (vec([("opaque", "c%d" % i) for i in range(n)]),))
        tabs = {}
        try:
            im = [i for i in F.impls_of(IL) if i["self_ty"].startswith(GT + ty)][0]
            for meth in ("point_at_ratio_from_start", "point_at_ratio_from_end", "point_at_distance_from_start", "point_at_distance_from_end"):
                fn = F.impl_fn(im, meth)
                ex = Symex(F, concrete_iters=True, loop_bound=8, inline_crates=("geo", "geo_types"), max_depth=12)
                tabs[meth] = (fn, [p for p in ex.run(fn, args=[("&", arg), ("&", ("opaque", "ms")), ("opaque", "v")]) if p.kind != "cut"])
        except (KeyError, IndexError, Unanalysable) as e:
            rep.bad("R15.6", "arc:%s:unanalysable" % name, str(e))
            continue
        bad = None
        k = 0
        for cs in itertools.product(base, repeat=n):
            L = sum(math.hypot(cs[i + 1][0] - cs[i][0], cs[i + 1][1] - cs[i][1]) for i in range(n - 1))
            for r in ratios:
                want = ref_point(cs, r)
                for meth, val in (("point_at_ratio_from_start", r), ("point_at_ratio_from_end", 1.0 - r), ("point_at_distance_from_start", r * L), ("point_at_distance_from_end", (1.0 - r) * L)):
                    fn, paths = tabs[meth]
                    env = {("opaque", "c%d" % i): {"x": cs[i][0], "y": cs[i][1]} for i in range(n)}
                    env[("opaque", "v")] = val
                    env[("opaque", "ms")] = "euclidean"
                    ev = Ev(F, env)
                    try:
                        hit = ev.select_path(paths)
                        if len(hit) != 1 or hit[0].kind != "ret":
                            bad = "%s(%s, %s) selects %s" % (meth, list(cs), val, [h.kind for h in hit])
                            break
                        got = xy(ev.ev(hit[0].ret))
                    except (NoModel, TypeError, KeyError, ValueError) as e:
                        bad = "%s cannot be evaluated on %s: %s" % (meth, list(cs), e)
                        break
                    k += 1
                    if got is None or not (abs(got[0] - want[0]) <= 1e-9 and abs(got[1] - want[1]) <= 1e-9):
                        bad = "%s(%s, %.6g) = %s; the point at arc length %.6g of %.6g from the start is (%.6g, %.6g)" % (meth, list(cs), val, got, min(1, max(0, r)) * L, L, want[0], want[1])
                        break
                if bad:
                    break
            if bad:
                break
        if bad:
            rep.bad("R15.6", "arc:%s" % name, "%s: %s" % (name, bad), where=tabs["point_at_ratio_from_start"][0].loc())
        else:
            n_ok += 1
            rep.ok("R15.6", "arc:%s[%d evaluations]" % (name, k))
    rep.floor("R15.6", "interpolatable line types", n_ok, 2)


def deprecated_twins(rep, F):
    """R15.7: the older twins LineInterpolatePoint::line_interpolate_point and LineLocatePoint::line_locate_point (Line, LineString of 4
    coordinates = three segments) on simple witness lines, through the extracted path tables: the interpolated point is the point at arc
    length clamp(r) * length, and locating that point gives r back."""
    import math
    from ..numeval import NumEval
    from ..evalterm import NoModel, Enum
    rep.rule("R15.7", "line_interpolate_point / line_locate_point (Line; LineString of three segments) on simple witness lines: interpolate(r) is the point at arc length clamp(r)*length and locate(interpolate(r)) = r")
    GT = "geo_types::geometry::"
    LS = GT + "line_string::LineString"

    def vec(items):
        return ("call", "vec!", (("array", tuple(items)),))
    lines2 = [[(0.0, 0.0), (3.0, 4.0)], [(1.0, 5.0), (1.0, -3.0)], [(-2.0, 1.0), (6.0, 1.0)]]
    lines4 = [[(0.0, 0.0), (4.0, 0.0), (4.0, 1.0), (4.0, 6.0)], [(0.0, 0.0), (3.0, 4.0), (6.0, 0.0), (9.0, 4.0)], [(5.0, 5.0), (5.0, 0.0), (0.0, 0.0), (-3.0, -4.0)]]
    ratios = (-0.5, 0.0, 0.3, 0.55, 0.7, 1.0, 1.5)
    # the laws are invariant under scaling: the same witnesses at 1e-9 (a line shorter than sqrt(epsilon) is still a line) and at 1e6
    scaled = lambda ws, k: [[(x * k, y * k) for x, y in w] for w in ws]
    lines2 = lines2 + scaled(lines2, 1e-9) + scaled(lines2, 1e6)
    lines4 = lines4 + scaled(lines4[:2], 1e-9) + scaled(lines4[:1], 1e6)

    def seglen(a, b):
        return math.hypot(b[0] - a[0], b[1] - a[1])

    def ref_point(cs, r):
        r = min(1.0, max(0.0, r))
        lens = [seglen(cs[i], cs[i + 1]) for i in range(len(cs) - 1)]
        s_ = r * sum(lens)
        for i, l in enumerate(lens):
            if s_ <= l * (1 + 1e-12):
                t = s_ / l
                return (cs[i][0] + (cs[i + 1][0] - cs[i][0]) * t, cs[i][1] + (cs[i + 1][1] - cs[i][1]) * t)
            s_ -= l
        return cs[-1]

    class Ev(NumEval):
        def call(self, t):
            m = t[1].rsplit("::", 1)[-1]
            a = t[2]
            if m in ("euclidean_length", "length") and len(a) >= 1:
                g = self.ev(a[0])
                if isinstance(g, dict) and "start" in g:
                    return math.hypot(g["end"]["x"] - g["start"]["x"], g["end"]["y"] - g["start"]["y"])
                if isinstance(g, dict) and "0" in g and isinstance(g["0"], list):
                    c = g["0"]
                    return sum(math.hypot(c[i + 1]["x"] - c[i]["x"], c[i + 1]["y"] - c[i]["y"]) for i in range(len(c) - 1))
            if m in ("euclidean_distance", "distance") and len(a) >= 2:
                def xy(v):
                    v = self.ev(v)
                    while isinstance(v, dict) and "0" in v and "x" not in v:
                        v = v["0"]
                    return v
                p_, q_ = xy(a[-2]), xy(a[-1])
                if isinstance(p_, dict) and isinstance(q_, dict) and "x" in p_ and "x" in q_:
                    return math.hypot(q_["x"] - p_["x"], q_["y"] - p_["y"])
            return NumEval.call(self, t)

    def dec_pt(v):
        if isinstance(v, Enum):
            if v.variant != "Some":
                return None
            v = v.payload[0]
        while isinstance(v, dict) and "0" in v and "x" not in v:
            v = v["0"]
        return (float(v["x"]), float(v["y"]))

    def dec_num(v):
        if isinstance(v, Enum):
            if v.variant != "Some":
                return None
            v = v.payload[0]
        return float(v)
    n_ok = 0
    for ty, n, wit in (("line::Line", 2, lines2), ("line_string::LineString", 4, lines4)):
        name = ty.split("::")[-1]
        arg = ("adt", GT + ty, name, (("opaque", "c0"), ("opaque", "c1"))) if n == 2 else ("adt", LS, name, (vec([("opaque", "c%d" % i) for i in range(n)]),))
        try:
            fi = F.impl_method("geo::algorithm::line_interpolate_point::LineInterpolatePoint", r"^%s%s<T>$" % (GT, ty), None, "line_interpolate_point", crates=("geo",))
            fl = F.impl_method("geo::algorithm::line_locate_point::LineLocatePoint", r"^%s%s<T>$" % (GT, ty), None, "line_locate_point", crates=("geo",))
            tabs = {}
            for key, f, extra in (("interpolate", fi, [("opaque", "v")]), ("locate", fl, [("&", ("adt", GT + "point::Point", "Point", (("opaque", "q"),)))])):
                ex = Symex(F, concrete_iters=True, loop_bound=10, inline_crates=("geo", "geo_types"), max_depth=12, max_paths=20000)
                ex.resolve_by_receiver = True
                ex.pure_assign_ops = True
                tabs[key] = (f, [p for p in ex.run(f, args=[("&", arg)] + extra) if p.kind != "cut"])
        except (KeyError, Unanalysable) as e:
            rep.bad("R15.7", "twins:%s:unanalysable" % name, str(e))
            continue
        bad = None
        k = 0
        try:
            for cs in wit:
                env0 = {("opaque", "c%d" % i): {"x": cs[i][0], "y": cs[i][1]} for i in range(n)}
                for r in ratios:
                    env = dict(env0)
                    env[("opaque", "v")] = r
                    ev = Ev(F, env)
                    hit = ev.select_path(tabs["interpolate"][1])
                    if len(hit) != 1 or hit[0].kind != "ret":
                        bad = "line_interpolate_point(%s, %s) selects %s" % (cs, r, [h.kind for h in hit])
                        break
                    got = dec_pt(ev.ev(hit[0].ret))
                    want = ref_point(cs, r)
                    k += 1
                    tol = 1e-9 * max(1e-300, max(abs(c) for pt_ in cs for c in pt_))
                    if got is None or abs(got[0] - want[0]) > tol or abs(got[1] - want[1]) > tol:
                        bad = "line_interpolate_point(%s, %s) = %s; the point at that fraction of the length is (%.6g, %.6g)" % (cs, r, got, want[0], want[1])
                        break
                    if 0.0 <= r <= 1.0:
                        env = dict(env0)
                        env[("opaque", "q")] = {"x": want[0], "y": want[1]}
                        ev = Ev(F, env)
                        hit = ev.select_path(tabs["locate"][1])
                        if len(hit) != 1 or hit[0].kind != "ret":
                            bad = "line_locate_point(%s, %s) selects %s" % (cs, want, [h.kind for h in hit])
                            break
                        lr = dec_num(ev.ev(hit[0].ret))
                        k += 1
                        if lr is None or abs(lr - r) > 1e-9:
                            bad = "line_locate_point(%s, (%.6g, %.6g)) = %s, the point was placed at fraction %s" % (cs, want[0], want[1], lr, r)
                            break
                if bad:
                    break
        except (NoModel, TypeError, KeyError, ValueError, ZeroDivisionError) as e:
            bad = "cannot be evaluated: %s" % e
        if bad:
            rep.bad("R15.7", "twins:%s" % name, "%s: %s" % (name, bad), where=fi.loc())
        else:
            n_ok += 1
            rep.ok("R15.7", "twins:%s[%d evaluations]" % (name, k))
    rep.floor("R15.7", "twin tables", n_ok, 2)


def euclidean_primitives(rep, F):
    """R15.8: the segment primitives R15.6 assumes, decided on witnesses through their extracted tables: Euclidean.point_at_ratio_between(a, b, r)
    = a + (b - a) * r and Euclidean.point_at_distance_between(a, b, d) = a + (b - a) * d / |b - a| (Point operators of geo_types inlined)."""
    import math
    from ..numeval import NumEval
    from ..evalterm import NoModel
    rep.rule("R15.8", "Euclidean segment primitives on witnesses: point_at_ratio_between(a, b, r) = a + (b - a) r; point_at_distance_between(a, b, d) = a + (b - a) d / |b - a|")
    IP = "geo::algorithm::line_measures::interpolate_point::InterpolatePoint"
    pts = [(0.0, 0.0), (3.0, 4.0), (-2.0, 5.0), (6.0, -8.0)]
    n_ok = 0
    for meth, vals, ref in (("point_at_ratio_between", (-0.5, 0.0, 0.25, 0.5, 1.0, 1.5), lambda a, b, v: (a[0] + (b[0] - a[0]) * v, a[1] + (b[1] - a[1]) * v)),
                            ("point_at_distance_between", (0.0, 1.0, 2.5, 5.0, 12.0), lambda a, b, v: (a[0] + (b[0] - a[0]) * v / math.hypot(b[0] - a[0], b[1] - a[1]), a[1] + (b[1] - a[1]) * v / math.hypot(b[0] - a[0], b[1] - a[1])))):
        try:
            fn = None
            for im in F.impls_of(IP):
                if im["self_ty"].endswith("euclidean::Euclidean"):
                    fn = F.impl_fn(im, meth)
            if fn is None:
                raise KeyError("Euclidean::%s" % meth)
            paths = [p for p in Symex(F, inline_crates=("geo", "geo_types"), max_depth=12).run(fn) if p.kind != "cut"]
        except (KeyError, Unanalysable) as e:
            rep.bad("R15.8", "euclidean:%s:unanalysable" % meth, str(e))
            continue
        bad = None
        k = 0
        for a in pts:
            for b in pts:
                if a == b:
                    continue
                for v in vals:
                    ev = NumEval(F, {("arg", 1): "euclidean", ("arg", 2): {"0": {"x": a[0], "y": a[1]}}, ("arg", 3): {"0": {"x": b[0], "y": b[1]}}, ("arg", 4): v})
                    try:
                        hit = ev.select_path(paths)
                        if len(hit) != 1 or hit[0].kind != "ret":
                            raise NoModel("row selection %s" % [h.kind for h in hit])
                        r = ev.ev(hit[0].ret)
                        while isinstance(r, dict) and "0" in r and "x" not in r:
                            r = r["0"]
                        got = (float(r["x"]), float(r["y"]))
                    except (NoModel, TypeError, KeyError, ValueError) as e:
                        bad = "cannot be evaluated on %s, %s, %s: %s" % (a, b, v, e)
                        break
                    want = ref(a, b, v)
                    k += 1
                    if abs(got[0] - want[0]) > 1e-9 or abs(got[1] - want[1]) > 1e-9:
                        bad = "%s(%s, %s, %s) = %s, expected (%.6g, %.6g)" % (meth, a, b, v, got, want[0], want[1])
                        break
                if bad:
                    break
            if bad:
                break
        if bad:
            rep.bad("R15.8", "euclidean:%s" % meth, bad, where=fn.loc())
        else:
            n_ok += 1
            rep.ok("R15.8", "euclidean:%s[%d witnesses]" % (meth, k))
    rep.floor("R15.8", "Euclidean primitives", n_ok, 2)
