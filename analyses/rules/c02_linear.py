"""R2.8 — point kernels of LineString on line strings of 3 and 4 coordinates (exact unrolling): Intersects<Coord>, Contains<Coord> and
calculate_coordinate_position are tabulated from MIR and walked with every line string on a 3x3 grid (repeated vertices, closed and open,
self-overlapping ones included; the all-equal degenerate excluded) and every query point of the grid.

Reference (exact integers): the point is on the line string iff it is on one of its segments; the boundary is {first, last} unless the line
string is closed; contains = on it and not on the boundary; position = OnBoundary / Inside / Outside accordingly.
"""
import itertools
from ..symex import Symex, Unanalysable, show_pc
from ..evalterm import Evaluator, Enum, NoModel
from .c02_kernels import Tree, CALLS, HELPERS, G3, on_segment, fmt, INTERSECTS, CONTAINS, COORDPOS_T, position_of, GT

LS = GT + "line_string::LineString"


def ref(ls, q):
    on = any(on_segment(q, ls[i], ls[i + 1]) for i in range(len(ls) - 1))
    closed = ls[0] == ls[-1]
    if not on:
        return "Outside"
    if not closed and q in (ls[0], ls[-1]):
        return "OnBoundary"
    return "Inside"


def _w_int(pos):
    return pos != "Outside"


def _w_con(pos):
    return pos == "Inside"


def _w_pos(pos):
    return pos


def run(rep, F, tier, rule="R2.8", D_int=None):
    rep.rule(rule, "LineString point kernels (3 and 4 coordinates, exact unrolling): intersects / contains / position of a coordinate agree with exact reference geometry on every "
                   "line string of a 3x3 grid (repeated vertices, closed, open) and every query point")
    specs = [("LineString∩Coord", INTERSECTS, "intersects", _w_int, "bool"),
             ("LineString⊇Coord", CONTAINS, "contains", _w_con, "bool"),
             ("LineString.position", COORDPOS_T, "calculate_coordinate_position", _w_pos, "pos")]
    import multiprocessing as mp
    from .c02_small import Recorder
    _CTX.update({"F": F, "D_int": D_int, "rule": rule, "specs": specs})
    try:
        with mp.get_context("fork").Pool(3) as pool:
            results = pool.map(_job, range(len(specs)), chunksize=1)
    except (OSError, ValueError):
        results = [_job(i) for i in range(len(specs))]
    for log in results:
        for kind_, a, kw in log:
            getattr(rep, kind_)(*a, **kw)


_CTX = {}


def _job(i):
    from .c02_small import Recorder
    rec = Recorder()
    _one(rec, _CTX["F"], _CTX["rule"], _CTX["D_int"], _CTX["specs"][i])
    return rec.log


def _one(rep, F, rule, D_int, spec):
    key, trait, meth, want_of, kind = spec
    for _once in (0,):
        inst = None
        try:
            if meth == "intersects":
                # the impl is generic over the right-hand side: take the instance rustc selects for (LineString, Coord)
                if D_int is None:
                    continue
                inst, fn = D_int.impl_instance("LineString", "Coord")
                if fn is None:
                    raise KeyError("no Intersects<Coord> instance for LineString")
            else:
                fn = F.impl_method(trait, r"line_string::LineString<T>$", r"coord::Coord<T>$" if kind == "bool" else None, meth, crates=("geo",))
        except KeyError as e:
            rep.bad(rule, key + ":anchor", str(e))
            continue
        total = 0
        failed = False
        for N in (3, 4):
            elems = tuple(("index", ("field", ("deref", ("arg", 1)), "0"), ("const", i)) for i in range(N))
            ls_t = ("&", ("adt", LS, "LineString", (("call", "vec!", (("array", elems),)),)))
            ex = Symex(F, no_inline=HELPERS + [r"::orient2d$", r"BoundingRect.*::bounding_rect$"], loop_bound=N + 4, max_paths=300000, budget_s=120, concrete_iters=True, mono=(D_int.M if inst is not None else None))
            ex.assume_reflexive = True
            args = [ls_t, ("arg", 2)] + ([("arg", 3), ("arg", 4)] if kind == "pos" else [])
            try:
                paths = [p for p in ex.run(fn, args=args, inst=inst) if p.kind != "cut"]
            except Unanalysable as e:
                rep.bad(rule, key + ":unanalysable", str(e), where=fn.loc())
                failed = True
                break
            rets = [p for p in paths if p.kind == "ret"]
            tree = Tree(rets)
            calls = dict(CALLS)
            def m_bbox(ev, a):
                v = ev.ev(a[0])
                if isinstance(v, dict) and "0" in v and isinstance(v["0"], list):
                    cs = v["0"]
                    if not cs:
                        return Enum("core::option::Option", "None")
                    return Enum("core::option::Option", "Some", [{"min": {"x": min(c["x"] for c in cs), "y": min(c["y"] for c in cs)},
                                                                    "max": {"x": max(c["x"] for c in cs), "y": max(c["y"] for c in cs)}}])
                if isinstance(v, dict) and set(v) == {"x", "y"}:
                    return {"min": v, "max": v}
                raise NoModel("bounding_rect of %r" % (v,))
            calls["geo::algorithm::bounding_rect::BoundingRect::bounding_rect"] = m_bbox
            calls["<geo_types::geometry::line_string::LineString<T> as geo::algorithm::bounding_rect::BoundingRect<T>>::bounding_rect"] = m_bbox
            calls["<geo_types::geometry::coord::Coord<T> as geo::algorithm::bounding_rect::BoundingRect<T>>::bounding_rect"] = m_bbox
            calls["core::convert::AsRef::as_ref"] = lambda ev, a: ev.ev(a[0])
            calls["vec!"] = lambda ev, a: list(ev.ev(a[0]))

            def m_into(ev, a):
                v = ev.ev(a[0])
                if isinstance(v, dict) and set(v) == {"min", "max"}:
                    return Enum("core::option::Option", "Some", [v])      # Rect -> Option<Rect> (the only Into of a Rect in these kernels)
                return v
            calls["core::convert::Into::into"] = m_into

            def m_intersects(ev, a):
                # an unresolved (generic) call `x.intersects(coord)`: answered compositionally — LineString∩Coord and Line∩Coord have their own tables
                x, c = ev.ev(a[0]), ev.ev(a[1])
                if isinstance(c, dict) and set(c) == {"x", "y"}:
                    if isinstance(x, dict) and "0" in x and isinstance(x["0"], list):
                        return any(on_segment(c, x["0"][i], x["0"][i + 1]) for i in range(len(x["0"]) - 1))
                    if isinstance(x, dict) and set(x) == {"start", "end"}:
                        return on_segment(c, x["start"], x["end"])
                raise NoModel("intersects(%r, %r)" % (x, c))
            calls["geo::algorithm::intersects::Intersects::intersects"] = m_intersects
            calls["geo_types::geometry::line_string::LineString::<T>::is_closed"] = lambda ev, a: (lambda v: v["0"][0] == v["0"][-1])(ev.ev(a[0]))
            pts = G3 if N == 3 else G3[::2]
            for vs in itertools.product(pts, repeat=N):
                if all(v == vs[0] for v in vs):
                    continue
                ls = list(vs)
                for q in G3:
                    ev = Evaluator(F, {("arg", 1): {"0": ls}, ("arg", 2): q}, calls)
                    try:
                        hit = tree.select(ev)
                        if len(hit) != 1:
                            rep.bad(rule, key, "line string %s query %s selects %d rows" % (" ".join(fmt(v) for v in ls), fmt(q), len(hit)), where=fn.loc())
                            failed = True
                            break
                        got = position_of(ex, ev, hit[0]) if kind == "pos" else bool(ev.ev(hit[0].ret))
                    except NoModel as e:
                        rep.bad(rule, key + ":non-abstractable", "a decision is not a function of orientation signs and coordinate comparisons (%s)" % e, where=fn.loc())
                        failed = True
                        break
                    want = want_of(ref(ls, q))
                    total += 1
                    if got != want:
                        rep.bad(rule, key, "for the line string %s and the query %s the path table gives %s, exact geometry gives %s (position %s)  [row: %s]" % (
                            " ".join(fmt(v) for v in ls), fmt(q), got, want, ref(ls, q), show_pc(hit[0].pc)[:240]), where=fn.loc(),
                            detail={"linestring": [fmt(v) for v in ls], "query": fmt(q), "got": str(got), "want": str(want)})
                        failed = True
                        break
                if failed:
                    break
            if failed:
                break
        if not failed:
            if total < 2000:
                rep.bad(rule, key + ":floor", "only %d witnesses" % total)
            else:
                rep.ok(rule, "%s[%d witnesses]" % (key, total))
