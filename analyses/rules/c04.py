"""C04 — boolean operations: only geo's hand-off to the overlay engine is decided.

 R4.1 OpType -> OverlayRule is the identity on names
 R4.2 boolean_op: subject = rings of self, clip = rings of other (operand order), fill rule EvenOdd; the four named
      operations pass their own OpType; rings() covers the exterior and every interior of every polygon
 R4.3 ring_to_shape_path drops exactly the closing coordinate of a non-empty ring
 R4.4 polygon_from_shape: every path closed then reversed, first path the exterior, the rest interiors, through Polygon::new
 R4.5 unary_union: the winding is probed on every ring until one has a winding; Clockwise -> Positive, otherwise
      Negative; overlay rule Subject
 R4.6 clip: subject = the line strings, clip = rings of self, EvenOdd, ClipRule { invert: <parameter>, boundary_included: true }
Everything the overlay engine computes (set-theoretic result, snapping tolerance, area identities) is NOT decided.
"""
import re
from ..facts import Facts, short
from ..symex import Symex, Unanalysable, show, show_pc, bare
from ..dispatch import Lam, find_closures
from .c01 import opaque, calls_of

LEVEL = "other"
BO = "geo::algorithm::bool_ops::"
CONV = BO + "i_overlay_integration::convert::"


def run(rep, tier):
    rep.explanation = ("Only the hand-off between geo and the i_overlay engine is analysed: which rings become subject / clip paths and in which "
                       "order, the constants passed (fill rules, overlay rules, clip rule), the ring <-> path conversions. The engine's result "
                       "(point-set semantics, fixed-point snapping, area identities, thread schedules) is outside the tree and not decided.")
    rep.trusted = ["rustc MIR", "i_overlay computes the requested overlay (dependency)", "Winding::winding_order (C05)"]
    rep.assumptions = ["valid (multi)polygons"]
    F = Facts("default")
    optype(rep, F)
    boolean_op(rep, F)
    conversions(rep, F)
    unary(rep, F)
    clip(rep, F)
    # unary_union picks its fill rule from Winding::winding_order of the input rings: the winding tables are shared with C05
    from . import c05
    c05.winding_table(rep, F, rule="R4.7")
    c05.least_index_table(rep, F, rule="R4.7")
    # every exact predicate this property rests on is a sign of the orientation kernel (rules shared with C03)
    from . import c03 as _c03
    _c03.kernel_rules(rep, F, "R4.8")


def optype(rep, F):
    rep.rule("R4.1", "From<OpType> for OverlayRule maps Intersection/Union/Difference/Xor to Intersect/Union/Difference/Xor")
    try:
        fn = F.impl_method("core::convert::From", r"overlay_rule::OverlayRule$", r"bool_ops::OpType$", "from", crates=("geo",))
        ps = [p for p in opaque(F).run(fn) if p.kind == "ret"]
        names = [v["name"] for v in F.adts[BO + "OpType"]["variants"]]
        got = {}
        for p in ps:
            d = [v for t, v in p.pc if t[0] == "discr"]
            if d and p.ret[0] == "adt":
                got[names[d[0]]] = p.ret[2]
        want = {"Intersection": "Intersect", "Union": "Union", "Difference": "Difference", "Xor": "Xor"}
        if got == want:
            rep.ok("R4.1", "optype-map", sample=got)
        else:
            rep.bad("R4.1", "optype-map", "OpType -> OverlayRule is %s" % got, where=fn.loc())
    except (KeyError, Unanalysable) as e:
        rep.bad("R4.1", "anchor", str(e))


def boolean_op(rep, F):
    rep.rule("R4.2", "boolean_op(self, other, op) = overlay(rings(self) as subject, rings(other) as clip, op.into(), EvenOdd); intersection/union/xor/difference pass their own OpType; rings() = exterior then interiors, flat-mapped over members")
    try:
        fn = F.one(r"^%sBooleanOps::boolean_op$" % BO, crates=("geo",))
        ps = [p for p in opaque(F).run(fn) if p.kind == "ret"]
        okk = len(ps) == 1
        if not okk:
            short_cuts = [p for p in ps if not [c for c in calls_of(p) if c[1].endswith("::overlay")]]
            rep.bad("R4.2", "boolean_op:paths", "boolean_op has %d result paths, %d of them return without handing the operands to the overlay engine (guard: %s): "
                    "the result of such a path is not the engine's overlay of ALL rings of both operands" % (len(ps), len(short_cuts), show_pc(short_cuts[0].pc)[:200] if short_cuts else "-"), where=fn.loc())
        if okk:
            ov = [c for c in calls_of(ps[0]) if c[1].endswith("::overlay")]
            okk = len(ov) == 1
            if okk:
                a = [bare(x) for x in ov[0][2]]
                okk = (re.match(r"^collect\(map\(rings\(a1\), fn", a[0]) is not None or re.match(r"^.*collect\(map\(rings\(a1\)", a[0]) is not None) and "rings(a2)" in a[1] and "rings(a1)" not in a[1] \
                    and a[2] == "into(a3)" and a[3] == "FillRule::EvenOdd()" and "ring_to_shape_path" in str(ov[0][2][0]) and "ring_to_shape_path" in str(ov[0][2][1])
                if not okk:
                    rep.bad("R4.2", "boolean_op", "overlay is called with (%s, %s, %s, %s)" % tuple(x[:60] for x in a[:4]), where=fn.loc())
            if okk and not bare(ps[0].ret).startswith("multi_polygon_from_shapes("):
                okk = False
                rep.bad("R4.2", "boolean_op:result", "result is %s" % bare(ps[0].ret)[:80], where=fn.loc())
        if okk:
            rep.ok("R4.2", "boolean_op")
        for meth, var in (("intersection", "Intersection"), ("union", "Union"), ("xor", "Xor"), ("difference", "Difference")):
            f = F.one(r"^%sBooleanOps::%s$" % (BO, meth), crates=("geo",))
            qs = [p for p in opaque(F).run(f) if p.kind == "ret"]
            r = bare(qs[0].ret) if qs else ""
            if len(qs) == 1 and r == "boolean_op(a1, a2, OpType::%s())" % var:
                rep.ok("R4.2", "op:" + meth)
            else:
                rep.bad("R4.2", "op:" + meth, "%s is %s" % (meth, r[:80]), where=f.loc())
        # rings(): decided on concrete shapes (the iterator a shape yields is drained step by step): a polygon yields its exterior, then its
        # interiors in order; a multipolygon the rings of its members in member order.  unary_union reads its fill rule off the FIRST ring.
        from .. import citer
        GT = "geo_types::geometry::"

        def vec(items):
            return ("call", "vec!", (("array", tuple(items)),))

        def ring(name):
            return ("opaque", name)

        def poly(k, nh):
            return ("adt", GT + "polygon::Polygon", "Polygon", (ring("E%d" % k), vec([ring("H%d%d" % (k, j)) for j in range(nh)])))

        def names(items):
            out = []
            for it in items:
                m = re.search(r"\b([EH]\d+)\b", show(it))
                out.append(m.group(1) if m else show(it)[:40])
            return out
        shapes = [("Polygon", r"polygon::Polygon<T>$", poly(0, 2), ["E0", "H00", "H01"]),
                  ("Polygon/no-holes", r"polygon::Polygon<T>$", poly(0, 0), ["E0"]),
                  ("MultiPolygon", r"multi_polygon::MultiPolygon<T>$", ("adt", GT + "multi_polygon::MultiPolygon", "MultiPolygon", (vec([poly(0, 1), poly(1, 0), poly(2, 2)]),)),
                   ["E0", "H00", "E1", "E2", "H20", "H21"]),
                  ("MultiPolygon/empty", r"multi_polygon::MultiPolygon<T>$", ("adt", GT + "multi_polygon::MultiPolygon", "MultiPolygon", (vec([]),)), [])]
        for key, pat, arg, want in shapes:
            f = F.impl_method(BO + "BooleanOps", pat, None, "rings", crates=("geo",))
            ex = Symex(F, concrete_iters=True, loop_bound=10, inline_crates=("geo", "geo_types"), max_depth=12)
            ps = [p for p in ex.run(f, args=[("&", arg)]) if p.kind != "cut"]
            if len(ps) != 1 or ps[0].kind != "ret" or ps[0].pc:
                rep.bad("R4.2", "rings:%s" % key, "rings() of a concrete %s is not a single iterator value (%d paths)" % (key, len(ps)), where=f.loc())
                continue
            try:
                got = names(citer.drain_pure(ex, ps[0].st, ps[0].ret))
            except (citer.NotConcrete, Unanalysable) as e:
                try:
                    # adaptors with closures (flat_map over members): step with the general driver
                    got, cur, st = [], ps[0].ret, ps[0].st
                    for _ in range(64):
                        res = list(citer.step(ex, st, cur))
                        if len(res) != 1:
                            raise Unanalysable("forking iterator")
                        st, it, cur = res[0]
                        if it is None:
                            break
                        got.append(it)
                    got = names(got)
                except (citer.NotConcrete, Unanalysable) as e2:
                    rep.bad("R4.2", "rings:%s" % key, "rings() of a concrete %s cannot be drained: %s" % (key, e2), where=f.loc())
                    continue
            if got == want:
                rep.ok("R4.2", "rings:%s" % key, sample=got)
            else:
                rep.bad("R4.2", "rings:%s" % key, "rings() yields %s, expected %s (each member's exterior first, then its interiors, members in order)" % (got, want), where=f.loc())
    except (KeyError, Unanalysable, IndexError) as e:
        rep.bad("R4.2", "anchor", str(e))


def conversions(rep, F):
    """R4.3 / R4.4 on inputs of concrete size (exact unrolling; helper functions of geo are inlined, so extracting or inlining helpers and
    switching between loops and iterator chains does not matter)."""
    rep.rule("R4.3", "ring_to_shape_path (rings of 0, 1, 2 and 4 coordinates): empty ring -> empty path, otherwise all coordinates but the last, in order, each wrapped unchanged")
    rep.rule("R4.4", "polygon_from_shape (shapes of 0, 1 and 3 paths): each path is turned into a line string, closed, then reversed; the first is the exterior, the rest the interiors in order; result through Polygon::new")
    LS = "geo_types::geometry::line_string::LineString"
    try:
        fn = F.one(r"^%sring_to_shape_path$" % CONV, crates=("geo",))
        okk = True
        for N in (0, 1, 2, 4):
            elems = tuple(("index", ("field", ("deref", ("arg", 1)), "0"), ("const", k)) for k in range(N))
            ring = ("&", ("adt", LS, "LineString", (("call", "vec!", (("array", elems),)),)))
            ps = [p for p in Symex(F, inline_crates=("geo", "geo_types"), loop_bound=N + 3, concrete_iters=True).run(fn, args=[ring])]
            want = "vec!([%s])" % ", ".join("BoolOpsCoord::BoolOpsCoord(a1.0[%d])" % k for k in range(max(N - 1, 0)))
            got = sorted({bare(p.ret) if p.kind == "ret" else p.kind for p in ps})
            if got != [want]:
                okk = False
                rep.bad("R4.3", "drop-last", "a ring of %d coordinates is converted to %s, expected %s (all coordinates but the closing one, in order)" % (N, [g[:120] for g in got][:2], want[:120]), where=fn.loc())
                break
        if okk:
            rep.ok("R4.3", "ring_to_shape_path[0,1,2,4 coordinates]")
    except (KeyError, Unanalysable) as e:
        rep.bad("R4.3", "anchor", str(e))
    try:
        fn = F.one(r"^%spolygon_from_shape$" % CONV, crates=("geo",))
        okk = True
        for K in (0, 1, 3):
            elems = tuple(("index", ("arg", 1), ("const", k)) for k in range(K))
            shape = ("call", "vec!", (("array", elems),))
            ex = Symex(F, inline_crates=("geo", "geo_types"), no_inline=[r"line_string_from_path$", r"LineString::<T>::close$", r"::reverse$", r"Polygon::<T>::new$", r"LineString::<T>::new$"],
                       loop_bound=K + 3, concrete_iters=True)
            ps = ex.run(fn, args=[shape])
            if len(ps) != 1 or ps[0].kind != "ret" or ps[0].pc:
                rep.bad("R4.4", "paths", "polygon_from_shape on %d paths: %s" % (K, [(p.kind, show_pc(p.pc)[:60]) for p in ps][:3]), where=fn.loc())
                okk = False
                break
            p = ps[0]
            r = bare(p.ret)
            if K == 0:
                if not re.match(r"^new\(new\(vec!\(\[\]\)\), vec!\(\[\]\)\)$", r):
                    rep.bad("R4.4", "empty-shape", "an empty shape gives %s, expected Polygon::new(empty line string, no interiors)" % r[:100], where=fn.loc())
                    okk = False
                continue
            m = re.match(r"^new\((.*), vec!\(\[(.*)\]\)\)$", r)
            order = [int(x) for x in re.findall(r"line_string_from_path\(a1\[(\d)\]\)", r)]
            first = [int(x) for x in re.findall(r"line_string_from_path\(a1\[(\d)\]\)", m.group(1))] if m else []
            dedup = [x for i_, x in enumerate(order) if i_ == 0 or order[i_ - 1] != x]
            if not m or set(first) != {0} or dedup != list(range(K)):
                rep.bad("R4.4", "assembly", "the polygon for paths 0..%d is %s: expected Polygon::new(ring of path 0, [rings of the other paths in order])" % (K - 1, r[:160]), where=fn.loc())
                okk = False
                break
            # per path: line_string_from_path, then close, then reverse, nothing else
            for k in range(K):
                ops = [c[1].rsplit("::", 1)[-1] for c in calls_of(p) if c[2] and ("line_string_from_path(a1[%d])" % k in bare(c[2][0]) or bare(c[2][0]) == "a1[%d]" % k)
                       and not c[1].endswith("Polygon::<T>::new")]
                if ops != ["line_string_from_path", "close", "reverse"]:
                    rep.bad("R4.4", "closure", "path %d is processed by %s, expected line_string_from_path, close, reverse (closing after reversing, or not at all, yields rings that are not "
                            "closed / wound like geo's)" % (k, ops), where=fn.loc())
                    okk = False
                    break
            if not okk:
                break
        if okk:
            rep.ok("R4.4", "polygon_from_shape[0,1,3 paths]")
    except (KeyError, Unanalysable, ValueError) as e:
        rep.bad("R4.4", "anchor", str(e))


def unary(rep, F):
    """R4.5 on a collection of two operands with two rings each (exact unrolling; `rings()` is answered by a concrete iterator): every ring
    becomes a subject path, in order; the fill rule is Positive exactly when the FIRST ring (in traversal order) that has a winding is clockwise,
    Negative otherwise (also when no ring has one); overlay rule Subject; the result comes from the engine."""
    from ..symex import _ret
    rep.rule("R4.5", "unary_union (2 operands x 2 rings, exact unrolling): all rings are handed over in order; FillRule::Positive iff the first ring that has a winding order is clockwise, else Negative; OverlayRule::Subject")
    try:
        fn = F.one(r"^%sunary_union$" % BO, crates=("geo",))
    except KeyError as e:
        rep.bad("R4.5", "anchor", str(e))
        return

    def rings_model(ex, st, call, args):
        b = ex.canon(st, args[0])
        while b[0] in ("&", "deref"):
            b = b[1]
        return _ret(st, ("citer", (("&", ("field", b, "r0")), ("&", ("field", b, "r1"))), 0))
    bs = ("&", ("array", (("index", ("arg", 1), ("const", 0)), ("index", ("arg", 1), ("const", 1)))))
    order = ["a1[0].r0", "a1[0].r1", "a1[1].r0", "a1[1].r1"]
    try:
        ex = Symex(F, models={BO + "BooleanOps::rings": rings_model}, inline_crates=("geo", "geo_types"),
                   no_inline=[r"Winding.*::winding_order$", r"ring_to_shape_path$", r"multi_polygon_from_shapes$"], loop_bound=10, concrete_iters=True)
        ps = ex.run(fn, args=[bs])
    except Unanalysable as e:
        rep.bad("R4.5", "unanalysable", str(e), where=fn.loc())
        return
    n = 0
    for p in ps:
        if p.kind != "ret":
            rep.bad("R4.5", "unary_union:paths", "a %s path [%s]" % (p.kind, show_pc(p.pc)[:100]), where=fn.loc())
            return
        ov = [c for c in calls_of(p) if c[1].endswith("::overlay")]
        subj = [c for c in calls_of(p) if c[1].endswith("::with_subj")]
        if len(ov) != 1 or len(subj) != 1:
            rep.bad("R4.5", "unary_union:paths", "a result path of unary_union returns without calling the overlay engine (guard: %s)" % show_pc(p.pc)[:200], where=fn.loc())
            return
        want_subj = "vec!([%s])" % ", ".join("ring_to_shape_path(%s)" % r for r in order)
        if bare(subj[0][2][0]) != want_subj:
            rep.bad("R4.5", "subject", "the subject paths are %s, expected every ring of every operand in order" % bare(subj[0][2][0])[:200], where=fn.loc())
            return
        rule, fill = bare(ov[0][2][1]), bare(ov[0][2][2])
        none, some, eqs = set(), [], {}
        for t, v in p.pc:
            b = bare(t)
            m = re.match(r"^discr\(winding_order\((a1\[\d\]\.r\d)\)\)$", b)
            m2 = re.match(r"^is_none\(winding_order\((a1\[\d\]\.r\d)\)\)$", b)
            m3 = re.match(r"^eq\((?:winding_order\((a1\[\d\]\.r\d)\)|Option::None\(\)), Option::Some\(WindingOrder::Clockwise\(\)\)\)$|^eq\(Option::Some\(WindingOrder::Clockwise\(\)\), (?:winding_order\((a1\[\d\]\.r\d)\)|Option::None\(\))\)$", b)
            if m:
                (some.append(m.group(1)) if v == 1 else none.add(m.group(1)))
            elif m2:
                (none.add(m2.group(1)) if v == 1 else some.append(m2.group(1)))
            elif m3:
                eqs[m3.group(1) or m3.group(2) or "none"] = v
            else:
                rep.bad("R4.5", "winding-probe", "unary_union decides on `%s`, which is not a ring's winding order" % b[:120], where=fn.loc())
                return
        n += 1
        first = some[0] if some else None
        if first is None:
            # the last candidate may be compared directly (its Option value decides: None -> not clockwise)
            direct = [r for r in eqs if r != "none"]
            if len(direct) == 1 and direct[0] not in none:
                first = direct[0]
        prefix = order[:order.index(first)] if first else order
        if any(r not in none for r in prefix):
            rep.bad("R4.5", "winding-probe", "the winding that decides the fill rule is taken from %s although the earlier ring(s) %s were not found to lack a winding: the winding must come from the "
                    "first ring that has one — a collection whose first ring is empty or flat otherwise gets the fill rule for counter-clockwise input whatever its real winding" % (
                        first, [r for r in prefix if r not in none]), where=fn.loc())
            return
        cw = eqs.get(first if first else "none")
        if first is None:
            cw = 0 if cw is None or "none" in eqs else cw
        if cw is None:
            rep.bad("R4.5", "fill-rule-table", "the fill rule does not depend on whether the first wound ring (%s) is clockwise [%s]" % (first, show_pc(p.pc)[:160]), where=fn.loc())
            return
        if rule != "OverlayRule::Subject()" or fill != ("FillRule::Positive()" if (cw == 1 and first is not None) else "FillRule::Negative()"):
            rep.bad("R4.5", "fill-rule-table", "first wound ring %s, clockwise=%s: overlay(%s, %s); expected Subject with Positive exactly for a clockwise first wound ring" % (first, cw, rule, fill), where=fn.loc())
            return
    if n < 5:
        rep.bad("R4.5", "floor", "only %d rows" % n, where=fn.loc())
    else:
        rep.ok("R4.5", "unary_union[%d rows; 2 operands x 2 rings]" % n)


def clip(rep, F):
    rep.rule("R4.6", "clip: subject paths from the line strings, clip paths from rings(self), FillRule::EvenOdd, ClipRule { invert: the parameter, boundary_included: true }")
    try:
        fn = F.one(r"^%sBooleanOps::clip$" % BO, crates=("geo",))
        ex = opaque(F)
        ps = [p for p in ex.run(fn) if p.kind == "ret"]
        noclip = [p for p in ps if not [c for c in calls_of(p) if c[1].endswith("::clip_by")]]
        if ps and noclip:
            rep.bad("R4.6", "clip:paths", "%d of %d result paths of clip return without calling the engine's clip_by (guard: %s)" % (len(noclip), len(ps), show_pc(noclip[0].pc)[:200]), where=fn.loc())
            return
        cb = [c for c in calls_of(ps[0]) if c[1].endswith("::clip_by")] if ps else []
        if not cb:
            rep.bad("R4.6", "clip_by", "clip_by not called", where=fn.loc())
            return
        a = cb[0][2]
        subj, clp, fill, rule = bare(a[0]), bare(a[1]), bare(a[2]), a[3]
        rs = bare(rule)
        problems = []
        if "iter(a2)" not in subj and "a2" not in subj:
            problems.append("subject is %s" % subj[:80])
        if "rings(a1)" not in clp:
            problems.append("clip paths are %s" % clp[:80])
        if fill != "FillRule::EvenOdd()":
            problems.append("fill rule %s" % fill)
        m = re.match(r"^ClipRule::ClipRule\((.*), (.*)\)$", rs)
        if not m or {m.group(1), m.group(2)} != {"a3", "True"}:
            problems.append("clip rule is %s, expected {invert: <parameter>, boundary_included: true}" % rs)
        else:
            # field order: make sure `invert` is the parameter
            if rule[0] == "adt":
                # i_overlay's ClipRule is external: the aggregate records field names in the facts
                pass
        if problems:
            rep.bad("R4.6", "clip", "; ".join(problems), where=fn.loc())
        else:
            rep.ok("R4.6", "clip", sample=rs)
    except (KeyError, Unanalysable, IndexError) as e:
        rep.bad("R4.6", "anchor", str(e))
