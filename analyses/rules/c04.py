"""C04 — boolean operations: only geo's hand-off to the overlay engine is decided.

 R4.1 OpType -> OverlayRule is the identity on names
 R4.2 boolean_op: subject = rings of self, clip = rings of other (operand order), fill rule EvenOdd; the four named
      operations pass their own OpType; rings() covers the exterior and every interior of every polygon
 R4.3 ring_to_shape_path drops exactly the closing coordinate of a non-empty ring
 R4.4 polygon_from_shape: every path closed then reversed, first path the exterior, the rest interiors, through Polygon::new
 R4.5 unary_union: the winding is probed on every ring until one has a winding; Clockwise -> Positive, otherwise
      Negative; overlay rule Subject
 R4.6 clip: subject = the line strings, clip = rings of self, EvenOdd, ClipRule { invert: <parameter>, boundary_included: true }
Everything the overlay engine computes (set-theoretic result, snapping tolerance, area identities) is NOT decided.
"""
import re
from ..facts import Facts, short
from ..symex import Symex, Unanalysable, show, show_pc, bare
from ..dispatch import Lam, find_closures
from .c01 import opaque, calls_of

LEVEL = "other"
BO = "geo::algorithm::bool_ops::"
CONV = BO + "i_overlay_integration::convert::"


def run(rep, tier):
    rep.explanation = ("Only the hand-off between geo and the i_overlay engine is analysed: which rings become subject / clip paths and in which "
                       "order, the constants passed (fill rules, overlay rules, clip rule), the ring <-> path conversions. The engine's result "
                       "(point-set semantics, fixed-point snapping, area identities, thread schedules) is outside the tree and not decided.")
    rep.trusted = ["rustc MIR", "i_overlay computes the requested overlay (dependency)", "Winding::winding_order (C05)"]
    rep.assumptions = ["valid (multi)polygons"]
    F = Facts("default")
    optype(rep, F)
    boolean_op(rep, F)
    conversions(rep, F)
    unary(rep, F)
    clip(rep, F)


def optype(rep, F):
    rep.rule("R4.1", "From<OpType> for OverlayRule maps Intersection/Union/Difference/Xor to Intersect/Union/Difference/Xor")
    try:
        fn = F.impl_method("core::convert::From", r"overlay_rule::OverlayRule$", r"bool_ops::OpType$", "from", crates=("geo",))
        ps = [p for p in opaque(F).run(fn) if p.kind == "ret"]
        names = [v["name"] for v in F.adts[BO + "OpType"]["variants"]]
        got = {}
        for p in ps:
            d = [v for t, v in p.pc if t[0] == "discr"]
            if d and p.ret[0] == "adt":
                got[names[d[0]]] = p.ret[2]
        want = {"Intersection": "Intersect", "Union": "Union", "Difference": "Difference", "Xor": "Xor"}
        if got == want:
            rep.ok("R4.1", "optype-map", sample=got)
        else:
            rep.bad("R4.1", "optype-map", "OpType -> OverlayRule is %s" % got, where=fn.loc())
    except (KeyError, Unanalysable) as e:
        rep.bad("R4.1", "anchor", str(e))


def boolean_op(rep, F):
    rep.rule("R4.2", "boolean_op(self, other, op) = overlay(rings(self) as subject, rings(other) as clip, op.into(), EvenOdd); intersection/union/xor/difference pass their own OpType; rings() = exterior then interiors, flat-mapped over members")
    try:
        fn = F.one(r"^%sBooleanOps::boolean_op$" % BO, crates=("geo",))
        ps = [p for p in opaque(F).run(fn) if p.kind == "ret"]
        okk = len(ps) == 1
        if not okk:
            short_cuts = [p for p in ps if not [c for c in calls_of(p) if c[1].endswith("::overlay")]]
            rep.bad("R4.2", "boolean_op:paths", "boolean_op has %d result paths, %d of them return without handing the operands to the overlay engine (guard: %s): "
                    "the result of such a path is not the engine's overlay of ALL rings of both operands" % (len(ps), len(short_cuts), show_pc(short_cuts[0].pc)[:200] if short_cuts else "-"), where=fn.loc())
        if okk:
            ov = [c for c in calls_of(ps[0]) if c[1].endswith("::overlay")]
            okk = len(ov) == 1
            if okk:
                a = [bare(x) for x in ov[0][2]]
                okk = (re.match(r"^collect\(map\(rings\(a1\), fn", a[0]) is not None or re.match(r"^.*collect\(map\(rings\(a1\)", a[0]) is not None) and "rings(a2)" in a[1] and "rings(a1)" not in a[1] \
                    and a[2] == "into(a3)" and a[3] == "FillRule::EvenOdd()" and "ring_to_shape_path" in str(ov[0][2][0]) and "ring_to_shape_path" in str(ov[0][2][1])
                if not okk:
                    rep.bad("R4.2", "boolean_op", "overlay is called with (%s, %s, %s, %s)" % tuple(x[:60] for x in a[:4]), where=fn.loc())
            if okk and not bare(ps[0].ret).startswith("multi_polygon_from_shapes("):
                okk = False
                rep.bad("R4.2", "boolean_op:result", "result is %s" % bare(ps[0].ret)[:80], where=fn.loc())
        if okk:
            rep.ok("R4.2", "boolean_op")
        for meth, var in (("intersection", "Intersection"), ("union", "Union"), ("xor", "Xor"), ("difference", "Difference")):
            f = F.one(r"^%sBooleanOps::%s$" % (BO, meth), crates=("geo",))
            qs = [p for p in opaque(F).run(f) if p.kind == "ret"]
            r = bare(qs[0].ret) if qs else ""
            if len(qs) == 1 and r == "boolean_op(a1, a2, OpType::%s())" % var:
                rep.ok("R4.2", "op:" + meth)
            else:
                rep.bad("R4.2", "op:" + meth, "%s is %s" % (meth, r[:80]), where=f.loc())
        ex = Symex(F, inline_crates=(), no_inline=[])
        fp = F.impl_method(BO + "BooleanOps", r"polygon::Polygon<T>$", None, "rings", crates=("geo",))
        r = bare([p for p in opaque(F).run(fp) if p.kind == "ret"][0].ret)
        if r == "chain(once(exterior(a1)), interiors(a1))":
            rep.ok("R4.2", "rings:Polygon")
        else:
            rep.bad("R4.2", "rings:Polygon", "Polygon::rings is %s" % r[:100], where=fp.loc())
        fm = F.impl_method(BO + "BooleanOps", r"multi_polygon::MultiPolygon<T>$", None, "rings", crates=("geo",))
        r = bare([p for p in opaque(F).run(fm) if p.kind == "ret"][0].ret)
        if re.match(r"^flat_map\(iter\(a1\), fn\(.*BooleanOps::rings", r) or r.startswith("flat_map(iter(a1), "):
            rep.ok("R4.2", "rings:MultiPolygon")
        else:
            rep.bad("R4.2", "rings:MultiPolygon", "MultiPolygon::rings is %s" % r[:100], where=fm.loc())
    except (KeyError, Unanalysable, IndexError) as e:
        rep.bad("R4.2", "anchor", str(e))


def conversions(rep, F):
    rep.rule("R4.3", "ring_to_shape_path: empty ring -> empty path, otherwise all coordinates but the last, in order")
    rep.rule("R4.4", "polygon_from_shape: each path is turned into a line string, closed, reversed; the first is the exterior, the rest the interiors; result through Polygon::new")
    try:
        fn = F.one(r"^%sring_to_shape_path$" % CONV, crates=("geo",))
        ps = [p for p in opaque(F).run(fn) if p.kind == "ret"]
        okk = True
        seen = set()
        for p in ps:
            e = [v for t, v in p.pc if "is_empty" in bare(t)]
            r = bare(p.ret)
            if e and e[0] == 1:
                seen.add("empty")
                if not re.search(r"vec!\(\[\]\)|new\(\)|into_vec", r):
                    okk = False
            else:
                seen.add("drop-last")
                if not (re.search(r"a1\.0\[RangeTo::RangeTo\(\(len\(a1\.0\) Sub 1\)\)\]|index\(a1\.0, RangeTo::RangeTo\(sub\(len\(a1\.0\), 1\)\)\)", r) and r.startswith("collect(map(copied(iter(")):
                    okk = False
                    rep.bad("R4.3", "drop-last", "non-empty ring is converted to %s, expected ring[..len-1] copied in order" % r[:140], where=fn.loc())
        if okk and seen == {"empty", "drop-last"}:
            rep.ok("R4.3", "ring_to_shape_path")
        elif okk:
            rep.bad("R4.3", "rows", "rows %s" % seen, where=fn.loc())
    except (KeyError, Unanalysable) as e:
        rep.bad("R4.3", "anchor", str(e))
    try:
        fn = F.one(r"^%spolygon_from_shape$" % CONV, crates=("geo",))
        cls = F.closures_of(fn)
        seq = []
        for g in cls:
            seq += [c.path.rsplit("::", 1)[-1] for c in g.calls()]
        main = [c.path.rsplit("::", 1)[-1] for c in fn.calls()]
        i_close = seq.index("close") if "close" in seq else -1
        i_rev = seq.index("reverse") if "reverse" in seq else -1
        if not (seq and seq[0] == "line_string_from_path" and 0 < i_close < i_rev):
            rep.bad("R4.4", "closure", "each path is processed by %s, expected line_string_from_path, close, reverse" % seq, where=fn.loc())
        elif not ("next" in main and "collect" in main and main[-1] == "new" or (main.index("next") < main.index("collect") and "new" in main)):
            rep.bad("R4.4", "assembly", "polygon assembled by %s, expected first path as exterior (next), rest collected as interiors, Polygon::new" % main, where=fn.loc())
        else:
            rep.ok("R4.4", "polygon_from_shape", sample={"per_path": seq, "assembly": main})
    except (KeyError, ValueError) as e:
        rep.bad("R4.4", "anchor", str(e))


def unary(rep, F):
    rep.rule("R4.5", "unary_union probes the winding of every ring until one is found (inside the per-ring closure, guarded by is_none), Clockwise -> Positive else Negative, OverlayRule::Subject")
    try:
        fn = F.one(r"^%sunary_union$" % BO, crates=("geo",))
    except KeyError as e:
        rep.bad("R4.5", "anchor", str(e))
        return
    sites = []
    for g in [fn] + F.closures_of(fn):
        names = [c.path.rsplit("::", 1)[-1] for c in g.calls()]
        for c in g.calls():
            if c.method == "winding_order":
                per_ring = g.kind == "Closure" and any("LineString" in ty for ty in g.locals[2:g.arg_count + 1])
                guarded = "is_none" in names and names.index("is_none") < names.index("winding_order")
                sites.append((g, per_ring, guarded, names))
    if not sites:
        rep.bad("R4.5", "winding-probe", "unary_union never asks a ring for its winding", where=fn.loc())
    for g, per_ring, guarded, names in sites:
        if per_ring and guarded:
            rep.ok("R4.5", "winding-probe-per-ring", sample=names)
        else:
            rep.bad("R4.5", "winding-probe", "the winding is %s: a collection whose first ring has no winding (an empty or flat ring) gets the fill rule for counter-clockwise input whatever its real winding" %
                    ("probed outside the per-ring traversal (only one ring is asked)" if not per_ring else "overwritten by later rings instead of kept from the first ring that has one"), where=g.loc())
    try:
        ps = [p for p in opaque(F).run(fn) if p.kind == "ret"]
        tab = {}
        for p in ps:
            ov = [c for c in calls_of(p) if c[1].endswith("::overlay")]
            if not ov:
                rep.bad("R4.5", "unary_union:paths", "a result path of unary_union returns without calling the overlay engine (guard: %s)" % show_pc(p.pc)[:200], where=fn.loc())
                continue
            rule, fill = bare(ov[0][2][1]), bare(ov[0][2][2])
            atoms = [(bare(t), v) for t, v in p.pc if "Clockwise" in bare(t)]
            if atoms:
                tab[atoms[-1][1]] = (rule, fill, atoms[-1][0])
        good = tab.get(1, ("", "", ""))[:2] == ("OverlayRule::Subject()", "FillRule::Positive()") and tab.get(0, ("", "", ""))[:2] == ("OverlayRule::Subject()", "FillRule::Negative()") \
            and "WindingOrder::Clockwise()" in tab[1][2] and "CounterClockwise" not in tab[1][2]
        if good:
            rep.ok("R4.5", "fill-rule-table")
        else:
            rep.bad("R4.5", "fill-rule-table", "fill rule table is %s" % {k: v[:2] for k, v in tab.items()}, where=fn.loc())
    except (Unanalysable, KeyError) as e:
        rep.bad("R4.5", "unanalysable", str(e), where=fn.loc())


def clip(rep, F):
    rep.rule("R4.6", "clip: subject paths from the line strings, clip paths from rings(self), FillRule::EvenOdd, ClipRule { invert: the parameter, boundary_included: true }")
    try:
        fn = F.one(r"^%sBooleanOps::clip$" % BO, crates=("geo",))
        ex = opaque(F)
        ps = [p for p in ex.run(fn) if p.kind == "ret"]
        noclip = [p for p in ps if not [c for c in calls_of(p) if c[1].endswith("::clip_by")]]
        if ps and noclip:
            rep.bad("R4.6", "clip:paths", "%d of %d result paths of clip return without calling the engine's clip_by (guard: %s)" % (len(noclip), len(ps), show_pc(noclip[0].pc)[:200]), where=fn.loc())
            return
        cb = [c for c in calls_of(ps[0]) if c[1].endswith("::clip_by")] if ps else []
        if not cb:
            rep.bad("R4.6", "clip_by", "clip_by not called", where=fn.loc())
            return
        a = cb[0][2]
        subj, clp, fill, rule = bare(a[0]), bare(a[1]), bare(a[2]), a[3]
        rs = bare(rule)
        problems = []
        if "iter(a2)" not in subj and "a2" not in subj:
            problems.append("subject is %s" % subj[:80])
        if "rings(a1)" not in clp:
            problems.append("clip paths are %s" % clp[:80])
        if fill != "FillRule::EvenOdd()":
            problems.append("fill rule %s" % fill)
        m = re.match(r"^ClipRule::ClipRule\((.*), (.*)\)$", rs)
        if not m or {m.group(1), m.group(2)} != {"a3", "True"}:
            problems.append("clip rule is %s, expected {invert: <parameter>, boundary_included: true}" % rs)
        else:
            # field order: make sure `invert` is the parameter
            if rule[0] == "adt":
                # i_overlay's ClipRule is external: the aggregate records field names in the facts
                pass
        if problems:
            rep.bad("R4.6", "clip", "; ".join(problems), where=fn.loc())
        else:
            rep.ok("R4.6", "clip", sample=rs)
    except (KeyError, Unanalysable, IndexError) as e:
        rep.bad("R4.6", "anchor", str(e))
