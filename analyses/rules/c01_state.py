"""C01 — the small state-holding types of the relate pipeline, decided by bounded-exhaustive evaluation of their MIR.

The topology graph records what it has learnt about a node / edge in `Label` = [TopologyPosition; 2] and finally folds the
labels into the matrix.  Every one of these functions is loop-free (or a loop over a bundle of a given size) on a finite
domain, so its complete decision table can be compared with the meaning the pipeline relies on:

 R1.8  TopologyPosition / Label are faithful records: constructors, get / set laws (a write changes exactly the addressed
       slot of the addressed operand), flip (left <-> right of both operands), swap_args, emptiness / kind queries.
 R1.9  matrix update: set_at_least is max; set_at_least_if_in_both writes only when both positions are known; an edge
       label contributes (on,on) >= 1 and for area labels (left,left) >= 2, (right,right) >= 2; a node label (on,on) >= 0;
       set_label_boundary is the mod-2 toggle.
 R1.10 bundle labels (0..3 edge ends, every assignment of member positions): on = determine_boundary(#OnBoundary) if
       any member is OnBoundary, else Inside if any is Inside, else unchanged; side = Inside if any area member is Inside
       on that side, else Outside if any is Outside, else unchanged.

These are necessary for the matrix to be the true one (a wrong slot or a wrong fold yields a wrong cell for some pair of
operands); they do not establish that noding and label propagation over the graph are right.
"""
import itertools
import re
from ..symex import Symex, Unanalysable, show

CP = "geo::algorithm::coordinate_position::CoordPos"
OPT = "core::option::Option"
GGM = "geo::algorithm::relate::geomgraph"
TP = GGM + "::topology_position::TopologyPosition"
LABEL = GGM + "::label::Label"
DIR = GGM + "::Direction"
DIMS = "geo::algorithm::dimensions::Dimensions"
IM = GGM + "::intersection_matrix::IntersectionMatrix"
POS = ("Inside", "OnBoundary", "Outside")
OPOS = (None,) + POS
DIRS = ("On", "Left", "Right")
LOGATOM = re.compile(r"log::|Level::|max_level")
DIMV = ("Empty", "ZeroDimensional", "OneDimensional", "TwoDimensional")


# ------------------------------------------------------------------------------------------------ value encoding
def cp(x):
    return ("adt", CP, x, ())


def opt(x):
    return ("adt", OPT, "None", ()) if x is None else ("adt", OPT, "Some", (cp(x),))


def dirv(d):
    return ("adt", DIR, d, ())


def dimv(d):
    return ("adt", DIMS, d, ())


def tp_enc(t):
    """model value ("A", on, left, right) | ("L", on) -> symex term (ADT field order: on, left, right)"""
    if t[0] == "A":
        return ("adt", TP, "Area", (opt(t[1]), opt(t[2]), opt(t[3])))
    return ("adt", TP, "LineOrPoint", (opt(t[1]),))


class Undecodable(Exception):
    pass


def cp_dec(v):
    if isinstance(v, tuple) and v[0] == "adt" and v[1] == CP:
        return v[2]
    raise Undecodable("not a concrete CoordPos: %s" % show(v)[:80])


def opt_dec(v):
    if isinstance(v, tuple) and v[0] == "adt" and v[1] == OPT:
        return None if v[2] == "None" else cp_dec(v[3][0])
    raise Undecodable("not a concrete Option<CoordPos>: %s" % show(v)[:80])


def tp_dec(v):
    if isinstance(v, tuple) and v[0] == "adt" and v[1] == TP:
        if v[2] == "Area":
            return ("A",) + tuple(opt_dec(x) for x in v[3])
        return ("L", opt_dec(v[3][0]))
    raise Undecodable("not a concrete TopologyPosition: %s" % show(v)[:80])


def label_enc(l):
    return ("adt", LABEL, "Label", (("array", (tp_enc(l[0]), tp_enc(l[1]))),))


def label_dec(v):
    if isinstance(v, tuple) and v[0] == "adt" and v[1] == LABEL:
        arr = v[3][0]
        if arr[0] == "array" and len(arr[1]) == 2:
            return (tp_dec(arr[1][0]), tp_dec(arr[1][1]))
    raise Undecodable("not a concrete Label: %s" % show(v)[:80])


def bool_dec(v):
    if v == ("const", True) or v == ("const", 1):
        return True
    if v == ("const", False) or v == ("const", 0):
        return False
    raise Undecodable("not a concrete bool: %s" % show(v)[:60])


def int_dec(v):
    if v[0] == "const" and isinstance(v[1], int):
        return int(v[1])
    raise Undecodable("not a concrete integer: %s" % show(v)[:60])


ALL_TP = [("A", a, b, c) for a in OPOS for b in OPOS for c in OPOS] + [("L", a) for a in OPOS]
# a smaller domain for the operand that a Label method does not address (every kind, empty / partial / full, all-different slots)
SOME_TP = [("A", None, None, None), ("A", "Inside", "OnBoundary", "Outside"), ("A", "Outside", None, "Inside"), ("A", None, "Inside", None),
           ("L", None), ("L", "Inside"), ("L", "OnBoundary")]


# ------------------------------------------------------------------------------------------------ reference semantics
def tp_get(t, d):
    if t[0] == "A":
        return t[1 + DIRS.index(d)]
    if d == "On":
        return t[1]
    return "PANIC"


def tp_set(t, d, p):
    if t[0] == "A":
        l = list(t)
        l[1 + DIRS.index(d)] = p
        return tuple(l)
    if d == "On":
        return ("L", p)
    return "PANIC"


def tp_is_empty(t):
    return all(x is None for x in t[1:])


def tp_is_any_empty(t):
    return any(x is None for x in t[1:])


def tp_flip(t):
    return ("A", t[1], t[3], t[2]) if t[0] == "A" else t


def tp_set_all(t, p):
    return (t[0],) + tuple(p for _ in t[1:])


def tp_set_all_if_empty(t, p):
    return (t[0],) + tuple(p if x is None else x for x in t[1:])


# ------------------------------------------------------------------------------------------------ evaluation
class Eval:
    """runs one function on concrete arguments; returns ("ret", value, final memory) or ("panic",)"""

    def __init__(self, F, fn, **kw):
        self.F, self.fn = F, fn
        self.kw = kw

    def __call__(self, args, mem=None):
        ex = Symex(self.F, concrete_iters=True, budget_s=10.0, loop_bound=8, **self.kw)
        ex.fold_ground_eq = True
        ex.live_iter_mut = True
        ps = ex.run(self.fn, args=list(args), mem=mem)
        ps = [p for p in ps if p.kind != "cut"]
        out = []
        for p in ps:
            # the only admissible forks on concrete input are the log-level tests of log::error! / debug! (no effect on the data)
            other = [t for t, _ in p.pc if not LOGATOM.search(show(t))]
            if other:
                raise Unanalysable("decision on a non-constant: %s" % show(other[0])[:80])
            if p.kind == "panic":
                out.append(("panic", None, None, p))
            else:
                final = {k[1]: ex.canon(p.st, v) for k, v in p.st.mem.items() if k[0] == "S"}
                out.append(("ret", p.ret, final, p))
        if not out:
            raise Unanalysable("no path on concrete input")
        return out


def _fn(F, pat):
    return F.one(pat, crates=("geo",))


def topology_position(rep, F):
    rep.rule("R1.8", "TopologyPosition / Label are faithful records: constructors, get/set laws (a write changes exactly the addressed slot of the addressed operand), flip = left<->right of both operands, swap_args, emptiness and kind queries (exhaustive over all 68 position records)")
    n = 0

    def check(name, cases):
        """cases: iterable of (description, args, mem, expectation fn(result) -> error string | None)"""
        nonlocal n
        try:
            fn = _fn(F, r"^%s::%s$" % (TP, name))
            ev = Eval(F, fn)
            k = 0
            for desc, args, mem, expect in cases:
                k += 1
                err = None
                for res in ev(args, mem):
                    err = err or expect(res)
                if err:
                    rep.bad("R1.8", "TopologyPosition::%s" % name, "TopologyPosition::%s on %s: %s" % (name, desc, err), where=fn.loc())
                    return
            n += 1
            rep.ok("R1.8", "TopologyPosition::%s[%d cases]" % (name, k))
        except (KeyError, Unanalysable, Undecodable) as e:
            rep.bad("R1.8", "TopologyPosition::%s:unanalysable" % name, str(e))

    def want_ret(dec, want):
        def f(res):
            if res[0] != "ret":
                return "panics, expected %s" % (want,)
            got = dec(res[1])
            return None if got == want else "returns %s, expected %s" % (got, want)
        return f

    def want_mem(want):
        def f(res):
            if want == "PANIC":
                return None     # no valid input reaches this case today (it panics): any behaviour is unobservable
            if res[0] != "ret":
                return "panics, expected the record to become %s" % (want,)
            got = tp_dec(res[2].get(("arg", 1)))
            return None if got == want else "leaves the record as %s, expected %s" % (got, want)
        return f

    A1 = ("arg", 1)
    check("area", [("(%s,%s,%s)" % (a, b, c), [cp(a), cp(b), cp(c)], None, want_ret(tp_dec, ("A", a, b, c))) for a in POS for b in POS for c in POS])
    check("empty_area", [("()", [], None, want_ret(tp_dec, ("A", None, None, None)))])
    check("line_or_point", [("(%s)" % a, [cp(a)], None, want_ret(tp_dec, ("L", a))) for a in POS])
    check("empty_line_or_point", [("()", [], None, want_ret(tp_dec, ("L", None)))])

    def get_cases():
        for t in ALL_TP:
            for d in DIRS:
                w = tp_get(t, d)
                if w == "PANIC":
                    yield ("%s, %s" % (t, d), [A1, dirv(d)], {A1: tp_enc(t)}, lambda res: None)
                else:
                    yield ("%s, %s" % (t, d), [A1, dirv(d)], {A1: tp_enc(t)}, want_ret(opt_dec, w))
    check("get", get_cases())
    check("is_empty", [(str(t), [A1], {A1: tp_enc(t)}, want_ret(bool_dec, tp_is_empty(t))) for t in ALL_TP])
    check("is_any_empty", [(str(t), [A1], {A1: tp_enc(t)}, want_ret(bool_dec, tp_is_any_empty(t))) for t in ALL_TP])
    check("is_area", [(str(t), [A1], {A1: tp_enc(t)}, want_ret(bool_dec, t[0] == "A")) for t in ALL_TP])
    check("is_line", [(str(t), [A1], {A1: tp_enc(t)}, want_ret(bool_dec, t[0] == "L")) for t in ALL_TP])
    check("flip", [(str(t), [A1], {A1: tp_enc(t)}, want_mem(tp_flip(t))) for t in ALL_TP])
    check("set_all_positions", [("%s <- %s" % (t, p), [A1, cp(p)], {A1: tp_enc(t)}, want_mem(tp_set_all(t, p))) for t in ALL_TP for p in POS])
    check("set_all_positions_if_empty", [("%s <- %s" % (t, p), [A1, cp(p)], {A1: tp_enc(t)}, want_mem(tp_set_all_if_empty(t, p))) for t in ALL_TP for p in POS])

    def setpos_cases():
        for t in ALL_TP:
            for d in DIRS:
                for p in POS:
                    w = tp_set(t, d, p)
                    if w == "PANIC":
                        yield ("%s[%s] <- %s" % (t, d, p), [A1, dirv(d), cp(p)], {A1: tp_enc(t)}, lambda res: None)
                    else:
                        yield ("%s[%s] <- %s" % (t, d, p), [A1, dirv(d), cp(p)], {A1: tp_enc(t)}, want_mem(w))
    check("set_position", setpos_cases())
    check("set_on_position", [("%s <- %s" % (t, p), [A1, cp(p)], {A1: tp_enc(t)}, want_mem(tp_set(t, "On", p))) for t in ALL_TP for p in POS])

    def setloc_cases():
        for t in SOME_TP:
            for a, b, c in itertools.product(POS, POS, POS):
                if t[0] == "A":
                    yield ("%s <- (%s,%s,%s)" % (t, a, b, c), [A1, cp(a), cp(b), cp(c)], {A1: tp_enc(t)}, want_mem(("A", a, b, c)))
                else:
                    def f(res, t=t):
                        if res[0] == "panic":
                            return None
                        got = tp_dec(res[2].get(A1)) if res[2].get(A1) is not None else t
                        return None if got == t else "turns the line/point record %s into %s" % (t, got)
                    yield ("%s <- (%s,%s,%s)" % (t, a, b, c), [A1, cp(a), cp(b), cp(c)], {A1: tp_enc(t)}, f)
    check("set_locations", setloc_cases())
    rep.floor("R1.8", "TopologyPosition methods tabulated", n, 15)


def label(rep, F):
    n = 0
    A1 = ("arg", 1)
    LABELS = [(a, b) for a in ALL_TP for b in SOME_TP] + [(b, a) for a in ALL_TP for b in SOME_TP]

    def check(name, cases):
        nonlocal n
        try:
            fn = _fn(F, r"^%s::%s$" % (LABEL, name))
            ev = Eval(F, fn)
            k = 0
            for desc, args, mem, expect in cases:
                k += 1
                err = None
                for res in ev(args, mem):
                    err = err or expect(res)
                if err:
                    rep.bad("R1.8", "Label::%s" % name, "Label::%s on %s: %s" % (name, desc, err), where=fn.loc())
                    return
            n += 1
            rep.ok("R1.8", "Label::%s[%d cases]" % (name, k))
        except (KeyError, Unanalysable, Undecodable) as e:
            rep.bad("R1.8", "Label::%s:unanalysable" % name, str(e))

    def want_ret(dec, want):
        def f(res):
            if want == "PANIC":
                return None
            if res[0] != "ret":
                return "panics, expected %s" % (want,)
            got = dec(res[1])
            return None if got == want else "returns %s, expected %s" % (got, want)
        return f

    def want_mem(want, orig):
        def f(res):
            if want == "PANIC":
                return None
            if res[0] != "ret":
                return "panics, expected the label to become %s" % (want,)
            v = res[2].get(A1)
            got = label_dec(v) if v is not None else orig
            return None if got == want else "leaves the label as %s, expected %s" % (got, want)
        return f

    def upd(l, i, t):
        if t == "PANIC":
            return "PANIC"
        return (t, l[1]) if i == 0 else (l[0], t)

    def mem(l):
        return {A1: label_enc(l)}

    def idx(i):
        return ("const", i)

    check("empty_line_or_point", [("()", [], None, want_ret(label_dec, (("L", None), ("L", None))))])
    check("empty_area", [("()", [], None, want_ret(label_dec, (("A", None, None, None), ("A", None, None, None))))])

    def new_cases():
        for i in (0, 1):
            for t in ALL_TP:
                e = ("A", None, None, None) if t[0] == "A" else ("L", None)
                yield ("(%d, %s)" % (i, t), [idx(i), tp_enc(t)], None, want_ret(label_dec, upd((e, e), i, t)))
    check("new", new_cases())
    check("swap_args", [(str(l), [A1], mem(l), want_mem((l[1], l[0]), l)) for l in LABELS])
    check("flip", [(str(l), [A1], mem(l), want_mem((tp_flip(l[0]), tp_flip(l[1])), l)) for l in LABELS])
    check("position", [("%s, %d, %s" % (l, i, d), [A1, idx(i), dirv(d)], mem(l), want_ret(opt_dec, tp_get(l[i], d))) for l in LABELS for i in (0, 1) for d in DIRS])
    check("on_position", [("%s, %d" % (l, i), [A1, idx(i)], mem(l), want_ret(opt_dec, tp_get(l[i], "On"))) for l in LABELS for i in (0, 1)])
    check("set_position", [("%s[%d][%s] <- %s" % (l, i, d, p), [A1, idx(i), dirv(d), cp(p)], mem(l), want_mem(upd(l, i, tp_set(l[i], d, p)), l))
                           for l in LABELS for i in (0, 1) for d in DIRS for p in POS[:2]])
    check("set_on_position", [("%s[%d] <- %s" % (l, i, p), [A1, idx(i), cp(p)], mem(l), want_mem(upd(l, i, tp_set(l[i], "On", p)), l)) for l in LABELS for i in (0, 1) for p in POS])
    check("set_all_positions", [("%s[%d] <- %s" % (l, i, p), [A1, idx(i), cp(p)], mem(l), want_mem(upd(l, i, tp_set_all(l[i], p)), l)) for l in LABELS for i in (0, 1) for p in POS[1:]])
    check("set_all_positions_if_empty", [("%s[%d] <- %s" % (l, i, p), [A1, idx(i), cp(p)], mem(l), want_mem(upd(l, i, tp_set_all_if_empty(l[i], p)), l)) for l in LABELS for i in (0, 1) for p in POS[1:]])
    check("geometry_count", [(str(l), [A1], mem(l), want_ret(int_dec, sum(0 if tp_is_empty(t) else 1 for t in l))) for l in LABELS])
    check("is_empty", [("%s, %d" % (l, i), [A1, idx(i)], mem(l), want_ret(bool_dec, tp_is_empty(l[i]))) for l in LABELS for i in (0, 1)])
    check("is_any_empty", [("%s, %d" % (l, i), [A1, idx(i)], mem(l), want_ret(bool_dec, tp_is_any_empty(l[i]))) for l in LABELS for i in (0, 1)])
    check("is_area", [(str(l), [A1], mem(l), want_ret(bool_dec, l[0][0] == "A" or l[1][0] == "A")) for l in LABELS])
    check("is_geom_area", [("%s, %d" % (l, i), [A1, idx(i)], mem(l), want_ret(bool_dec, l[i][0] == "A")) for l in LABELS for i in (0, 1)])
    check("is_line", [("%s, %d" % (l, i), [A1, idx(i)], mem(l), want_ret(bool_dec, l[i][0] == "L")) for l in LABELS for i in (0, 1)])
    rep.floor("R1.8", "Label methods tabulated", n, 17)


# ------------------------------------------------------------------------------------------------ R1.9 matrix update
LA = GGM + "::intersection_matrix::LocationArray"
NODE = GGM + "::node::CoordNode"
EDGE = GGM + "::edge::Edge"


def la(items):
    return ("adt", LA, "LocationArray", (("array", tuple(items)),))


def im_enc(m):
    """m: 3x3 tuple of dimension names, rows = position in A"""
    return ("adt", IM, "IntersectionMatrix", (la([la([dimv(c) for c in row]) for row in m]),))


def im_dec(v):
    try:
        rows = v[3][0][3][0][1]
        out = []
        for r in rows:
            cells = r[3][0][1]
            out.append(tuple(c[2] if (c[0] == "adt" and c[1] == DIMS) else None for c in cells))
        if any(c is None for r in out for c in r):
            raise Undecodable("matrix with a non-constant cell: %s" % show(v)[:120])
        return tuple(out)
    except (IndexError, TypeError):
        raise Undecodable("not a concrete matrix: %s" % show(v)[:120])


def im_set(m, a, b, d, at_least):
    i, j = POS.index(a), POS.index(b)
    rows = [list(r) for r in m]
    if not at_least or DIMV.index(rows[i][j]) < DIMV.index(d):
        rows[i][j] = d
    return tuple(tuple(r) for r in rows)


BASE_MATRICES = [
    tuple(tuple("Empty" for _ in range(3)) for _ in range(3)),
    (("Empty", "ZeroDimensional", "OneDimensional"), ("TwoDimensional", "OneDimensional", "Empty"), ("ZeroDimensional", "TwoDimensional", "OneDimensional")),
    (("OneDimensional", "OneDimensional", "TwoDimensional"), ("ZeroDimensional", "Empty", "ZeroDimensional"), ("TwoDimensional", "Empty", "TwoDimensional")),
]


def edge_contrib(l):
    """cells an edge label contributes: [(posA, posB, dim)]"""
    out = []
    a, b = tp_get(l[0], "On"), tp_get(l[1], "On")
    if a is not None and b is not None:
        out.append((a, b, "OneDimensional"))
    if l[0][0] == "A" or l[1][0] == "A":
        for d in ("Left", "Right"):
            a, b = tp_get(l[0], d), tp_get(l[1], d)
            if "PANIC" in (a, b):
                return None
            if a is not None and b is not None:
                out.append((a, b, "TwoDimensional"))
    return out


def matrix_update(rep, F):
    rep.rule("R1.9", "matrix update tables: set writes exactly the addressed cell; set_at_least is max(old, new) on that cell; set_at_least_if_in_both writes only when both positions are known; an edge label contributes (on,on)>=1 and, for area labels, (left,left)>=2 and (right,right)>=2; a node label contributes (on,on)>=0; set_label_boundary is the mod-2 toggle (every cell, every previous value, three base matrices)")
    A1, A2 = ("arg", 1), ("arg", 2)
    n = 0

    def table(key, pat, cases, no_inline=()):
        nonlocal n
        try:
            fn = _fn(F, pat)
            ev = Eval(F, fn, no_inline=list(no_inline))
            k = 0
            for desc, args, mem, expect in cases:
                k += 1
                err = None
                for res in ev(args, mem):
                    err = err or expect(res)
                if err:
                    rep.bad("R1.9", key, "%s on %s: %s" % (key, desc, err), where=fn.loc())
                    return
            n += 1
            rep.ok("R1.9", "%s[%d cases]" % (key, k))
        except (KeyError, Unanalysable, Undecodable) as e:
            rep.bad("R1.9", key + ":unanalysable", str(e))

    def want_matrix(which, want, orig):
        def f(res):
            if res[0] != "ret":
                return "panics"
            v = res[2].get(which)
            got = im_dec(v) if v is not None else orig
            return None if got == want else "matrix becomes %s, expected %s" % (mshow(got), mshow(want))
        return f

    def mshow(m):
        return "".join({"Empty": "F", "ZeroDimensional": "0", "OneDimensional": "1", "TwoDimensional": "2"}[c] for r in m for c in r)

    for name, at_least in (("set", False), ("set_at_least", True)):
        table("IntersectionMatrix::" + name, r"^%s::%s$" % (IM, name),
              [("%s (%s,%s) <- %s" % (mshow(m), a, b, d), [A1, cp(a), cp(b), dimv(d)], {A1: im_enc(m)}, want_matrix(A1, im_set(m, a, b, d, at_least), m))
               for m in BASE_MATRICES for a in POS for b in POS for d in DIMV])
    table("IntersectionMatrix::set_at_least_if_in_both", r"^%s::set_at_least_if_in_both$" % IM,
          [("%s (%s,%s) <- %s" % (mshow(m), a, b, d), [A1, opt(a), opt(b), dimv(d)], {A1: im_enc(m)},
            want_matrix(A1, im_set(m, a, b, d, True) if (a is not None and b is not None) else m, m))
           for m in BASE_MATRICES for a in OPOS for b in OPOS for d in DIMV])
    table("IntersectionMatrix::get", r"^%s::get$" % IM,
          [("%s (%s,%s)" % (mshow(m), a, b), [A1, cp(a), cp(b)], {A1: im_enc(m)},
            (lambda res, w=m[POS.index(a)][POS.index(b)]: None if (res[0] == "ret" and res[1][0] == "adt" and res[1][2] == w) else "returns %s, expected %s" % (show(res[1])[:30] if res[0] == "ret" else "panic", w)))
           for m in BASE_MATRICES for a in POS for b in POS])

    # edge labels: both records of the same kind (Label::new / empty_* never mix kinds)
    SAME = [(a, b) for a in ALL_TP for b in SOME_TP if a[0] == b[0]] + [(b, a) for a in ALL_TP for b in SOME_TP if a[0] == b[0]]

    def edge_cases():
        for m in BASE_MATRICES[:2]:
            for l in SAME:
                want = m
                for a, b, d in edge_contrib(l):
                    want = im_set(want, a, b, d, True)
                yield ("label %s, matrix %s" % (l, mshow(m)), [("&", label_enc(l)), A2], {A2: im_enc(m)}, want_matrix(A2, want, m))
    table("Edge::update_intersection_matrix", r"^%s::<[^>]*>::update_intersection_matrix$" % EDGE, edge_cases())

    def node_enc(l):
        return ("adt", NODE, "CoordNode", (("opaque", "coordinate"), label_enc(l)))

    LINE = [(("L", a), ("L", b)) for a in OPOS for b in OPOS]

    def node_cases():
        for m in BASE_MATRICES[:2]:
            for l in LINE:
                a, b = l[0][1], l[1][1]
                if a is None or b is None:
                    # partial label: the assertion fires; nothing to compare
                    yield ("node %s" % (l,), [("&", node_enc(l)), A2], {A2: im_enc(m)}, lambda res: None if res[0] == "panic" else "accepts a node labelled for one operand only")
                else:
                    yield ("node %s, matrix %s" % (l, mshow(m)), [("&", node_enc(l)), A2], {A2: im_enc(m)}, want_matrix(A2, im_set(m, a, b, "ZeroDimensional", True), m))
    table("CoordNode::update_intersection_matrix", r"^%s::<[^>]*>::update_intersection_matrix$" % NODE, node_cases())

    def toggle_cases():
        for l in LINE:
            for i in (0, 1):
                prev = l[i][1]
                new = "Inside" if prev == "OnBoundary" else "OnBoundary"
                want = (("L", new), l[1]) if i == 0 else (l[0], ("L", new))

                def f(res, want=want):
                    if res[0] != "ret":
                        return "panics"
                    v = res[2].get(A1)
                    got = label_dec(v[3][1]) if v is not None else None
                    return None if got == want else "label becomes %s, expected %s" % (got, want)
                yield ("node %s, operand %d" % (l, i), [A1, ("const", i)], {A1: node_enc(l)}, f)
    table("CoordNode::set_label_boundary", r"^%s::<[^>]*>::set_label_boundary$" % NODE, toggle_cases())
    rep.floor("R1.9", "matrix-update tables", n, 7)


# ------------------------------------------------------------------------------------------------ R1.10 bundle labels
EE = GGM + "::edge_end::EdgeEnd"
EEB = GGM + "::edge_end_bundle::EdgeEndBundle"
LEEB = GGM + "::edge_end_bundle::LabeledEdgeEndBundle"
STAR = GGM + "::edge_end_bundle_star::LabeledEdgeEndBundleStar"


def vec(items):
    return ("call", "vec!", (("array", tuple(items)),))


def ee_enc(l, k):
    return ("adt", EE, "EdgeEnd", (label_enc(l), ("opaque", "key%d" % k)))


def bundle_enc(labels):
    return ("adt", EEB, "EdgeEndBundle", (("opaque", "coordinate"), vec([ee_enc(l, k) for k, l in enumerate(labels)])))


def det_boundary(n):
    return "OnBoundary" if n % 2 == 1 else "Inside"


def ref_label_on(members, label, i):
    bc = sum(1 for m in members if tp_get(m[i], "On") == "OnBoundary")
    fi = any(tp_get(m[i], "On") == "Inside" for m in members)
    pos = det_boundary(bc) if bc > 0 else ("Inside" if fi else None)
    if pos is None:
        return label
    t = tp_set(label[i], "On", pos)
    return (t, label[1]) if i == 0 else (label[0], t)


def ref_label_side(members, label, i, side):
    pos = None
    for m in members:
        if m[0][0] == "A" or m[1][0] == "A":
            p = tp_get(m[i], side)
            if p == "PANIC":
                return "PANIC"
            if p == "Inside":
                pos = "Inside"
                break
            if p == "Outside":
                pos = "Outside"
    if pos is None:
        return label
    t = tp_set(label[i], side, pos)
    if t == "PANIC":
        return "PANIC"
    return (t, label[1]) if i == 0 else (label[0], t)


def ref_into_labeled(members):
    is_area = any(m[0][0] == "A" or m[1][0] == "A" for m in members)
    e = ("A", None, None, None) if is_area else ("L", None)
    label = (e, e)
    for i in (0, 1):
        label = ref_label_on(members, label, i)
        if is_area:
            for side in ("Left", "Right"):
                label = ref_label_side(members, label, i, side)
                if label == "PANIC":
                    return "PANIC"
    return label


def bundle_labels(rep, F, tier="quick"):
    rep.rule("R1.10", "bundle labels (0..3 edge ends, every assignment of member positions): on = determine_boundary(#members OnBoundary) if any, else Inside if any member is Inside, else untouched; side = Inside if any area member is Inside on that side, else Outside if any is Outside, else untouched; into_labeled starts from an empty label of the bundle's kind and applies both to each operand")
    A1, A2 = ("arg", 1), ("arg", 2)
    n = 0

    def table(key, pat, cases):
        nonlocal n
        try:
            fn = _fn(F, pat)
            ev = Eval(F, fn)
            k = 0
            for desc, args, mem, expect in cases:
                k += 1
                err = None
                for res in ev(args, mem):
                    err = err or expect(res)
                if err:
                    rep.bad("R1.10", key, "%s on %s: %s" % (key, desc, err), where=fn.loc())
                    return
            n += 1
            rep.ok("R1.10", "%s[%d cases]" % (key, k))
        except (KeyError, Unanalysable, Undecodable) as e:
            rep.bad("R1.10", key + ":unanalysable", str(e))

    def want_label(which, want, orig):
        def f(res):
            if want == "PANIC":
                return None
            if res[0] != "ret":
                return "panics, expected the label %s" % (want,)
            v = res[2].get(which)
            got = label_dec(v) if v is not None else orig
            return None if got == want else "label becomes %s, expected %s" % (got, want)
        return f

    def member(kind, i, on, left=None, right=None):
        """an edge-end label whose record for operand i is given; the other operand gets a fixed record of the same kind"""
        if kind == "A":
            t, o = ("A", on, left, right), ("A", "Outside", "Inside", "Outside")
        else:
            t, o = ("L", on), ("L", "Inside")
        return (t, o) if i == 0 else (o, t)

    def on_cases():
        for k in range(0, 4):
            for ons in itertools.product(OPOS, repeat=k):
                for kind in ("A", "L"):
                    for i in (0, 1):
                        members = [member(kind, i, x, "Inside", "Outside") for x in ons]
                        for start in ((("A", None, None, None),) * 2 if kind == "A" else (("L", None),) * 2,):
                            yield ("members on=%s (%s), operand %d" % (list(ons), kind, i), [A1, A2, ("const", i)], {A1: bundle_enc(members), A2: label_enc(start)},
                                   want_label(A2, ref_label_on(members, start, i), start))
    table("EdgeEndBundle::compute_label_on", r"^%s::<[^>]*>::compute_label_on$" % EEB, on_cases())

    SIDEM = [("A", x) for x in OPOS] + [("L", None)]

    def side_cases():
        for k in range(0, 4):
            for ms in itertools.product(SIDEM, repeat=k):
                for i in (0, 1):
                    for side in ("Left", "Right"):
                        members = []
                        for kind, x in ms:
                            if kind == "A":
                                members.append(member("A", i, "Inside", x if side == "Left" else "OnBoundary", x if side == "Right" else "OnBoundary"))
                            else:
                                members.append(member("L", i, "Inside"))
                        start = (("A", None, None, None),) * 2
                        yield ("members %s=%s, operand %d" % (side, list(ms), i), [A1, A2, ("const", i), dirv(side)], {A1: bundle_enc(members), A2: label_enc(start)},
                               want_label(A2, ref_label_side(members, start, i, side), start))
    table("EdgeEndBundle::compute_label_side", r"^%s::<[^>]*>::compute_label_side$" % EEB, side_cases())

    AREA_RECS = [("A", None, None, None), ("A", "OnBoundary", "Inside", "Outside"), ("A", "OnBoundary", "Outside", "Inside"), ("A", "Inside", "Inside", "Inside"), ("A", "OnBoundary", None, None)]
    LINE_RECS = [("L", None), ("L", "Inside"), ("L", "OnBoundary")]
    if tier == "quick":
        AREA_RECS = AREA_RECS[:3]
    MEMBERS = [(a, b) for a in AREA_RECS for b in AREA_RECS] + [(a, b) for a in LINE_RECS for b in LINE_RECS]

    def into_cases():
        for k in range(0, 3):
            for ms in itertools.product(MEMBERS, repeat=k):
                want = ref_into_labeled(list(ms))

                def f(res, want=want):
                    if want == "PANIC":
                        return None
                    if res[0] != "ret":
                        return "panics, expected the label %s" % (want,)
                    v = res[1]
                    if not (v[0] == "adt" and v[1] == LEEB):
                        raise Undecodable("into_labeled does not return a LabeledEdgeEndBundle aggregate: %s" % show(v)[:80])
                    got = label_dec(v[3][0])
                    return None if got == want else "bundle label is %s, expected %s" % (got, want)
                yield ("members %s" % (list(ms),), [bundle_enc(list(ms))], None, f)
    table("EdgeEndBundle::into_labeled", r"^%s::<[^>]*>::into_labeled$" % EEB, into_cases())
    rep.floor("R1.10", "bundle-label tables", n, 3)


# ------------------------------------------------------------------------------------------------ R1.11 star labelling
def leeb_enc(l, k):
    return ("adt", LEEB, "LabeledEdgeEndBundle", (label_enc(l), ("adt", EEB, "EdgeEndBundle", (("opaque", "coord%d" % k), vec([])))))


def star_enc(labels):
    return ("adt", STAR, "LabeledEdgeEndBundleStar", (vec([leeb_enc(l, k) for k, l in enumerate(labels)]),))


def star_dec(v):
    try:
        items = v[3][0][2][0][1]
        return [label_dec(it[3][0]) for it in items]
    except (IndexError, TypeError):
        raise Undecodable("not a concrete star: %s" % show(v)[:120])


def ref_propagate(recs):
    """recs: the records of one operand around a node, in the star's (counter-clockwise) order.  An area edge of the operand carries
    (OnBoundary, left, right); walking counter-clockwise the region entered after an area edge is its left side and must equal the right
    side of the next area edge.  Every record without a value gets the region it lies in.  Returns None for an inconsistent star."""
    start = None
    for r in recs:
        if r[0] == "A" and r[2] is not None:
            start = r[2]
    if start is None:
        return list(recs)
    cur = start
    out = []
    for r in recs:
        if r[0] == "L":
            out.append(("L", r[1] if r[1] is not None else cur))
            continue
        on = r[1] if r[1] is not None else cur
        if r[3] is not None:
            if r[2] is None or r[3] != cur:
                return None
            out.append(("A", on, r[2], r[3]))
            cur = r[2]
        else:
            if r[2] is not None:
                return None
            out.append(("A", on, cur, cur))
    return out


def star_labels(rep, F, tier="quick"):
    rep.rule("R1.11", "star labelling (1..3 bundles around a node, every consistent assignment): walking counter-clockwise the current region is the left side of the last area edge of the operand; every missing `on` gets the current region, every area record without sides gets it on both sides; a star without an area edge of the operand is untouched. After propagation a record that is still incomplete is filled with Outside for a non-areal operand and with the operand's coordinate_position of the node otherwise")
    A1 = ("arg", 1)
    n = 0
    IO = ("Inside", "Outside")
    RECS = [("A", "OnBoundary", l, r) for l in IO for r in IO] + [("A", None, None, None), ("L", None), ("L", "Inside")]

    def other(r):
        return ("A", "Outside", "Outside", "Outside") if r[0] == "A" else ("L", "Outside")

    try:
        fn = _fn(F, r"^%s::<[^>]*>::propagate_side_labels$" % STAR)
        ev = Eval(F, fn)
        k = 0
        bad = None
        for size in (1, 2, 3):
            for recs in itertools.product(RECS, repeat=size):
                want = ref_propagate(recs)
                if want is None:
                    continue
                for i in (0, 1):
                    labels = [((r, other(r)) if i == 0 else (other(r), r)) for r in recs]
                    wl = [((w, other(w)) if i == 0 else (other(w), w)) for w in want]
                    k += 1
                    for res in ev([A1, ("const", i), ("opaque", "graph")], {A1: star_enc(labels)}):
                        if res[0] != "ret":
                            bad = "panics on the consistent star %s (operand %d)" % (list(recs), i)
                            break
                        v = res[2].get(A1)
                        got = star_dec(v) if v is not None else labels
                        if got != wl:
                            bad = "star %s (operand %d) is labelled %s, expected %s" % (list(recs), i, [g[i] for g in got], want)
                            break
                    if bad:
                        break
                if bad:
                    break
            if bad:
                break
        if bad:
            rep.bad("R1.11", "propagate_side_labels", bad, where=fn.loc())
        else:
            n += 1
            rep.ok("R1.11", "propagate_side_labels[%d stars]" % k)
    except (KeyError, Unanalysable, Undecodable) as e:
        rep.bad("R1.11", "propagate_side_labels:unanalysable", str(e))

    # compute_labeling: the fill-in of records that are still incomplete
    try:
        fn = _fn(F, r"^%s::<[^>]*>::compute_labeling$" % STAR)
        from ..symex import _ret
        FILL = [("A", None, None, None), ("L", None), ("L", "Inside"), ("A", "OnBoundary", "Inside", "Outside")]
        k = 0
        bad = None
        for dims in itertools.product(("TwoDimensional", "OneDimensional", "ZeroDimensional"), repeat=2):
            for poss in (("Inside", "Outside"), ("Outside", "Inside"), ("Inside", "Inside")):
                def m_dims(ex, st, call, args, dims=dims):
                    s = show(ex.canon(st, args[0]))
                    i = 0 if "graph_a" in s else (1 if "graph_b" in s else None)
                    if i is None:
                        return NotImplemented
                    return _ret(st, dimv(dims[i]))

                def m_pos(ex, st, call, args, poss=poss):
                    s = show(ex.canon(st, args[0]))
                    i = 0 if "graph_a" in s else (1 if "graph_b" in s else None)
                    if i is None:
                        return NotImplemented
                    return _ret(st, cp(poss[i]))
                models = {}
                for g in F.find(r"GeometryCow<.*HasDimensions>::dimensions$|HasDimensions::dimensions$", crates=("geo",)):
                    models[g.path] = m_dims
                models["geo::algorithm::dimensions::HasDimensions::dimensions"] = m_dims
                for g in F.find(r"GeometryCow<.*CoordinatePosition>::coordinate_position$", crates=("geo",)):
                    models[g.path] = m_pos
                models["geo::algorithm::coordinate_position::CoordinatePosition::coordinate_position"] = m_pos
                ev = Eval(F, fn, models=models, no_inline=[r"GeometryGraph::<[^>]*>::geometry$"])
                for size in (1, 2):
                    for combo in itertools.product(FILL, repeat=size):
                        for combo_b in (combo, tuple(reversed(combo))):
                            labels = []
                            for ra, rb in zip(combo, combo_b):
                                if ra[0] != rb[0]:
                                    rb = ("A", None, None, None) if ra[0] == "A" else ("L", None)
                                labels.append((ra, rb))
                            cols = [ref_propagate([l[i] for l in labels]) for i in (0, 1)]
                            if None in cols:
                                continue
                            want = []
                            for j in range(len(labels)):
                                recs = []
                                for i in (0, 1):
                                    r = cols[i][j]
                                    if tp_is_any_empty(r):
                                        fill = poss[i] if dims[i] == "TwoDimensional" else "Outside"
                                        r = tp_set_all_if_empty(r, fill)
                                    recs.append(r)
                                want.append(tuple(recs))
                            k += 1
                            for res in ev([A1, ("opaque", "graph_a"), ("opaque", "graph_b")], {A1: star_enc(labels)}):
                                if res[0] != "ret":
                                    bad = "panics on the star %s" % (labels,)
                                    break
                                v = res[2].get(A1)
                                got = star_dec(v) if v is not None else labels
                                if got != want:
                                    bad = "star %s with operand dimensions %s and node positions %s is labelled %s, expected %s" % (labels, dims, poss, got, want)
                                    break
                            if bad:
                                break
                        if bad:
                            break
                    if bad:
                        break
                if bad:
                    break
            if bad:
                break
        if bad:
            rep.bad("R1.11", "compute_labeling", bad, where=fn.loc())
        else:
            n += 1
            rep.ok("R1.11", "compute_labeling[%d stars]" % k)
    except (KeyError, Unanalysable, Undecodable) as e:
        rep.bad("R1.11", "compute_labeling:unanalysable", str(e))
    rep.floor("R1.11", "star-labelling tables", n, 2)
