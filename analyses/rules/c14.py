"""C14 — validation accepts exactly the well-formed geometries (structural clauses).

 R14.1 validation_errors non-empty <=> !is_valid by construction: the three default methods are never overridden and in
       every visit_validation every handler call / nested visit has its Result examined and an Err returned at once
 R14.2 error <-> check pairing: every Invalid* value is built only under the true edge of the check it names, and names
       the ring / member the check was applied to (index and item come from the same enumerate() element)
 R14.3 the DE-9IM constants of the ring-vs-ring and member-vs-member tests
 R14.4 every pair formed by the loops is tested (no pre-filter), Geometry / GeometryCollection delegate to every variant
Acceptance of *exactly* the valid polygons is data-dependent and not decided.
"""
import re
from ..facts import Facts, short
from ..symex import Symex, show, show_pc, Unanalysable
from .c01 import opaque, calls_of

LEVEL = "other"
VAL = "geo::algorithm::validation::Validation"


def run(rep, tier):
    rep.explanation = ("Path tables (loops unrolled once, every call uninterpreted) of Polygon / MultiPolygon visit_validation: each handler call is "
                       "matched with the check that guards it, the operands of that check and the ring / member indices the error names; Results are "
                       "propagated; no pair test is pre-filtered; defaults not overridden; enum delegation complete. Whether the checks accept exactly "
                       "the valid polygons (e.g. a ring of three collinear points) is data-dependent and not decided.")
    rep.trusted = ["rustc MIR", "relate (C01)", "single-iteration unrolling is representative of every iteration (loop bodies do not depend on the iteration count)"]
    rep.assumptions = ["C01 for the matrices used by the ring-vs-ring tests"]
    F = Facts("default")
    defaults(rep, F)
    polygon_table(rep, F)
    multipolygon_table(rep, F)
    propagation(rep, F)
    delegation(rep, F)
    self_intersection(rep, F)
    from . import c05
    c05.winding_table(rep, F, rule="R14.7")


def defaults(rep, F):
    rep.rule("R14.1", "is_valid / validation_errors / check_validation are never overridden; handler and nested-visit Results are propagated")
    n = 0
    for im in F.impls_of(VAL):
        n += 1
        names = sorted(it["name"] for it in im["items"] if it["kind"] == "AssocFn")
        if names != ["visit_validation"]:
            rep.bad("R14.1", "override:%s" % short(im["self_ty"]), "impl defines %s: is_valid and validation_errors could disagree" % names, where=im["span"]["file"])
        else:
            rep.ok("R14.1", "defaults:%s" % short(im["self_ty"]))
    rep.floor("R14.1", "Validation impls", n, 11)


def handler_calls(p):
    out = []
    for c in calls_of(p):
        if re.search(r"FnMut<Args>>::call_mut$|ops::function::FnMut::call_mut$|Fn::call$|FnOnce::call_once$", c[1]) and c[2] and "a2" in show(c[2][0]):
            out.append(c)
    return out


def nxt_uids(s):
    return re.findall(r"#(\d+) as Some\)", s)



def enumerate_sources(rep, key, fn, paths):
    """every enumerate() that supplies a ring / member index is applied to the complete sequence (its index is the position the error names):
    an adaptor that drops items in front of it (filter, skip_while, ...) shifts the indices"""
    from ..memberfold import subterms
    from ..symex import bare
    bad = None
    n = 0
    seen = set()
    for p in paths[:4000]:
        for t, _ in p.pc:
            for s in subterms(t, []):
                if s and s[0] == "call" and s[1].rsplit("::", 1)[-1] == "enumerate" and s not in seen:
                    seen.add(s)
                    n += 1
                    arg = bare(s[2][0]) if s[2] else ""
                    if re.match(r"^(filter|filter_map|skip_while|take_while|step_by|flat_map|flatten|rev|skip)\(", arg):
                        bad = arg
    if bad:
        rep.bad("R14.2", key + ":index-source:enumerate", "an index comes from enumerate() applied to %s: items are dropped before they are numbered, so the index is not the ring's / member's "
                "position and a later skip(index + 1) pairs a ring with itself or names the wrong ring" % bad[:120], where=fn.loc())
    elif n:
        rep.ok("R14.2", key + ":enumerate-over-all[%d]" % n)


def polygon_table(rep, F):
    rep.rule("R14.2", "each InvalidPolygon value is built under the true edge of its own check on the ring(s) it names; indices and rings come from the same enumerate() item")
    rep.rule("R14.3", "ring tests use the stated constants: hole not is_contains in the shell-polygon; (B,I)=1 shell/hole and (B,B)=1 hole/hole are line contacts; (I,I)=2 is an area overlap")
    rep.rule("R14.4", "every pair formed by the loops is tested (no pre-filter before relate)")
    try:
        fn = F.impl_method(VAL, r"polygon::Polygon<F>$", None, "visit_validation", crates=("geo",))
        paths = opaque(F, loop_bound=1, max_paths=300000, budget_s=120).run(fn)
    except (KeyError, Unanalysable) as e:
        rep.bad("R14.2", "polygon:unanalysable", str(e))
        return
    rets = [p for p in paths if p.kind == "ret"]
    enumerate_sources(rep, "polygon", fn, rets)
    seen = {}
    problems = {}
    spec = {
        "TooFewPointsInRing": (r"check_too_few_points\(", 1),
        "SelfIntersection": (r"linestring_has_self_intersection\(", 1),
        "NonFiniteCoord": (r"check_coord_is_not_finite\(", 1),
        "InteriorRingNotContainedInExteriorRing": (r"is_contains\(", 0),
        "IntersectingRingsOnALine": (r"get\(.*CoordPos::OnBoundary\(\), CoordPos::(Inside|OnBoundary)\(\)\).*Dimensions::OneDimensional", 1),
        "IntersectingRingsOnAnArea": (r"get\(.*CoordPos::Inside\(\), CoordPos::Inside\(\)\).*Dimensions::TwoDimensional", 1),
    }
    for p in rets:
        hs = handler_calls(p)
        atoms = [(show(t), v) for t, v in p.pc]
        for h in hs:
            err = h[2][1][1][0] if h[2][1][0] == "tuple" else h[2][1]
            if err[0] != "adt":
                problems.setdefault("not-an-error-value", show(err)[:80])
                continue
            var = err[2]
            es = show(err)
            seen[var] = seen.get(var, 0) + 1
            if var not in spec:
                problems.setdefault("unknown-variant:%s" % var, es[:100])
                continue
            rx, val = spec[var]
            guards = [(s, v) for s, v in atoms if re.search(rx, s)]
            # the guard must hold with the right value on an atom that concerns the same ring item(s) as the error
            uids = set(nxt_uids(es))
            ok = False
            for s, v in guards:
                eqv = v
                if var in ("IntersectingRingsOnALine", "IntersectingRingsOnAnArea"):
                    pass
                if eqv != val:
                    continue
                if uids and not uids <= set(nxt_uids(s)):
                    continue
                ok = True
            if not ok:
                problems.setdefault("guard:%s" % var, "%s is reported on a path where its check %s does not hold (=%s) for the ring(s) it names: %s" % (var, rx[:40], val, es[:140]))
            # role / item pairing and constants
            if var in ("TooFewPointsInRing", "SelfIntersection", "NonFiniteCoord"):
                # role is Exterior iff ring_idx == 0 else Interior(ring_idx - 1), ring_idx from the same enumerate item as the ring
                role = err[3][0]
                rs = show(role)
                idx_eq0 = [v for s, v in atoms if re.search(r"\.0\.0 == 0\)$", s) and (not uids or set(nxt_uids(s)) & uids or True)]
                if role[0] == "adt" and role[2] == "Exterior":
                    if not any(v == 1 for v in idx_eq0):
                        problems.setdefault("role-exterior:%s" % var, "RingRole::Exterior is named although the ring index was not compared equal to 0")
                elif role[0] == "adt" and role[2] == "Interior":
                    if not re.search(r"\.0\.0 Sub 1\)", rs) or not any(v == 0 for v in idx_eq0):
                        problems.setdefault("role-interior:%s" % var, "interior ring role is %s, expected Interior(ring_idx - 1) of the ring being checked" % rs[:100])
            if var == "InteriorRingNotContainedInExteriorRing":
                role = show(err[3][0])
                if not re.match(r"RingRole::Interior\(\(.*#\d+ as Some\)\.0\.0\)$", role):
                    problems.setdefault("role:%s" % var, "names %s, expected Interior(index of the hole being tested)" % role[:100])
            if var in ("IntersectingRingsOnALine", "IntersectingRingsOnAnArea"):
                r1, r2 = show(err[3][0]), show(err[3][1])
                if "Exterior" in r1:
                    if not re.search(r"CoordPos::OnBoundary\(\), CoordPos::Inside\(\)", "".join(s for s, v in guards)):
                        problems.setdefault("const:shell-hole-line", "shell/hole line contact is not tested on cell (B,I)")
                    if not re.match(r"RingRole::Interior\(\(.*as Some\)\.0\.0\)$", r2):
                        problems.setdefault("role:shell-hole", "second ring named %s" % r2[:80])
                else:
                    m1 = re.match(r"RingRole::Interior\(\((.*)#(\d+) as Some\)\.0\.0\)$", r1)
                    m2 = re.match(r"RingRole::Interior\(\((.*)#(\d+) as Some\)\.0\.0\)$", r2)
                    if not m1 or not m2 or m1.group(2) == m2.group(2):
                        problems.setdefault("role:hole-hole:%s" % var, "the two rings named are %s and %s: each must be the enumerate index of the ring that was tested" % (r1[-60:], r2[-60:]))
                    else:
                        # the second index must come from enumerate() applied directly to the interiors (then skipped), so that it is the position in interiors()
                        if not re.search(r"skip\(enumerate\(slice::<impl \[T\]>::iter\(", r2) and not re.search(r"^RingRole::Interior\(\(<Enumerate", r2):
                            problems.setdefault("index-source:%s" % var, "the second ring's index does not come from enumerate() over all interiors (it is %s): after skip() it is no longer the ring's position" % r2[:120])
    for k, msg in sorted(problems.items()):
        rep.bad("R14.2", "polygon:" + k, msg, where=fn.loc())
    for var in spec:
        if var not in seen:
            rep.bad("R14.2", "polygon:never-reported:%s" % var, "no path reports %s" % var, where=fn.loc())
        elif not any(k.endswith(var) for k in problems):
            rep.ok("R14.2", "polygon:%s[%d paths]" % (var, seen[var]), sample={"variant": var, "guard": spec[var][0][:50]})
    # R14.4: every pair reaches relate: on paths where the inner loop yields an item, relate on that pair is called with no other guard in between
    pref = set()
    for p in rets:
        cs = calls_of(p)
        for i, c in enumerate(cs):
            if c[1].endswith("Iterator>::next") and "skip(" in show(c[2][0]):
                d = [v for t, v in p.pc if t[0] == "discr" and len(t[1]) > 3 and t[1][3] == c[3]]
                if d and d[0] == 1:
                    later = [x[1].rsplit("::", 1)[-1] for x in cs[i + 1:i + 6]]
                    if "relate" not in later:
                        pref.add("inner pair formed but relate not called next (calls: %s)" % later[:4])
    if pref:
        rep.bad("R14.4", "polygon:pair-prefilter", sorted(pref)[0], where=fn.loc())
    else:
        rep.ok("R14.4", "polygon:every-pair-related")
    rep.info["polygon_validation_paths"] = len(rets)


def multipolygon_table(rep, F):
    try:
        fn = F.impl_method(VAL, r"multi_polygon::MultiPolygon<F>$", None, "visit_validation", crates=("geo",))
        paths = opaque(F, loop_bound=1, max_paths=100000, budget_s=60).run(fn)
    except (KeyError, Unanalysable) as e:
        rep.bad("R14.2", "multipolygon:unanalysable", str(e))
        return
    rets = [p for p in paths if p.kind == "ret"]
    enumerate_sources(rep, "multipolygon", fn, rets)
    spec = {
        "ElementsOverlaps": (r"get\(.*CoordPos::Inside\(\), CoordPos::Inside\(\)\).*Dimensions::TwoDimensional", 1),
        "ElementsTouchOnALine": (r"get\(.*CoordPos::OnBoundary\(\), CoordPos::OnBoundary\(\)\).*Dimensions::OneDimensional", 1),
    }
    seen = {}
    problems = {}
    for p in rets:
        atoms = [(show(t), v) for t, v in p.pc]
        for h in handler_calls(p):
            err = h[2][1][1][0] if h[2][1][0] == "tuple" else h[2][1]
            if err[0] != "adt" or err[2] not in spec:
                continue
            var = err[2]
            seen[var] = seen.get(var, 0) + 1
            rx, val = spec[var]
            if not any(re.search(rx, s) and v == val for s, v in atoms):
                problems.setdefault("guard:" + var, "%s is reported without its matrix test holding" % var)
            i1, i2 = show(err[3][0]), show(err[3][1])
            u1, u2 = nxt_uids(i1), nxt_uids(i2)
            cs_all = calls_of(p)
            hpos = cs_all.index(h)
            rel = [c for c in cs_all[:hpos] if c[1].endswith("::relate")]
            rs = show(("call", rel[-1][1], rel[-1][2])) if rel else ""
            if not u1 or not u2 or u1[-1] == u2[-1]:
                problems.setdefault("index:" + var, "member indices %s / %s are not the indices of the two members tested" % (i1[-50:], i2[-50:]))
            elif not ("#%s as Some).0.1" % u1[-1] in rs and "#%s as Some).0.1" % u2[-1] in rs):
                problems.setdefault("pairing:" + var, "the members related are not the ones whose indices are reported")
            elif not re.search(r"skip\(enumerate\(slice::<impl \[T\]>::iter\(", i2):
                problems.setdefault("index-source:" + var, "the second index does not come from enumerate() over all members before skip(): %s" % i2[:100])
    for k, msg in sorted(problems.items()):
        rep.bad("R14.2", "multipolygon:" + k, msg, where=fn.loc())
    for var in spec:
        if var not in seen:
            rep.bad("R14.2", "multipolygon:never-reported:%s" % var, "no path reports %s" % var, where=fn.loc())
        elif not any(k.endswith(var) for k in problems):
            rep.ok("R14.2", "multipolygon:%s[%d paths]" % (var, seen[var]))
    # nested polygon validation: called for every member, Result propagated (see propagation), wrapped with the member's index
    # no pre-filter: once the inner loop yields a member, relate is the next geo call
    pref = set()
    for p in rets:
        cs = calls_of(p)
        for i, c in enumerate(cs):
            if c[1].endswith("Iterator>::next") and "skip(" in show(c[2][0]):
                d = [v for t, v in p.pc if t[0] == "discr" and len(t[1]) > 3 and t[1][3] == c[3]]
                if d and d[0] == 1:
                    later = [x[1].rsplit("::", 1)[-1] for x in cs[i + 1:i + 3]]
                    between = []
                    if "relate" not in later:
                        pref.add("a pair of members is formed but relate is not the next step (calls: %s)" % later)
                    # atoms decided between the next() and the relate must not exist (they would be a pre-filter)
        # extra guards: any comparison atom that is not a matrix cell test
        for t, v in p.pc:
            s = show(t)
            if t[0] == "cmp" and "get(" not in s and "discr(" not in s:
                pref.add("the member loop decides on %s, which is not a matrix test: pairs can be skipped before relate" % s[:100])
    if pref:
        rep.bad("R14.4", "multipolygon:pair-prefilter", sorted(pref)[0], where=fn.loc())
    else:
        rep.ok("R14.4", "multipolygon:every-pair-related")


def propagation(rep, F):
    """Every handler call and nested visit_validation has its Result examined; an Err ends the visit with that Err."""
    n = 0
    for im in F.impls_of(VAL):
        fn = F.impl_fn(im, "visit_validation")
        if fn is None:
            continue
        for g in [fn] + F.closures_of(fn):
            for c in g.calls():
                is_handler = re.search(r"FnMut<Args>>::call_mut$|ops::function::FnMut::call_mut$", c.path or "") is not None
                is_nested = (c.method == "visit_validation")
                if not (is_handler or is_nested):
                    continue
                n += 1
                d = c.dest["l"]
                # uses of the destination local
                used_try = used_ret = False
                for c2 in g.calls():
                    if c2.bb == c.bb:
                        continue
                    for a in c2.args:
                        pl = a.get("move") or a.get("copy")
                        if pl and pl["l"] == d and (c2.path or "").endswith("Try>::branch") or (pl and pl["l"] == d and c2.method == "branch"):
                            used_try = True
                if d == 0:
                    used_ret = True
                for bb, pl, rv, line in g.all_assigns():
                    if pl["l"] == 0 and not pl["p"] and rv[0] == "use":
                        src = rv[1].get("move") or rv[1].get("copy")
                        if src and src["l"] == d:
                            used_ret = True
                key = "%s#bb%d" % (g.path, c.bb)
                if used_try or used_ret:
                    rep.ok("R14.1", "propagated:" + key)
                else:
                    rep.bad("R14.1", "dropped-result:%s" % short(g.path), "the Result of %s is dropped: an error can be reported while the visit continues and returns Ok" % short(c.path or "handler"),
                            where="%s:%s" % (g.rel_file, c.line))
    rep.floor("R14.1", "handler / nested-visit call sites", n, 20)


def delegation(rep, F):
    rep.rule("R14.5", "Geometry delegates to every variant; collections visit every member")
    try:
        fn = F.impl_method(VAL, r"geo_types::geometry::Geometry<F>$", None, "visit_validation", crates=("geo",))
        ps = [p for p in opaque(F).run(fn) if p.kind == "ret"]
        gv = [v["name"] for v in F.adts["geo_types::geometry::Geometry"]["variants"]]
        got = set()
        for p in ps:
            d = [v for t, v in p.pc if t[0] == "discr" and isinstance(v, int)]
            nested = [c for c in calls_of(p) if c[1].endswith("::visit_validation")]
            if d and nested:
                got.add(gv[d[0]])
        if got == set(gv):
            rep.ok("R14.5", "Geometry[%d variants]" % len(gv))
        else:
            rep.bad("R14.5", "Geometry", "variants not validated: %s" % sorted(set(gv) - got), where=fn.loc())
    except (KeyError, Unanalysable) as e:
        rep.bad("R14.5", "Geometry:anchor", str(e))


def self_intersection(rep, F):
    """R14.6: the ring simplicity helper on a line string of 4 coordinates (3 segments: adjacent and non-adjacent pairs), with the number of
    elements concrete so that loops and iterator chains (`for`, `any`, ...) unroll exactly: the complete path table must say
      true  only if some pair of distinct segments intersects and neither `start_i == end_j` nor `end_i == start_j` holds, and
      false only if every pair of distinct segments was found not to satisfy that,
    and no decision may be anything but a segment-pair predicate or an end-point equality (a ring-level shortcut is a foreign decision)."""
    from ..symex import bare
    rep.rule("R14.6", "linestring_has_self_intersection (3 segments, exact unrolling): true iff some pair of distinct segments intersects without sharing the end points that chain them; "
                      "false only after every pair was examined; no other decision")
    try:
        fn = F.one(r"validation::utils::linestring_has_self_intersection$", crates=("geo",))
        N = 4
        LS = "geo_types::geometry::line_string::LineString"
        elems = tuple(("index", ("field", ("deref", ("arg", 1)), "0"), ("const", k)) for k in range(N))
        ring = ("&", ("adt", LS, "LineString", (("call", "vec!", (("array", elems),)),)))
        ex = Symex(F, no_inline=[r"Intersects.*::intersects$"], loop_bound=N * N + 4, max_paths=100000, budget_s=60, concrete_iters=True)
        ex.assume_reflexive = True
        ps = ex.run(fn, args=[ring])
    except (KeyError, Unanalysable) as e:
        rep.bad("R14.6", "anchor", str(e))
        return
    if any(p.kind == "cut" for p in ps):
        rep.bad("R14.6", "unbounded", "the helper does not terminate within the exact unrolling of a 3-segment line string", where=fn.loc())
        return
    C = r"(?:into\()?\*?a1\.0\[(\d)\]\)?"
    re_int = re.compile(r"^intersects\(Line::Line\(%s, %s\), Line::Line\(%s, %s\)\)$" % (C, C, C, C))
    re_eq = re.compile(r"^\(%s == %s\)$" % (C, C))
    n = 0
    for p in ps:
        if p.kind != "ret":
            rep.bad("R14.6", "panic", "a path of the helper panics: %s" % show_pc(p.pc)[:120], where=fn.loc())
            return
        vint, veq = {}, {}
        for t, v in p.pc:
            b = bare(t)
            m = re_int.match(b)
            if m:
                a0, a1_, b0, b1 = (int(x) for x in m.groups())
                if a1_ != a0 + 1 or b1 != b0 + 1:
                    rep.bad("R14.6", "foreign-decision", "a tested segment is not a segment of the line string: %s" % b[:120], where=fn.loc())
                    return
                vint[frozenset((a0, b0))] = v
                continue
            m = re_eq.match(b)
            if m:
                veq[frozenset(int(x) for x in m.groups())] = v
                continue
            rep.bad("R14.6", "foreign-decision", "the result depends on `%s` (= %s), which is neither a segment-pair predicate nor an end-point equality: a ring-level shortcut decides "
                    "simplicity without looking at the segment pairs" % (b[:120], v), where=fn.loc())
            return

        def cond(i, j):
            I = vint.get(frozenset((i, j)))
            se = 1 if i == j + 1 else veq.get(frozenset((i, j + 1)))
            es = 1 if i + 1 == j else veq.get(frozenset((i + 1, j)))
            if I == 0 or se == 1 or es == 1:
                return False
            if I == 1 and se == 0 and es == 0:
                return True
            return None
        pairs = [(i, j) for i in range(N - 1) for j in range(N - 1) if i < j]
        r = bare(p.ret)
        n += 1
        if r == "True":
            if not any(cond(i, j) is True or cond(j, i) is True for i, j in pairs):
                rep.bad("R14.6", "true-condition", "true is returned on [%s] although no pair of distinct segments was found intersecting away from their chaining end points" % show_pc(p.pc)[:200], where=fn.loc())
                return
        elif r == "False":
            open_ = [(i, j) for i, j in pairs if not (cond(i, j) is False or cond(j, i) is False)]
            if open_:
                rep.bad("R14.6", "false-before-exhaustion", "false is returned on [%s] although the segment pair(s) %s were not found harmless" % (show_pc(p.pc)[:160], open_), where=fn.loc())
                return
        else:
            rep.bad("R14.6", "result", "unexpected result %s" % r[:60], where=fn.loc())
            return
    if n < 20:
        rep.bad("R14.6", "floor", "only %d table rows" % n, where=fn.loc())
    else:
        rep.ok("R14.6", "pairwise-table[%d rows, 3 segments]" % n)
    # who calls it: every ring of a polygon (exterior and interiors) and line strings are tested
    users = sorted({short(g.path) for g in F.lib_fns(("geo",)) for c in g.calls() if (c.path or "").endswith("utils::linestring_has_self_intersection")})
    rep.info["self_intersection_callers"] = users
