"""C14 — validation accepts exactly the well-formed geometries (structural clauses).

 R14.1 validation_errors non-empty <=> !is_valid by construction: the three default methods are never overridden and in
       every visit_validation every handler call / nested visit has its Result examined and an Err returned at once
 R14.2 error <-> check pairing: every Invalid* value is built only under the true edge of the check it names, and names
       the ring / member the check was applied to (index and item come from the same enumerate() element)
 R14.3 the DE-9IM constants of the ring-vs-ring and member-vs-member tests
 R14.4 every pair formed by the loops is tested (no pre-filter), Geometry / GeometryCollection delegate to every variant
Acceptance of *exactly* the valid polygons is data-dependent and not decided.
"""
import re
from ..facts import Facts, short
from ..symex import Symex, show, show_pc, Unanalysable
from .c01 import opaque, calls_of

LEVEL = "other"
VAL = "geo::algorithm::validation::Validation"


def run(rep, tier):
    rep.explanation = ("Path tables (loops unrolled once, every call uninterpreted) of Polygon / MultiPolygon visit_validation: each handler call is "
                       "matched with the check that guards it, the operands of that check and the ring / member indices the error names; Results are "
                       "propagated; no pair test is pre-filtered; defaults not overridden; enum delegation complete. Whether the checks accept exactly "
                       "the valid polygons (e.g. a ring of three collinear points) is data-dependent and not decided.")
    rep.trusted = ["rustc MIR", "relate (C01)", "single-iteration unrolling is representative of every iteration (loop bodies do not depend on the iteration count)"]
    rep.assumptions = ["C01 for the matrices used by the ring-vs-ring tests"]
    F = Facts("default")
    defaults(rep, F)
    polygon_table(rep, F)
    multipolygon_table(rep, F)
    propagation(rep, F)
    delegation(rep, F)
    self_intersection(rep, F)
    from . import c05
    c05.winding_table(rep, F, rule="R14.7")
    helper_tables(rep, F)
    wrap_tables(rep, F)
    small_tables(rep, F)
    # every exact predicate this property rests on is a sign of the orientation kernel (rules shared with C03)
    from . import c03 as _c03
    _c03.kernel_rules(rep, F, "R14.11")
    # the ring-vs-ring tests are relate matrices: no branch of the relate pipeline may depend on rounded arithmetic (C01 R1.5)
    from . import c01 as _c01
    from ..report import Alias as _Alias
    rep.rule("R14.12", "the relate pipeline behind the ring tests decides only on orientation signs and coordinate comparisons of input coordinates (C01 R1.5)")
    _c01.exactness(_Alias(rep, "R14.12"), F)


def defaults(rep, F):
    rep.rule("R14.1", "is_valid / validation_errors / check_validation are never overridden; handler and nested-visit Results are propagated")
    n = 0
    for im in F.impls_of(VAL):
        n += 1
        names = sorted(it["name"] for it in im["items"] if it["kind"] == "AssocFn")
        if names != ["visit_validation"]:
            rep.bad("R14.1", "override:%s" % short(im["self_ty"]), "impl defines %s: is_valid and validation_errors could disagree" % names, where=im["span"]["file"])
        else:
            rep.ok("R14.1", "defaults:%s" % short(im["self_ty"]))
    rep.floor("R14.1", "Validation impls", n, 11)


def handler_calls(p):
    out = []
    for c in calls_of(p):
        if re.search(r"FnMut<Args>>::call_mut$|ops::function::FnMut::call_mut$|Fn::call$|FnOnce::call_once$", c[1]) and c[2] and "a2" in show(c[2][0]):
            out.append(c)
    return out


def nxt_uids(s):
    return re.findall(r"#(\d+) as Some\)", s)



GT = "geo_types::geometry::"
# calls that stay uninterpreted in the validation tables (everything else in geo / geo_types, e.g. extracted helpers, is inlined)
API = [r"Relate.*::relate$", r"IntersectionMatrix::\w+$", r"HasDimensions>::is_empty$", r"validation::utils::\w+$", r"Validation>::visit_validation$", r"Validation for .*>::visit_validation$",
       r"Polygon::<T>::new$", r"::clone$", r"BoundingRect.*::bounding_rect$", r"Intersects.*::intersects$", r"Dimensions as core::cmp::PartialEq>::(eq|ne)$"]
CELL = {"Inside": "I", "OnBoundary": "B", "Outside": "E"}


def _handler_events(p):
    """(error adt term) of every handler invocation on the path, in order"""
    out = []
    for c in calls_of(p):
        if re.search(r"FnMut<Args>>::call_mut$|ops::function::FnMut::call_mut$|Fn::call$|FnOnce::call_once$", c[1]) and len(c[2]) >= 2:
            err = c[2][1]
            if err[0] == "tuple" and err[1]:
                err = err[1][0]
            if err[0] == "adt":
                out.append(err)
    return out


def _cell_test(b):
    """parse `get(relate(X, Y), CoordPos::A(), CoordPos::B()) == Dimensions::D` in either operand order -> (X, Y, A, B, D) or None"""
    m = re.search(r"get\(relate\((.*)\), CoordPos::(\w+)\(\), CoordPos::(\w+)\(\)\)", b)
    d = re.search(r"Dimensions::(\w+)\(\)", b)
    if not m or not d or not (b.startswith("eq(") or b.startswith("(")):
        return None
    return m.group(1), CELL.get(m.group(2)), CELL.get(m.group(3)), d.group(1)


def multipolygon_table(rep, F):
    """R14.2 / R14.4 for MultiPolygon on a multipolygon of three members (exact unrolling of whatever loop form is used; member indices are
    therefore constants): every ElementsOverlaps(i, j) / ElementsTouchOnALine(i, j) is reported under its own matrix test on relate(member i,
    member j); on complete runs every pair of members has both tests decided and an error is reported exactly when its test holds; every member is
    validated as a polygon under its own index; no other decision is taken (no pre-filter)."""
    from ..symex import bare
    try:
        fn = F.impl_method(VAL, r"multi_polygon::MultiPolygon<F>$", None, "visit_validation", crates=("geo",))
        K = 3
        MP = GT + "multi_polygon::MultiPolygon"
        elems = tuple(("index", ("field", ("deref", ("arg", 1)), "0"), ("const", i)) for i in range(K))
        mp = ("&", ("adt", MP, "MultiPolygon", (("call", "vec!", (("array", elems),)),)))
        ex = Symex(F, inline_crates=("geo", "geo_types"), no_inline=API, loop_bound=K * K + 6, max_paths=100000, budget_s=60, concrete_iters=True)
        paths = ex.run(fn, args=[mp, ("arg", 2)])
    except (KeyError, Unanalysable) as e:
        rep.bad("R14.2", "multipolygon:unanalysable", str(e))
        return
    if any(p.kind != "ret" for p in paths):
        rep.bad("R14.2", "multipolygon:paths", "a path does not return (%s)" % sorted({p.kind for p in paths}), where=fn.loc())
        return
    WANT = {"ElementsOverlaps": ("I", "I", "TwoDimensional"), "ElementsTouchOnALine": ("B", "B", "OneDimensional")}
    seen = {}
    for p in paths:
        tests = {}
        for t, v in p.pc:
            b = bare(t)
            if re.match(r"^discr\((visit_validation|call_mut|call|call_once)\(", b):
                continue
            ct = _cell_test(b)
            m = re.match(r"^a1\.0\[(\d)\], a1\.0\[(\d)\]$", ct[0]) if ct else None
            if not ct or not m or None in ct[1:3]:
                rep.bad("R14.4", "multipolygon:pair-prefilter", "the member loop decides on `%s`, which is neither a matrix test of relate(member, member) nor the outcome of a nested check: "
                        "pairs can be skipped before they are related" % b[:140], where=fn.loc())
                return
            i, j = int(m.group(1)), int(m.group(2))
            cell = (ct[1], ct[2]) if i < j else (ct[2], ct[1])
            tests[(min(i, j), max(i, j), cell[0], cell[1], ct[3])] = v
        events = []
        for err in _handler_events(p):
            var = err[2]
            if var not in WANT:
                rep.bad("R14.2", "multipolygon:unknown-variant", "handler is given %s" % bare(err)[:100], where=fn.loc())
                return
            idx = [bare(x) for x in err[3]]
            mm = [re.match(r"^GeometryIndex::GeometryIndex\((\d+)\)$", x) for x in idx]
            if not all(mm):
                rep.bad("R14.2", "multipolygon:index:" + var, "the members named are %s: not positions in the multipolygon" % idx, where=fn.loc())
                return
            i, j = int(mm[0].group(1)), int(mm[1].group(1))
            seen[var] = seen.get(var, 0) + 1
            a, b_, d = WANT[var]
            if i == j or max(i, j) >= K or tests.get((min(i, j), max(i, j), a, b_, d)) != 1:
                rep.bad("R14.2", "multipolygon:guard:" + var, "%s(%d, %d) is reported on a path where the (%s,%s) cell of relate(member %d, member %d) was not found %s: the error names members that "
                        "do not have the defect [%s]" % (var, i, j, a, b_, i, j, d, show_pc(p.pc)[:160]), where=fn.loc())
                return
            events.append((var, min(i, j), max(i, j)))
        if bare(p.ret).startswith("Result::Ok"):
            nested = [bare(c[2][0]) for c in calls_of(p) if c[1].endswith("::visit_validation") and c[2]]
            if sorted(nested) != ["a1.0[%d]" % k for k in range(K)]:
                rep.bad("R14.2", "multipolygon:members-validated", "on a complete run the members validated as polygons are %s, expected each of the %d members once" % (nested, K), where=fn.loc())
                return
            for i in range(K):
                for j in range(i + 1, K):
                    for var, (a, b_, d) in WANT.items():
                        v = tests.get((i, j, a, b_, d))
                        if v is None:
                            rep.bad("R14.4", "multipolygon:pair-not-tested", "a complete run never tests the (%s,%s) cell of members %d and %d" % (a, b_, i, j), where=fn.loc())
                            return
                        if (v == 1) != ((var, i, j) in events):
                            rep.bad("R14.2", "multipolygon:report-iff:" + var, "members %d and %d: test is %s but %s is %sreported" % (i, j, bool(v), var, "" if (var, i, j) in events else "not "), where=fn.loc())
                            return
    for var in WANT:
        if not seen.get(var):
            rep.bad("R14.2", "multipolygon:never-reported:%s" % var, "no path reports %s" % var, where=fn.loc())
        else:
            rep.ok("R14.2", "multipolygon:%s[%d reports on %d paths, 3 members]" % (var, seen[var], len(paths)))
    rep.ok("R14.4", "multipolygon:every-pair-related")
    # the wrapping closure names the member it was created for
    wrap_ok = False
    for g in F.closures_of(fn):
        for q in opaque(F).run(g):
            if q.kind == "ret":
                evs = _handler_events(q)
                if evs and evs[0][2] == "InvalidPolygon" and re.match(r"^GeometryIndex::GeometryIndex\(\*?a1\.1\)$|^GeometryIndex::GeometryIndex\(\*?\*?a1\.1\)$", bare(evs[0][3][0])):
                    wrap_ok = True
    caps_ok = True
    for p in paths:
        for c in calls_of(p):
            if c[1].endswith("::visit_validation") and len(c[2]) == 2:
                m1 = re.match(r"^a1\.0\[(\d)\]$", bare(c[2][0]))
                m2 = re.search(r"closure\[.*, (\d+)\]", bare(c[2][1]))
                if not m1 or not m2 or m1.group(1) != m2.group(1):
                    caps_ok = False
    if wrap_ok and caps_ok:
        rep.ok("R14.2", "multipolygon:InvalidPolygon-index")
    else:
        rep.bad("R14.2", "multipolygon:InvalidPolygon-index", "a member's polygon errors are not wrapped with that member's own index", where=fn.loc())


def _ring_of(s):
    m = re.findall(r"a1\.(ext|h\d)", s)
    return m


def polygon_table(rep, F):
    rep.rule("R14.2", "each error value is reported under the check that defines it, on the ring(s) / member(s) it names (concrete ring structure: roles and indices are constants); on complete runs an error is reported exactly when its check fires")
    rep.rule("R14.3", "ring tests use the stated constants: hole not is_contains in the shell-polygon; (B,I)=1 shell/hole and (B,B)=1 hole/hole are line contacts; (I,I)=2 is an area overlap")
    rep.rule("R14.4", "every non-empty ring, every hole and every pair of holes / members is tested; no decision other than the checks themselves (no pre-filter)")
    _polygon_table(rep, F)


def _polygon_table(rep, F):
    """R14.2 - R14.4 for Polygon on polygons with concrete ring structure (exact unrolling): scenario A one hole with all per-ring checks
    symbolic, scenario B two holes with the per-ring checks assumed false (only the ring-vs-ring tests branch).  Ring roles are therefore
    constants.  Each error is reported under its own check on the ring(s) it names; on complete runs every non-empty ring / hole / pair of holes has
    its checks decided and an error is reported exactly when its check fires; no other decision is taken."""
    from ..symex import bare, _ret
    try:
        fn = F.impl_method(VAL, r"polygon::Polygon<F>$", None, "visit_validation", crates=("geo",))
    except KeyError as e:
        rep.bad("R14.2", "polygon:anchor", str(e))
        return
    PG, LS = GT + "polygon::Polygon", GT + "line_string::LineString"

    def ring(name):
        return ("adt", LS, "LineString", (("call", "vec!", (("array", (("field", ("deref", ("arg", 1)), name),)),)),))
    U = "geo::algorithm::validation::utils::"
    seen = {}
    total = 0
    for K, fixed, fixed_shell in ((1, False, False), (2, True, False), (3, True, True)):
        holes = tuple(ring("h%d" % i) for i in range(K))
        pg = ("&", ("adt", PG, "Polygon", (ring("ext"), ("call", "vec!", (("array", holes),)))))
        models = {}
        if fixed:
            for k in ("check_too_few_points", "linestring_has_self_intersection", "check_coord_is_not_finite"):
                models[U + k] = lambda ex, st, call, args: _ret(st, ("const", False))
        if fixed_shell:
            # three holes: only the hole-vs-hole tests branch (shell-vs-hole outcomes are assumed harmless; they are covered with two holes)
            IMX = "geo::algorithm::relate::geomgraph::intersection_matrix::IntersectionMatrix::"
            models[IMX + "is_contains"] = lambda ex, st, call, args: _ret(st, ("const", True))

            def get_model(ex, st, call, args):
                a, b = bare(ex.canon(st, args[1])), bare(ex.canon(st, args[2]))
                if (a, b) == ("CoordPos::OnBoundary()", "CoordPos::Inside()"):
                    return _ret(st, ("adt", "geo::algorithm::dimensions::Dimensions", "Empty", ()))
                return NotImplemented
            models[IMX + "get"] = get_model
        ex = Symex(F, models=models, inline_crates=("geo", "geo_types"), no_inline=API, loop_bound=12, max_paths=200000, budget_s=90, concrete_iters=True)
        try:
            paths = ex.run(fn, args=[pg, ("arg", 2)])
        except Unanalysable as e:
            rep.bad("R14.2", "polygon:unanalysable", str(e), where=fn.loc())
            return
        if any(p.kind != "ret" for p in paths):
            rep.bad("R14.2", "polygon:paths", "a path does not return (%s)" % sorted({p.kind for p in paths}), where=fn.loc())
            return
        total += len(paths)
        role_ring = {"RingRole::Exterior()": "ext"}
        for i in range(K):
            role_ring["RingRole::Interior(%d)" % i] = "h%d" % i
        for p in paths:
            T = {}      # decided checks: key -> value
            for t, v in p.pc:
                b = bare(t)
                if re.match(r"^discr\((call_mut|call|call_once)\(", b):
                    continue
                rings = _ring_of(b)
                if b.startswith("is_empty(Polygon::Polygon("):
                    T[("poly-empty",)] = v
                elif b.startswith("is_empty(") and len(set(rings)) == 1:
                    T[("empty", rings[0])] = v
                elif b.startswith("check_too_few_points(") and len(set(rings)) == 1 and b.endswith(", True)"):
                    T[("few", rings[0])] = v
                elif b.startswith("linestring_has_self_intersection(") and len(set(rings)) == 1:
                    T[("self", rings[0])] = v
                elif b.startswith("check_coord_is_not_finite(") and len(set(rings)) == 1:
                    T[("finite", rings[0])] = v
                elif re.match(r"^is_contains\(relate\(new\(.*a1\.ext.*\), LineString::LineString\(vec!\(\[a1\.(h\d)\]\)\)\)\)$", b):
                    T[("contains", rings[-1])] = v
                elif _cell_test(b) and len(rings) == 2:
                    ct = _cell_test(b)
                    a_, b_ = rings
                    cell = (ct[1], ct[2])
                    if a_ != "ext" and (b_ == "ext" or a_ > b_):
                        a_, b_, cell = b_, a_, (ct[2], ct[1])
                    T[("cell", a_, b_, cell[0], cell[1], ct[3])] = v
                else:
                    rep.bad("R14.4", "polygon:foreign-decision", "validation decides on `%s`, which is not one of the ring checks, a matrix test of two rings, or a handler outcome: rings or pairs "
                            "can be skipped before they are checked" % b[:140], where=fn.loc())
                    return
            events = []
            for err in _handler_events(p):
                var = err[2]
                roles = [bare(x) for x in err[3]]
                rr = [role_ring.get(x) for x in roles if x.startswith("RingRole")]
                seen[var] = seen.get(var, 0) + 1
                ok_ = False
                if None in rr:
                    ok_ = False
                elif var == "TooFewPointsInRing":
                    ok_ = T.get(("few", rr[0])) == 1
                elif var == "SelfIntersection":
                    ok_ = T.get(("self", rr[0])) == 1
                elif var == "NonFiniteCoord":
                    ok_ = T.get(("finite", rr[0])) == 1 and roles[1] == "CoordIndex::CoordIndex(0)"
                elif var == "InteriorRingNotContainedInExteriorRing":
                    ok_ = rr[0] != "ext" and T.get(("contains", rr[0])) == 0
                elif var == "IntersectingRingsOnALine" and len(rr) == 2:
                    a_, b_ = sorted(rr, key=lambda x: (x != "ext", x))
                    ok_ = a_ != b_ and (T.get(("cell", a_, b_, "B", "I", "OneDimensional")) == 1 if a_ == "ext" else T.get(("cell", a_, b_, "B", "B", "OneDimensional")) == 1)
                elif var == "IntersectingRingsOnAnArea" and len(rr) == 2:
                    a_, b_ = sorted(rr)
                    ok_ = a_ != b_ and "ext" not in (a_, b_) and T.get(("cell", a_, b_, "I", "I", "TwoDimensional")) == 1
                else:
                    rep.bad("R14.2", "polygon:unknown-variant:%s" % var, bare(err)[:100], where=fn.loc())
                    return
                if not ok_:
                    rep.bad("R14.2", "polygon:guard:%s" % var, "%s(%s) is reported on a path where the check that defines it does not hold for the ring(s) it names [%s]" % (
                        var, ", ".join(roles), show_pc(p.pc)[:200]), where=fn.loc())
                    return
                events.append((var, tuple(rr)))
            if not bare(p.ret).startswith("Result::Ok") or T.get(("poly-empty",)) == 1:
                continue
            # complete run: every non-empty ring has its checks decided and reported iff they fire
            allr = ["ext"] + ["h%d" % i for i in range(K)]
            for r_ in allr:
                if T.get(("empty", r_)) != 0:
                    continue
                if not fixed:
                    for key, var in (("few", "TooFewPointsInRing"), ("self", "SelfIntersection"), ("finite", "NonFiniteCoord")):
                        v = T.get((key, r_))
                        if v is None:
                            rep.bad("R14.4", "polygon:ring-check-skipped", "a complete run does not perform the `%s` check on the ring %s" % (key, r_), where=fn.loc())
                            return
                        if (v == 1) != any(e[0] == var and e[1][0] == r_ for e in events):
                            rep.bad("R14.2", "polygon:report-iff:%s" % var, "ring %s: check is %s but the error is %sreported" % (r_, bool(v), "" if v == 0 else "not "), where=fn.loc())
                            return
            for i in range(K):
                h = "h%d" % i
                if T.get(("empty", h)) != 0:
                    continue
                v = T.get(("contains", h))
                w = T.get(("cell", "ext", h, "B", "I", "OneDimensional"))
                if fixed_shell:
                    v, w = 1, 0
                if v is None or w is None:
                    rep.bad("R14.4", "polygon:hole-check-skipped", "a complete run does not test hole %d against the shell (contains: %s, line contact: %s)" % (i, v, w), where=fn.loc())
                    return
                if (v == 0) != any(e == ("InteriorRingNotContainedInExteriorRing", (h,)) for e in events) or \
                        (w == 1) != any(e[0] == "IntersectingRingsOnALine" and set(e[1]) == {"ext", h} for e in events):
                    rep.bad("R14.2", "polygon:report-iff:shell-hole", "hole %d: tests (contains=%s, line=%s) and the reported errors disagree" % (i, v, w), where=fn.loc())
                    return
                for j in range(i + 1, K):
                    g = "h%d" % j
                    a_ = T.get(("cell", h, g, "I", "I", "TwoDimensional"))
                    l_ = T.get(("cell", h, g, "B", "B", "OneDimensional"))
                    if a_ is None or l_ is None:
                        rep.bad("R14.4", "polygon:pair-not-tested", "a complete run does not test holes %d and %d against each other" % (i, j), where=fn.loc())
                        return
                    if (a_ == 1) != any(e[0] == "IntersectingRingsOnAnArea" and set(e[1]) == {h, g} for e in events) or \
                            (l_ == 1) != any(e[0] == "IntersectingRingsOnALine" and set(e[1]) == {h, g} for e in events):
                        rep.bad("R14.2", "polygon:report-iff:hole-hole", "holes %d and %d: tests (area=%s, line=%s) and the reported errors disagree" % (i, j, a_, l_), where=fn.loc())
                        return
    for var in ("TooFewPointsInRing", "SelfIntersection", "NonFiniteCoord", "InteriorRingNotContainedInExteriorRing", "IntersectingRingsOnALine", "IntersectingRingsOnAnArea"):
        if not seen.get(var):
            rep.bad("R14.2", "polygon:never-reported:%s" % var, "no path reports %s" % var, where=fn.loc())
        else:
            rep.ok("R14.2", "polygon:%s[%d reports]" % (var, seen[var]))
    rep.ok("R14.4", "polygon:every-ring-and-pair-checked")
    rep.ok("R14.3", "polygon:constants(contains / (B,I)=1 / (B,B)=1 / (I,I)=2)")
    rep.info["polygon_validation_paths"] = total


def propagation(rep, F):
    """Every handler call and nested visit_validation has its Result examined; an Err ends the visit with that Err."""
    n = 0
    for im in F.impls_of(VAL):
        fn = F.impl_fn(im, "visit_validation")
        if fn is None:
            continue
        for g in [fn] + F.closures_of(fn):
            for c in g.calls():
                is_handler = re.search(r"FnMut<Args>>::call_mut$|ops::function::FnMut::call_mut$", c.path or "") is not None
                is_nested = (c.method == "visit_validation")
                if not (is_handler or is_nested):
                    continue
                n += 1
                d = c.dest["l"]
                # uses of the destination local
                used_try = used_ret = False
                for c2 in g.calls():
                    if c2.bb == c.bb:
                        continue
                    for a in c2.args:
                        pl = a.get("move") or a.get("copy")
                        if pl and pl["l"] == d and (c2.path or "").endswith("Try>::branch") or (pl and pl["l"] == d and c2.method == "branch"):
                            used_try = True
                if d == 0:
                    used_ret = True
                for bb, pl, rv, line in g.all_assigns():
                    if pl["l"] == 0 and not pl["p"] and rv[0] == "use":
                        src = rv[1].get("move") or rv[1].get("copy")
                        if src and src["l"] == d:
                            used_ret = True
                key = "%s#bb%d" % (g.path, c.bb)
                if used_try or used_ret:
                    rep.ok("R14.1", "propagated:" + key)
                else:
                    rep.bad("R14.1", "dropped-result:%s" % short(g.path), "the Result of %s is dropped: an error can be reported while the visit continues and returns Ok" % short(c.path or "handler"),
                            where="%s:%s" % (g.rel_file, c.line))
    rep.floor("R14.1", "handler / nested-visit call sites", n, 20)


def delegation(rep, F):
    rep.rule("R14.5", "Geometry delegates to every variant; collections visit every member")
    try:
        fn = F.impl_method(VAL, r"geo_types::geometry::Geometry<F>$", None, "visit_validation", crates=("geo",))
        ps = [p for p in opaque(F).run(fn) if p.kind == "ret"]
        gv = [v["name"] for v in F.adts["geo_types::geometry::Geometry"]["variants"]]
        got = set()
        for p in ps:
            d = [v for t, v in p.pc if t[0] == "discr" and isinstance(v, int)]
            nested = [c for c in calls_of(p) if c[1].endswith("::visit_validation")]
            if d and nested:
                got.add(gv[d[0]])
        if got == set(gv):
            rep.ok("R14.5", "Geometry[%d variants]" % len(gv))
        else:
            rep.bad("R14.5", "Geometry", "variants not validated: %s" % sorted(set(gv) - got), where=fn.loc())
    except (KeyError, Unanalysable) as e:
        rep.bad("R14.5", "Geometry:anchor", str(e))


def self_intersection(rep, F):
    """R14.6: the ring simplicity helper on a line string of 4 coordinates (3 segments: adjacent and non-adjacent pairs), with the number of
    elements concrete so that loops and iterator chains (`for`, `any`, ...) unroll exactly: the complete path table must say
      true  only if some pair of distinct segments intersects and neither `start_i == end_j` nor `end_i == start_j` holds, and
      false only if every pair of distinct segments was found not to satisfy that,
    and no decision may be anything but a segment-pair predicate or an end-point equality (a ring-level shortcut is a foreign decision)."""
    from ..symex import bare
    rep.rule("R14.6", "linestring_has_self_intersection (3 segments, exact unrolling): true iff some pair of distinct segments intersects without sharing the end points that chain them; "
                      "false only after every pair was examined; no other decision")
    try:
        fn = F.one(r"validation::utils::linestring_has_self_intersection$", crates=("geo",))
        N = 4
        LS = "geo_types::geometry::line_string::LineString"
        elems = tuple(("index", ("field", ("deref", ("arg", 1)), "0"), ("const", k)) for k in range(N))
        ring = ("&", ("adt", LS, "LineString", (("call", "vec!", (("array", elems),)),)))
        ex = Symex(F, no_inline=[r"Intersects.*::intersects$"], loop_bound=N * N + 4, max_paths=100000, budget_s=60, concrete_iters=True)
        ex.assume_reflexive = True
        ps = ex.run(fn, args=[ring])
    except (KeyError, Unanalysable) as e:
        rep.bad("R14.6", "anchor", str(e))
        return
    if any(p.kind == "cut" for p in ps):
        rep.bad("R14.6", "unbounded", "the helper does not terminate within the exact unrolling of a 3-segment line string", where=fn.loc())
        return
    C = r"(?:into\()?\*?a1\.0\[(\d)\]\)?"
    re_int = re.compile(r"^intersects\(Line::Line\(%s, %s\), Line::Line\(%s, %s\)\)$" % (C, C, C, C))
    re_eq = re.compile(r"^\(%s == %s\)$" % (C, C))
    n = 0
    for p in ps:
        if p.kind != "ret":
            rep.bad("R14.6", "panic", "a path of the helper panics: %s" % show_pc(p.pc)[:120], where=fn.loc())
            return
        vint, veq = {}, {}
        for t, v in p.pc:
            b = bare(t)
            m = re_int.match(b)
            if m:
                a0, a1_, b0, b1 = (int(x) for x in m.groups())
                if a1_ != a0 + 1 or b1 != b0 + 1:
                    rep.bad("R14.6", "foreign-decision", "a tested segment is not a segment of the line string: %s" % b[:120], where=fn.loc())
                    return
                vint[frozenset((a0, b0))] = v
                continue
            m = re_eq.match(b)
            if m:
                veq[frozenset(int(x) for x in m.groups())] = v
                continue
            rep.bad("R14.6", "foreign-decision", "the result depends on `%s` (= %s), which is neither a segment-pair predicate nor an end-point equality: a ring-level shortcut decides "
                    "simplicity without looking at the segment pairs" % (b[:120], v), where=fn.loc())
            return

        def cond(i, j):
            I = vint.get(frozenset((i, j)))
            se = 1 if i == j + 1 else veq.get(frozenset((i, j + 1)))
            es = 1 if i + 1 == j else veq.get(frozenset((i + 1, j)))
            if I == 0 or se == 1 or es == 1:
                return False
            if I == 1 and se == 0 and es == 0:
                return True
            return None
        pairs = [(i, j) for i in range(N - 1) for j in range(N - 1) if i < j]
        r = bare(p.ret)
        n += 1
        if r == "True":
            if not any(cond(i, j) is True or cond(j, i) is True for i, j in pairs):
                rep.bad("R14.6", "true-condition", "true is returned on [%s] although no pair of distinct segments was found intersecting away from their chaining end points" % show_pc(p.pc)[:200], where=fn.loc())
                return
        elif r == "False":
            open_ = [(i, j) for i, j in pairs if not (cond(i, j) is False or cond(j, i) is False)]
            if open_:
                rep.bad("R14.6", "false-before-exhaustion", "false is returned on [%s] although the segment pair(s) %s were not found harmless" % (show_pc(p.pc)[:160], open_), where=fn.loc())
                return
        else:
            rep.bad("R14.6", "result", "unexpected result %s" % r[:60], where=fn.loc())
            return
    if n < 20:
        rep.bad("R14.6", "floor", "only %d table rows" % n, where=fn.loc())
    else:
        rep.ok("R14.6", "pairwise-table[%d rows, 3 segments]" % n)
    # who calls it: every ring of a polygon (exterior and interiors) and line strings are tested
    users = sorted({short(g.path) for g in F.lib_fns(("geo",)) for c in g.calls() if (c.path or "").endswith("utils::linestring_has_self_intersection")})
    rep.info["self_intersection_callers"] = users


def helper_tables(rep, F):
    """R14.8: the elementary checks the validation tables treat as symbols, decided on witnesses through their own path tables:
    check_coord_is_not_finite(c) is true exactly when x or y is NaN / infinite; check_too_few_points(ring) exactly when fewer than 4 (ring) /
    2 (line) coordinates remain after removing consecutive repetitions; robust_check_points_are_collinear is the exact orientation test;
    LineString::remove_repeated_points is dedup() of a clone of the coordinates."""
    import itertools
    from ..numeval import NumEval
    from ..evalterm import NoModel
    rep.rule("R14.8", "validation helpers on witnesses: check_coord_is_not_finite <=> x or y not finite; check_too_few_points <=> fewer than 4 (ring) / 2 (line) coordinates after removing consecutive repetitions (0..5 coordinates); robust_check_points_are_collinear <=> exact orientation is zero; remove_repeated_points = dedup of the coordinates")
    V = "geo::algorithm::validation::utils::"
    GT = "geo_types::geometry::"
    n_ok = 0
    inf, nan = float("inf"), float("nan")
    # finite
    try:
        fn = F.one(r"^%scheck_coord_is_not_finite$" % V, crates=("geo",))
        paths = [p for p in Symex(F, inline_crates=("geo", "geo_types")).run(fn) if p.kind != "cut"]
        bad = None
        for x, y in itertools.product((0.0, -3.5, inf, -inf, nan), repeat=2):
            ev = NumEval(F, {("arg", 1): {"x": x, "y": y}})
            hit = ev.select_path(paths)
            got = [bool(ev.ev(h.ret)) for h in hit if h.kind == "ret"]
            want = not (x == x and y == y and abs(x) != inf and abs(y) != inf)
            if got != [want]:
                bad = "check_coord_is_not_finite((%s, %s)) = %s" % (x, y, got)
                break
        if bad:
            rep.bad("R14.8", "helper:finite", bad, where=fn.loc())
        else:
            n_ok += 1
            rep.ok("R14.8", "helper:finite[25 witnesses]")
    except (KeyError, Unanalysable, NoModel, TypeError) as e:
        rep.bad("R14.8", "helper:finite:unanalysable", str(e))
    # too few points
    try:
        fn = F.one(r"^%scheck_too_few_points$" % V, crates=("geo",))
        paths = [p for p in Symex(F, inline_crates=("geo", "geo_types"), no_inline=[r"::remove_repeated_points$"]).run(fn) if p.kind != "cut"]

        class Ev(NumEval):
            def call(self, t):
                if t[1].rsplit("::", 1)[-1] == "remove_repeated_points" and len(t[2]) == 1:
                    v = self.ev(t[2][0])
                    cs = v["0"]
                    out = []
                    for c in cs:
                        if not out or out[-1] != c:
                            out.append(c)
                    return {"0": out}
                return NumEval.call(self, t)
        bad = None
        k = 0
        pts = [{"x": 0, "y": 0}, {"x": 1, "y": 0}, {"x": 1, "y": 1}]
        for n in range(0, 6):
            for cs in itertools.product(pts, repeat=n):
                for is_ring in (True, False):
                    ev = Ev(F, {("arg", 1): {"0": list(cs)}, ("arg", 2): is_ring})
                    hit = ev.select_path(paths)
                    got = [bool(ev.ev(h.ret)) for h in hit if h.kind == "ret"]
                    d = [c for i, c in enumerate(cs) if i == 0 or cs[i - 1] != c]
                    want = len(d) < (4 if is_ring else 2)
                    k += 1
                    if got != [want]:
                        bad = "check_too_few_points(%s, is_ring = %s) = %s; %d coordinates remain after removing repetitions" % ([(c["x"], c["y"]) for c in cs], is_ring, got, len(d))
                        break
                if bad:
                    break
            if bad:
                break
        if bad:
            rep.bad("R14.8", "helper:too-few-points", bad, where=fn.loc())
        else:
            n_ok += 1
            rep.ok("R14.8", "helper:too-few-points[%d witnesses]" % k)
    except (KeyError, Unanalysable, NoModel, TypeError) as e:
        rep.bad("R14.8", "helper:too-few-points:unanalysable", str(e))
    # collinear
    try:
        fn = F.one(r"^%srobust_check_points_are_collinear$" % V, crates=("geo",))
        paths = [p for p in Symex(F, inline_crates=("geo", "geo_types")).run(fn) if p.kind != "cut"]
        grid = [{"x": float(x), "y": float(y)} for x in range(3) for y in range(3)]
        bad = None
        for a, b, c in itertools.product(grid, repeat=3):
            ev = NumEval(F, {("arg", 1): a, ("arg", 2): b, ("arg", 3): c})
            hit = ev.select_path(paths)
            got = [bool(ev.ev(h.ret)) for h in hit if h.kind == "ret"]
            want = (b["x"] - a["x"]) * (c["y"] - b["y"]) - (b["y"] - a["y"]) * (c["x"] - b["x"]) == 0
            if got != [want]:
                bad = "robust_check_points_are_collinear(%s, %s, %s) = %s" % ((a["x"], a["y"]), (b["x"], b["y"]), (c["x"], c["y"]), got)
                break
        if bad:
            rep.bad("R14.8", "helper:collinear", bad, where=fn.loc())
        else:
            n_ok += 1
            rep.ok("R14.8", "helper:collinear[729 witnesses]")
    except (KeyError, Unanalysable, NoModel, TypeError) as e:
        rep.bad("R14.8", "helper:collinear:unanalysable", str(e))
    # remove_repeated_points = LineString(dedup(clone(self.0)))
    try:
        fn = F.impl_method("geo::algorithm::remove_repeated_points::RemoveRepeatedPoints", r"^%sline_string::LineString<T>$" % GT, None, "remove_repeated_points", crates=("geo",))
        ps = [p for p in Symex(F, inline_crates=()).run(fn) if p.kind == "ret"]
        ok = len(ps) == 1 and not ps[0].pc
        if ok:
            dd = [e for e in ps[0].trace if e[0] == "call" and e[1].endswith("::dedup")]
            r = show(ps[0].ret)
            ok = len(dd) == 1 and "a1.0" in show(dd[0][2][0]) and r.startswith("LineString::LineString(havoc(") and "a1.0" in r
        if ok:
            n_ok += 1
            rep.ok("R14.8", "helper:remove_repeated_points")
        else:
            rep.bad("R14.8", "helper:remove_repeated_points", "LineString::remove_repeated_points is not LineString(dedup(clone of the coordinates)): %s" % (show(ps[0].ret)[:120] if ps else "no path"), where=fn.loc())
    except (KeyError, Unanalysable) as e:
        rep.bad("R14.8", "helper:remove_repeated_points:unanalysable", str(e))
    rep.floor("R14.8", "validation helper tables", n_ok, 4)


# ------------------------------------------------------------------------------------------------ R14.9 / R14.10
def _nested_model(ex, F, root_key):
    """nested visit_validation(member, handler) = the member is valid (nothing happens, Ok) or it has one defect error_of(member), which the
    wrapping closure handed down is invoked with (its own Result is returned); Box::new is the identity on the closure reference"""
    from .. import citer

    def m_visit(ex_, st, call, args):
        member = ex_.canon(st, args[0])

        def gen():
            for val in (0, 1):
                s2 = st.clone()
                s2.assume(("call", "invalid", (member,)), val)
                if val == 0:
                    yield s2, "ret", ("adt", "core::result::Result", "Ok", (("tuple", ()),))
                else:
                    for s3, v in citer.call_fn_value(ex_, s2, args[1], [("call", "error_of", (member,))]):
                        yield s3, "ret", v
        return gen()

    def m_id(ex_, st, call, args):
        yield st, "ret", args[0]
    for k in F.fns:
        if k.endswith("::visit_validation") and k != root_key:
            ex.models[k] = m_visit
    ex.models[VAL + "::visit_validation"] = m_visit
    ex.models["alloc::boxed::Box::<T>::new"] = m_id


def _complete(p):
    """a run that was not cut short by the handler: it returns Ok(()), or hands back the answer of its LAST handler call / nested visit as it is
    (tail call) - no earlier answer was an Err"""
    from ..symex import bare
    r = bare(p.ret)
    if r.startswith("Result::Ok"):
        return True
    if r.startswith("Result::Err"):
        return False
    stopped = [v for t, v in p.pc if re.match(r"^discr\((call_mut|call|call_once|visit_validation)\(", bare(t)) and v == 1]
    return not stopped and bool(re.match(r"^(call_mut|call|call_once|visit_validation)\(", r))



def wrap_tables(rep, F):
    """R14.9: the collection types on three abstract members (member list unrolled exactly).  Each member is either valid or has one abstract
    defect; the defect of member j must reach the caller's handler wrapped as Invalid<Member>(GeometryIndex(j), that defect) - the index names
    the member that really has it - and on a complete run every member has been validated (a member may only be passed over on an explicit
    emptiness test of that same member)."""
    from ..symex import bare
    from .. import citer
    rep.rule("R14.9", "collections (3 abstract members, each valid or with one abstract defect): the defect of member j reaches the handler as Invalid*(GeometryIndex(j), defect of member j); "
                      "on complete runs every member is validated; Geometry wraps each variant's defect in the matching InvalidGeometry variant")
    specs = [("GeometryCollection", r"geometry_collection::GeometryCollection<F>$", GT + "geometry_collection::GeometryCollection", "InvalidGeometry"),
             ("MultiLineString", r"multi_line_string::MultiLineString<F>$", GT + "multi_line_string::MultiLineString", "InvalidLineString"),
             ("MultiPoint", r"multi_point::MultiPoint<F>$", GT + "multi_point::MultiPoint", "InvalidPoint"),
             ("MultiPolygon", r"multi_polygon::MultiPolygon<F>$", GT + "multi_polygon::MultiPolygon", "InvalidPolygon")]
    K = 3
    for name, sre, adt, wrapper in specs:
        try:
            fn = F.impl_method(VAL, sre, None, "visit_validation", crates=("geo",))
        except KeyError as e:
            rep.bad("R14.9", "wrap:%s:anchor" % name, str(e))
            continue
        elems = tuple(("opaque", "m%d" % i) for i in range(K))
        coll = ("&", ("adt", adt, name, (("call", "vec!", (("array", elems),)),)))
        ex = Symex(F, inline_crates=("geo", "geo_types"), no_inline=API, loop_bound=K * K + 6, max_paths=200000, budget_s=90, concrete_iters=True)
        _nested_model(ex, F, fn.key)
        try:
            paths = [p for p in ex.run(fn, args=[coll, ("arg", 2)]) if p.kind != "cut"]
        except (Unanalysable, citer.NotConcrete) as e:
            rep.bad("R14.9", "wrap:%s:unanalysable" % name, str(e), where=fn.loc())
            continue
        bad = None
        n_ev = 0
        for p in paths:
            if p.kind != "ret":
                bad = ("paths", "a path does not return (%s)" % p.kind)
                break
            atoms = [(bare(t), v) for t, v in p.pc]
            invalid = {}
            for b, v in atoms:
                m = re.match(r"^invalid\(&?opaque\(m(\d)\)\)$", b)
                if m:
                    invalid[int(m.group(1))] = v
            reported = {}
            for err in _handler_events(p):
                if err[2] != wrapper:
                    continue
                idx = bare(err[3][0])
                mi = re.match(r"^GeometryIndex::GeometryIndex\((\d+)\)$", idx)
                who = re.findall(r"error_of\(&?opaque\(m(\d)\)\)", bare(err))
                if not mi or len(set(who)) != 1:
                    bad = ("index", "the handler is given %s: not a member's defect under a constant member position" % bare(err)[:120])
                    break
                i, j = int(mi.group(1)), int(who[0])
                n_ev += 1
                if i != j:
                    bad = ("index", "the defect of member %d is reported as %s(GeometryIndex(%d), ..): the error names a member that does not have it [%s]" % (j, wrapper, i, show_pc(p.pc)[:200]))
                    break
                reported[j] = True
            if bad:
                break
            for j, v in invalid.items():
                # every defect found reaches the handler, unless an earlier handler call returned Err (the run stops there)
                if v == 1 and j not in reported:
                    bad = ("lost", "member %d has a defect but no %s(GeometryIndex(%d), ..) reaches the handler" % (j, wrapper, j))
                    break
            if bad:
                break
            if _complete(p):
                for j in range(K):
                    if j in invalid:
                        continue
                    if any(re.search(r"is_empty\([^()]*opaque\(m%d\)" % j, b) for b, _v in atoms):
                        continue          # passed over on an emptiness test of this very member
                    bad = ("member-not-validated", "a complete run never validates member %d [%s]" % (j, show_pc(p.pc)[:200]))
                    break
            if bad:
                break
        if bad:
            rep.bad("R14.9", "wrap:%s:%s" % (name, bad[0]), "%s: %s" % (name, bad[1]), where=fn.loc())
        elif n_ev < 3:
            rep.bad("R14.9", "wrap:%s:floor" % name, "only %d wrapped defects seen on %d paths" % (n_ev, len(paths)), where=fn.loc())
        else:
            rep.ok("R14.9", "wrap:%s[%d paths, %d wrapped defects]" % (name, len(paths), n_ev))
    # Geometry: each variant's defect is wrapped in the matching variant of InvalidGeometry
    try:
        fn = F.impl_method(VAL, r"geo_types::geometry::Geometry<F>$", None, "visit_validation", crates=("geo",))
        gv = [v["name"] for v in F.adts["geo_types::geometry::Geometry"]["variants"]]
    except KeyError as e:
        rep.bad("R14.9", "wrap:Geometry:anchor", str(e))
        return
    n = 0
    for v in gv:
        g = ("&", ("adt", "geo_types::geometry::Geometry", v, (("opaque", "m0"),)))
        ex = Symex(F, inline_crates=("geo", "geo_types"), no_inline=API, max_paths=2000, budget_s=30)
        _nested_model(ex, F, fn.key)
        try:
            paths = [p for p in ex.run(fn, args=[g, ("arg", 2)]) if p.kind != "cut"]
        except (Unanalysable, citer.NotConcrete) as e:
            rep.bad("R14.9", "wrap:Geometry:unanalysable", "%s: %s" % (v, e), where=fn.loc())
            return
        seen = False
        for p in paths:
            inv = [val for t, val in p.pc if bare(t).startswith("invalid(")]
            evs = _handler_events(p)
            if inv == [1]:
                if len(evs) != 1 or evs[0][2] != "Invalid" + v or not re.search(r"error_of\(&?opaque\(m0\)\)", bare(evs[0])):
                    rep.bad("R14.9", "wrap:Geometry:%s" % v, "a defect of a Geometry::%s reaches the handler as %s" % (v, [bare(e)[:80] for e in evs]), where=fn.loc())
                    return
                seen = True
            elif evs:
                rep.bad("R14.9", "wrap:Geometry:%s" % v, "an error is reported for a valid Geometry::%s" % v, where=fn.loc())
                return
        if not seen:
            rep.bad("R14.9", "wrap:Geometry:%s" % v, "Geometry::%s is never validated" % v, where=fn.loc())
            return
        n += 1
    rep.ok("R14.9", "wrap:Geometry[%d variants]" % n)


def small_tables(rep, F):
    """R14.10: Coord, Point, Line, Rect, Triangle and LineString (3 coordinates): the complete path table with the elementary checks as symbols
    (check_coord_is_not_finite, check_too_few_points, robust_check_points_are_collinear, coordinate equality - each decided on witnesses by
    R14.8) and the handler's answers.  On complete runs the errors reported are exactly those whose defining check holds, each naming the
    coordinate(s) the check was applied to; no decision is taken on anything but these checks (no arithmetic pre-filter in front of an exact
    predicate)."""
    from ..symex import bare
    rep.rule("R14.10", "Coord / Point / Line / Rect / Triangle / LineString(3): errors reported on a complete run = exactly the defining checks that hold (non-finite coordinate i, identical coordinates i,j, "
                       "collinear only when no two are identical, too few points), on the coordinates named; no other data-dependent decision")
    CO = GT + "coord::Coord"
    c = lambda i: ("opaque", "c%d" % i)
    NF = lambda i: r"^check_coord_is_not_finite\(&?opaque\(c%d\)\)$" % i
    EQ = lambda i, j: r"^(\(opaque\(c%d\) == opaque\(c%d\)\)|eq\(&?opaque\(c%d\), &?opaque\(c%d\)\))$" % (i, j, i, j)
    shapes = [
        ("Coord", r"coord::Coord<F>$", c(0), [("NonFinite", (), [NF(0)], lambda a: a[0])]),
        ("Point", r"point::Point<F>$", ("adt", GT + "point::Point", "Point", (c(0),)), [("NonFiniteCoord", (), [NF(0)], lambda a: a[0])]),
        ("Line", r"line::Line<F>$", ("adt", GT + "line::Line", "Line", (c(0), c(1))),
         [("NonFiniteCoord", (0,), [NF(0)], lambda a: a[0]), ("NonFiniteCoord", (1,), [NF(1)], lambda a: a[0]), ("IdenticalCoords", (), [EQ(0, 1)], lambda a: a[0])]),
        ("Rect", r"rect::Rect<F>$", ("adt", GT + "rect::Rect", "Rect", (c(0), c(1))),
         [("NonFiniteCoord", (0,), [NF(0)], lambda a: a[0]), ("NonFiniteCoord", (1,), [NF(1)], lambda a: a[0])]),
        ("Triangle", r"triangle::Triangle<F>$", ("adt", GT + "triangle::Triangle", "Triangle", (c(0), c(1), c(2))),
         [("NonFiniteCoord", (0,), [NF(0)], lambda a: a[0]), ("NonFiniteCoord", (1,), [NF(1)], lambda a: a[0]), ("NonFiniteCoord", (2,), [NF(2)], lambda a: a[0]),
          ("IdenticalCoords", (0, 1), [EQ(0, 1)], lambda a: a[0]), ("IdenticalCoords", (0, 2), [EQ(0, 2)], lambda a: a[0]), ("IdenticalCoords", (1, 2), [EQ(1, 2)], lambda a: a[0]),
          ("CollinearCoords", (), [EQ(0, 1), EQ(0, 2), EQ(1, 2), r"^robust_check_points_are_collinear\(&?opaque\(c0\), &?opaque\(c1\), &?opaque\(c2\)\)$"],
           lambda a: (not a[0] and not a[1] and not a[2]) and a[3])]),
        ("LineString", r"line_string::LineString<F>$", ("adt", GT + "line_string::LineString", "LineString", (("call", "vec!", (("array", (c(0), c(1), c(2))),)),)),
         [("TooFewPoints", (), [r"^check_too_few_points\(.*, False\)$"], lambda a: a[0]),
          ("NonFiniteCoord", (0,), [NF(0)], lambda a: a[0]), ("NonFiniteCoord", (1,), [NF(1)], lambda a: a[0]), ("NonFiniteCoord", (2,), [NF(2)], lambda a: a[0])]),
    ]
    for name, sre, shape, errors in shapes:
        try:
            fn = F.impl_method(VAL, sre, None, "visit_validation", crates=("geo",))
        except KeyError as e:
            rep.bad("R14.10", "small:%s:anchor" % name, str(e))
            continue
        ex = Symex(F, inline_crates=("geo", "geo_types"), no_inline=[a for a in API if "is_empty" not in a], loop_bound=6, max_paths=100000, budget_s=60, concrete_iters=True)
        try:
            paths = [p for p in ex.run(fn, args=[("&", shape), ("arg", 2)]) if p.kind != "cut"]
        except Unanalysable as e:
            rep.bad("R14.10", "small:%s:unanalysable" % name, str(e), where=fn.loc())
            continue
        bad = None
        complete = 0
        allre = [r for _v, _i, rs, _f in errors for r in rs]
        for p in paths:
            if p.kind != "ret":
                bad = ("paths", "a path does not return (%s)" % p.kind)
                break
            atoms = [(bare(t), v) for t, v in p.pc]
            val = {}
            fin = {}
            for b, v in atoms:
                if re.match(r"^discr\((call_mut|call|call_once)\(", b):
                    continue
                # the same checks written out: c_j == c_i / c_i != c_j, and the finiteness test of a coordinate inlined per axis
                m = re.match(r"^\(opaque\(c(\d)\) (==|!=) opaque\(c(\d)\)\)$", b) or re.match(r"^(?:eq|ne)\(&?opaque\(c(\d)\), &?opaque\(c(\d)\)\)$", b)
                if m:
                    g = m.groups()
                    i_, j_ = sorted((int(g[0]), int(g[-1])))
                    neg = ("!=" in g) or b.startswith("ne(")
                    b = "(opaque(c%d) == opaque(c%d))" % (i_, j_)
                    v = (1 - v) if neg else v
                m = re.match(r"^is_finite\(opaque\(c(\d)\)\.(x|y)\)$", b)
                if m:
                    fin[(int(m.group(1)), m.group(2))] = bool(v)
                    continue
                hit = [r for r in allre if re.match(r, b)]
                if not hit:
                    bad = ("other-decision", "%s::visit_validation decides on `%s`, which is none of the checks that define its errors: an error can be suppressed or raised by something other than its check" % (name, b[:140]))
                    break
                for r in hit:
                    val[r] = bool(v)
            if bad:
                break
            for i_ in {k[0] for k in fin}:
                fx, fy = fin.get((i_, "x")), fin.get((i_, "y"))
                if fx is False or fy is False:
                    val[NF(i_)] = True
                elif fx is True and fy is True:
                    val[NF(i_)] = False
            got = []
            for err in _handler_events(p):
                idx = tuple(int(x) for x in re.findall(r"CoordIndex::CoordIndex\((\d+)\)", bare(err)))
                got.append((err[2], idx))
            if not _complete(p):
                # an interrupted run: what was reported so far must still be justified by its check
                for var, idx in got:
                    spec = [e for e in errors if e[0] == var and e[1] == idx]
                    if not spec or any(r not in val for r in spec[0][2]) or not spec[0][3]([val[r] for r in spec[0][2]]):
                        bad = ("guard:" + var, "%s%s is reported on a path where its check does not hold [%s]" % (var, list(idx), show_pc(p.pc)[:160]))
                        break
                if bad:
                    break
                continue
            complete += 1
            want = []
            for var, idx, rs, f in errors:
                if any(r not in val for r in rs):
                    # an undecided check is fine only if the error cannot be due whatever its value (short-circuit), e.g. collinearity after identical coordinates
                    poss = set()
                    import itertools as _it
                    free = [r for r in rs if r not in val]
                    for bits in _it.product((False, True), repeat=len(free)):
                        a = dict(val)
                        a.update(dict(zip(free, bits)))
                        poss.add(bool(f([a[r] for r in rs])))
                    if poss != {False}:
                        bad = ("check-not-made:" + var, "a complete run of %s::visit_validation never decides the check of %s%s [%s]" % (name, var, list(idx), show_pc(p.pc)[:160]))
                        break
                    continue
                if f([val[r] for r in rs]):
                    want.append((var, idx))
            if bad:
                break
            if sorted(got) != sorted(want):
                bad = ("report-iff", "on a complete run with %s the errors reported are %s, the checks that hold define %s" % (
                    ", ".join("%s=%s" % (b[:50], v) for b, v in atoms if not b.startswith("discr(")), got, want))
                break
        if bad:
            rep.bad("R14.10", "small:%s:%s" % (name, bad[0]), bad[1], where=fn.loc())
        elif complete < 2:
            rep.bad("R14.10", "small:%s:floor" % name, "only %d complete runs" % complete, where=fn.loc())
        else:
            rep.ok("R14.10", "small:%s[%d paths, %d complete runs]" % (name, len(paths), complete))
