"""Small algebraic accessors of geo_types (Line, Rect, Triangle, Point, Coord, private_utils) as numeric tables.

Many rules treat these accessors as uninterpreted symbols (Line::determinant in the shoelace term, Rect::width / height in the area, Rect::center
as a transform origin, line_euclidean_length in the distance kernels).  Their own meaning is decided here: the path table of each accessor,
extracted from MIR, is evaluated on grid witnesses and compared with its definition.  `select` restricts the table to the accessors a
property depends on."""
import itertools
import math
from ..symex import Symex, Unanalysable, show, show_pc
from ..numeval import NumEval, seg_dist
from ..evalterm import NoModel, Enum

GT = "geo_types::geometry::"
GRID = [{"x": x, "y": y} for x in (-1, 0, 2) for y in (-2, 0, 1)]


def C(i):
    return ("opaque", "c%d" % i)


def S(i):
    return ("opaque", "s%d" % i)


def line(a, b):
    return ("adt", GT + "line::Line", "Line", (a, b))


def rect(a, b):
    return ("adt", GT + "rect::Rect", "Rect", (a, b))


def point(c):
    return ("adt", GT + "point::Point", "Point", (c,))


def xy(v):
    """decode a Coord / Point value into (x, y)"""
    if isinstance(v, dict) and "0" in v and isinstance(v["0"], dict):
        v = v["0"]
    if isinstance(v, dict) and "x" in v:
        return (v["x"], v["y"])
    if isinstance(v, (tuple, list)) and len(v) == 2:
        return (v[0], v[1])
    raise NoModel("not a coordinate: %r" % (v,))


def close(a, b):
    if isinstance(a, (tuple, list)):
        return len(a) == len(b) and all(close(x, y) for x, y in zip(a, b))
    if isinstance(a, bool) or isinstance(b, bool):
        return a == b
    if isinstance(a, float) and (a != a) and isinstance(b, float) and (b != b):
        return True
    if isinstance(a, float) and math.isinf(a):
        return a == b
    return abs(a - b) <= 1e-9


def _rects():
    return [(a, b) for a in GRID for b in GRID if a["x"] <= b["x"] and a["y"] <= b["y"]]


def table_defs():
    """(key, fn regex, crate, argument terms, witnesses -> env, decode(result), reference(env values))"""
    two = [(a, b) for a in GRID for b in GRID]
    three = [(a, b, c) for a in GRID[::2] for b in GRID[1::3] for c in GRID]
    T = []

    def env2(w):
        return {C(0): w[0], C(1): w[1]}

    def env3(w):
        return {C(0): w[0], C(1): w[1], C(2): w[2]}
    L = ("&", line(C(0), C(1)))
    T.append(("Line::dx", r"^%sline::Line::<T>::dx$" % GT, [L], two, env2, float, lambda w: w[1]["x"] - w[0]["x"]))
    T.append(("Line::dy", r"^%sline::Line::<T>::dy$" % GT, [L], two, env2, float, lambda w: w[1]["y"] - w[0]["y"]))
    T.append(("Line::delta", r"^%sline::Line::<T>::delta$" % GT, [L], two, env2, xy, lambda w: (w[1]["x"] - w[0]["x"], w[1]["y"] - w[0]["y"])))
    T.append(("Line::determinant", r"^%sline::Line::<T>::determinant$" % GT, [L], two, env2, float, lambda w: w[0]["x"] * w[1]["y"] - w[0]["y"] * w[1]["x"]))
    T.append(("Line::slope", r"^%sline::Line::<T>::slope$" % GT, [L], [w for w in two if w[0]["x"] != w[1]["x"]], env2, float,
              lambda w: (w[1]["y"] - w[0]["y"]) / float(w[1]["x"] - w[0]["x"])))
    T.append(("Line::start_point", r"^%sline::Line::<T>::start_point$" % GT, [L], two, env2, xy, lambda w: (w[0]["x"], w[0]["y"])))
    T.append(("Line::end_point", r"^%sline::Line::<T>::end_point$" % GT, [L], two, env2, xy, lambda w: (w[1]["x"], w[1]["y"])))
    T.append(("Line::points", r"^%sline::Line::<T>::points$" % GT, [L], two, env2, lambda v: (xy(v[0]), xy(v[1])),
              lambda w: ((w[0]["x"], w[0]["y"]), (w[1]["x"], w[1]["y"]))))
    R = ("&", rect(C(0), C(1)))
    rs = _rects()
    T.append(("Rect::width", r"^%srect::Rect::<T>::width$" % GT, [R], rs, env2, float, lambda w: w[1]["x"] - w[0]["x"]))
    T.append(("Rect::height", r"^%srect::Rect::<T>::height$" % GT, [R], rs, env2, float, lambda w: w[1]["y"] - w[0]["y"]))
    T.append(("Rect::min", r"^%srect::Rect::<T>::min$" % GT, [R], rs, env2, xy, lambda w: (w[0]["x"], w[0]["y"])))
    T.append(("Rect::max", r"^%srect::Rect::<T>::max$" % GT, [R], rs, env2, xy, lambda w: (w[1]["x"], w[1]["y"])))
    # also rectangles whose extent exceeds the largest float (max - min overflows, max + min does not): the centre is still the midpoint
    big = [({"x": -1e308, "y": -1e308}, {"x": 1e308, "y": 1e308}), ({"x": -1.7e308, "y": 0.0}, {"x": 1.7e308, "y": 4.0})]
    T.append(("Rect::center", r"^%srect::Rect::<T>::center$" % GT, [R], rs + big, env2, xy, lambda w: ((w[0]["x"] + w[1]["x"]) / 2.0, (w[0]["y"] + w[1]["y"]) / 2.0)))
    T.append(("Rect::new", r"^%srect::Rect::<T>::new$" % GT, [C(0), C(1)], two, env2, lambda v: (xy(v["min"]), xy(v["max"])),
              lambda w: ((min(w[0]["x"], w[1]["x"]), min(w[0]["y"], w[1]["y"])), (max(w[0]["x"], w[1]["x"]), max(w[0]["y"], w[1]["y"])))))
    P = ("&", point(C(0)))
    T.append(("Point::dot", r"^%spoint::Point::<T>::dot$" % GT, [point(C(0)), point(C(1))], two, env2, float, lambda w: w[0]["x"] * w[1]["x"] + w[0]["y"] * w[1]["y"]))
    T.append(("Point::cross_prod", r"^%spoint::Point::<T>::cross_prod$" % GT, [point(C(0)), point(C(1)), point(C(2))], three, env3, float,
              lambda w: (w[1]["x"] - w[0]["x"]) * (w[2]["y"] - w[0]["y"]) - (w[1]["y"] - w[0]["y"]) * (w[2]["x"] - w[0]["x"])))
    T.append(("Point::x_y", r"^%spoint::Point::<T>::x_y$" % GT, [point(C(0))], [(a,) for a in GRID], lambda w: {C(0): w[0]}, xy, lambda w: (w[0]["x"], w[0]["y"])))
    T.append(("Triangle::to_array", r"^%striangle::Triangle::<T>::to_array$" % GT, [("&", ("adt", GT + "triangle::Triangle", "Triangle", (C(0), C(1), C(2))))], three, env3,
              lambda v: tuple(xy(c) for c in v), lambda w: tuple((c["x"], c["y"]) for c in w)))
    def line_pts(v):
        return (xy(v["start"]), xy(v["end"]))
    T.append(("Rect::to_lines", r"^%srect::Rect::<T>::to_lines$" % GT, [R], rs, env2, lambda v: tuple(line_pts(l) for l in v),
              lambda w: tuple(((a[0], a[1]), (b[0], b[1])) for a, b in
                              [((w[1]["x"], w[0]["y"]), (w[1]["x"], w[1]["y"])), ((w[1]["x"], w[1]["y"]), (w[0]["x"], w[1]["y"])),
                               ((w[0]["x"], w[1]["y"]), (w[0]["x"], w[0]["y"])), ((w[0]["x"], w[0]["y"]), (w[1]["x"], w[0]["y"]))])))
    TRI = ("&", ("adt", GT + "triangle::Triangle", "Triangle", (C(0), C(1), C(2))))
    T.append(("Triangle::to_lines", r"^%striangle::Triangle::<T>::to_lines$" % GT, [TRI], three, env3, lambda v: tuple(line_pts(l) for l in v),
              lambda w: tuple(((w[i]["x"], w[i]["y"]), (w[(i + 1) % 3]["x"], w[(i + 1) % 3]["y"])) for i in range(3))))
    T.append(("Triangle::from([c;3])", r"^<%striangle::Triangle<T> as core::convert::From<\[IC; 3\]>>::from$" % GT, [("array", (C(0), C(1), C(2)))], three, env3,
              lambda v: tuple(xy(v[k]) for k in ("0", "1", "2")), lambda w: tuple((c["x"], c["y"]) for c in w)))
    # Triangle::new stores the vertices counter-clockwise (reversing a clockwise triple): also for small triangles far from the origin
    # (UTM-like coordinates), where an orientation computed from ABSOLUTE coordinates is lost in rounding; reference in exact rationals
    from fractions import Fraction as _Fr

    def _tri_new_ref(w):
        fr = [(_Fr(c["x"]), _Fr(c["y"])) for c in w]
        o = (fr[1][0] - fr[0][0]) * (fr[2][1] - fr[0][1]) - (fr[1][1] - fr[0][1]) * (fr[2][0] - fr[0][0])
        vs = [(c["x"], c["y"]) for c in w]
        return tuple(vs) if o >= 0 else (vs[2], vs[1], vs[0])
    far = []
    for ox, oy in ((558513.001, 5341693.436), (547677.698, 4829587.718)):
        a, b, c_ = {"x": ox, "y": oy}, {"x": ox + 0.02, "y": oy}, {"x": ox, "y": oy + 0.02}
        far += [(a, b, c_), (a, c_, b), (b, c_, a), (c_, b, a)]
    T.append(("Triangle::new", r"^%striangle::Triangle::<T>::new$" % GT, [C(0), C(1), C(2)], three + far, env3,
              lambda v: tuple(xy(v[k]) for k in ("0", "1", "2")), _tri_new_ref))
    # Coord == Coord compares the ordinates themselves: also for integers beyond 2^53, which a comparison through f64 would merge
    big = 2 ** 53
    eqw = [(a, b) for a in GRID[:4] for b in GRID[:4]] + [({"x": big, "y": big}, {"x": big + 1, "y": big}), ({"x": big, "y": big + 1}, {"x": big, "y": big}),
                                                      ({"x": big + 1, "y": -big}, {"x": big + 1, "y": -big}), ({"x": -big - 1, "y": 0}, {"x": -big, "y": 0})]
    T.append(("Coord::eq", r"^<%scoord::Coord<T> as core::cmp::PartialEq>::eq$" % GT, [("&", C(0)), ("&", C(1))], eqw, env2, bool,
              lambda w: w[0]["x"] == w[1]["x"] and w[0]["y"] == w[1]["y"]))
    # operator impls of Coord
    for op, ref in (("add", lambda a, b: (a["x"] + b["x"], a["y"] + b["y"])), ("sub", lambda a, b: (a["x"] - b["x"], a["y"] - b["y"]))):
        T.append(("Coord::%s" % op, r"^<%scoord::Coord<T> as core::ops::arith::%s>::%s$" % (GT, op.capitalize(), op), [C(0), C(1)], two, env2, xy, lambda w, ref=ref: ref(w[0], w[1])))
    T.append(("Coord::neg", r"^<%scoord::Coord<T> as core::ops::arith::Neg>::neg$" % GT, [C(0)], [(a,) for a in GRID], lambda w: {C(0): w[0]}, xy, lambda w: (-w[0]["x"], -w[0]["y"])))
    sc = [(a, k) for a in GRID for k in (-2, 1, 4)]
    T.append(("Coord::mul", r"^<%scoord::Coord<T> as core::ops::arith::Mul<T>>::mul$" % GT, [C(0), S(0)], sc, lambda w: {C(0): w[0], S(0): w[1]}, xy, lambda w: (w[0]["x"] * w[1], w[0]["y"] * w[1])))
    T.append(("Coord::div", r"^<%scoord::Coord<T> as core::ops::arith::Div<T>>::div$" % GT, [C(0), S(0)], sc, lambda w: {C(0): w[0], S(0): w[1]}, xy, lambda w: (w[0]["x"] / float(w[1]), w[0]["y"] / float(w[1]))))
    # private_utils
    T.append(("line_euclidean_length", r"^geo_types::private_utils::line_euclidean_length$", [line(C(0), C(1))], two, env2, float,
              lambda w: math.hypot(w[1]["x"] - w[0]["x"], w[1]["y"] - w[0]["y"])))
    T.append(("line_segment_distance", r"^geo_types::private_utils::line_segment_distance$", [C(0), C(1), C(2)], three + [(a, b, b) for a in GRID for b in GRID], env3, float,
              lambda w: seg_dist(w[0], w[1], w[2])))
    T.append(("point_line_euclidean_distance", r"^geo_types::private_utils::point_line_euclidean_distance$", [point(C(0)), line(C(1), C(2))], three, env3, float,
              lambda w: seg_dist(w[0], w[1], w[2])))
    return T


def run(rep, F, rule, select=None):
    rep.rule(rule, "algebraic accessors of geo_types on grid witnesses (path table from MIR, numeric evaluation): Line dx / dy / delta / determinant / slope / end points, Rect new / min / max / width / height / center, Point dot / cross_prod, Triangle::to_array, Coord + - neg * /, line_euclidean_length, line_segment_distance, point_line_euclidean_distance equal their definitions"
             + ("" if not select else " [subset: %s]" % ", ".join(sorted(select))))
    n = 0
    for key, pat, args, wit, env_of, dec, ref in table_defs():
        if select and key not in select:
            continue
        try:
            fn = F.one(pat, crates=("geo_types",))
            paths = [p for p in Symex(F, inline_crates=("geo_types",), max_depth=10, concrete_iters=True).run(fn, args=args) if p.kind != "cut"]
        except (KeyError, Unanalysable) as e:
            rep.bad(rule, "gt:%s:unanalysable" % key, str(e))
            continue
        bad = None
        k = 0
        for w in wit:
            ev = NumEval(F, env_of(w))
            try:
                hit = ev.select_path(paths)
                if len(hit) != 1 or hit[0].kind != "ret":
                    bad = "witness %s selects %s" % (fmtw(w), [h.kind for h in hit])
                    break
                got = dec(ev.ev(hit[0].ret))
            except (NoModel, TypeError, KeyError, ValueError, IndexError) as e:
                bad = "not evaluable on %s: %s" % (fmtw(w), e)
                break
            want = ref(w)
            k += 1
            if not close(got, want):
                bad = "on %s the table gives %s, the definition %s" % (fmtw(w), got, want)
                break
        if bad:
            rep.bad(rule, "gt:%s" % key, "%s: %s" % (key, bad), where=fn.loc())
        else:
            n += 1
            rep.ok(rule, "gt:%s[%d witnesses]" % (key, k))
    rep.floor(rule, "accessor tables", n, len(select) if select else 31)


def fmtw(w):
    return "[" + " ".join("(%s,%s)" % (c["x"], c["y"]) if isinstance(c, dict) else str(c) for c in w) + "]"



def sequence_tables(rep, F, rule):
    """LineString as a sequence, on a concrete line string [a, b, c] (and the closed [a, b, a]): conversions from Line / Vec keep the coordinates in
    order; into_inner / points / into_points / lines / rev_lines / triangles / indexing yield what their names say (iterators drained step by
    step); is_closed compares first and last."""
    from ..citer import drain_value
    from ..symex import show
    import re
    rep.rule(rule, "LineString as a sequence ([a, b, c]): From<Line> = [start, end]; From<Vec> keeps order; into_inner / points / into_points = a, b, c; lines = (a,b),(b,c); rev_lines = (c,b),(b,a); ls[i] = i-th coordinate; is_closed iff first == last")
    LS = GT + "line_string::LineString"

    def vec(items):
        return ("call", "vec!", (("array", tuple(items)),))

    def N(n):
        return ("opaque", n)
    ls = ("adt", LS, "LineString", (vec([N("a"), N("b"), N("c")]),))

    def names(t):
        return re.findall(r"opaque\((\w)\)", show(t))

    def run(pat, args):
        fn = F.one(pat, crates=("geo_types",))
        ex = Symex(F, concrete_iters=True, loop_bound=10, inline_crates=("geo_types",), max_depth=12)
        ex.resolve_by_receiver = True
        ps = [p for p in ex.run(fn, args=args) if p.kind != "cut"]
        if len(ps) != 1 or ps[0].kind != "ret" or ps[0].pc:
            raise Unanalysable("%d paths on a concrete line string" % len(ps))
        return fn, ps[0].ret
    n = 0
    cases = [
        ("From<Line>", r"^<%sline_string::LineString<T> as core::convert::From<%sline::Line<T>>>::from$" % (GT, GT), [line(N("a"), N("b"))], False, ["a", "b"]),
        ("From<&Line>", r"^<%sline_string::LineString<T> as core::convert::From<&%sline::Line<T>>>::from$" % (GT, GT), [("&", line(N("a"), N("b")))], False, ["a", "b"]),
        ("From<Vec>", r"^<%sline_string::LineString<T> as core::convert::From<alloc::vec::Vec<IC>>>::from$" % GT, [vec([N("a"), N("b"), N("c")])], False, ["a", "b", "c"]),
        ("into_inner", r"^%sline_string::LineString::<T>::into_inner$" % GT, [ls], False, ["a", "b", "c"]),
        ("into_points", r"^%sline_string::LineString::<T>::into_points$" % GT, [ls], False, ["a", "b", "c"]),
        ("points", r"^%sline_string::LineString::<T>::points$" % GT, [("&", ls)], True, ["a", "b", "c"]),
        ("lines", r"^%sline_string::LineString::<T>::lines$" % GT, [("&", ls)], True, ["a", "b", "b", "c"]),
        ("rev_lines", r"^%sline_string::LineString::<T>::rev_lines$" % GT, [("&", ls)], True, ["c", "b", "b", "a"]),
        ("index[0]", r"^<%sline_string::LineString<T> as core::ops::index::Index<usize>>::index$" % GT, [("&", ls), ("const", 0)], False, ["a"]),
        ("index[2]", r"^<%sline_string::LineString<T> as core::ops::index::Index<usize>>::index$" % GT, [("&", ls), ("const", 2)], False, ["c"]),
    ]
    for key, pat, args, drain, want in cases:
        try:
            fn, r = run(pat, args)
            got = []
            if drain:
                for it in drain_value(F, r):
                    got += names(it)
            else:
                got = names(r)
            if got == want:
                n += 1
                rep.ok(rule, "seq:%s" % key, sample=got)
            else:
                rep.bad(rule, "seq:%s" % key, "LineString %s yields the coordinates %s, expected %s" % (key, got, want), where=fn.loc())
        except (KeyError, Unanalysable) as e:
            rep.bad(rule, "seq:%s:unanalysable" % key, str(e))
    # is_closed on closed / open / empty line strings
    try:
        for coords, want in ((["a", "b", "a"], ("const", True)), ([], None)):
            pass
        fn = F.one(r"^%sline_string::LineString::<T>::is_closed$" % GT, crates=("geo_types",))
        from ..numeval import NumEval
        ex = Symex(F, concrete_iters=True, loop_bound=10, inline_crates=("geo_types",), max_depth=12)
        paths = [p for p in ex.run(fn, args=[("&", ("adt", LS, "LineString", (vec([N("a"), N("b"), N("c")]),)))]) if p.kind != "cut"]
        okc = True
        for va, vc in (((0, 0), (0, 0)), ((0, 0), (1, 0)), ((0, 1), (0, 0))):
            ev = NumEval(F, {N("a"): {"x": va[0], "y": va[1]}, N("b"): {"x": 5, "y": 5}, N("c"): {"x": vc[0], "y": vc[1]}})
            hit = ev.select_path(paths)
            got = [bool(ev.ev(h.ret)) for h in hit if h.kind == "ret"]
            if got != [va == vc]:
                okc = False
                rep.bad(rule, "seq:is_closed", "is_closed([%s, b, %s]) = %s" % (va, vc, got), where=fn.loc())
                break
        if okc:
            n += 1
            rep.ok(rule, "seq:is_closed")
    except (KeyError, Unanalysable, Exception) as e:
        rep.bad(rule, "seq:is_closed:unanalysable", str(e))
    rep.floor(rule, "sequence tables", n, 11)


def collection_tables(rep, F, rule):
    """MultiPoint / MultiLineString / MultiPolygon / GeometryCollection / LineString as containers, on concrete member lists (an empty member, a
    polygon with an empty exterior but a hole, and a repeated member included): From<Vec<_>>, FromIterator, From<single member>, new(..) and
    into_iter / iter keep every member, in order, unchanged - nothing is filtered, merged or de-duplicated on the way in or out."""
    from ..citer import drain_value, NotConcrete
    from .mapcoords import norm, ls, poly, pt, vec, C, geom
    rep.rule(rule, "containers on concrete member lists (empty members, a polygon with an empty exterior, repeated members): From<Vec>, FromIterator, From<member>, new and into_iter / iter keep every member in order, unchanged")
    pe = poly([], [["h", "i", "j", "h"]])
    K = lambda x, y: ("adt", GT + "coord::Coord", "Coord", (("const", x), ("const", y)))
    members = {
        "MultiPoint": ("multi_point::MultiPoint", [pt("p"), pt("q"), pt("p")]),
        "MultiLineString": ("multi_line_string::MultiLineString", [ls(["a", "b"]), ls([]), ls(["a", "b"]), ls(["c"])]),
        "MultiPolygon": ("multi_polygon::MultiPolygon", [poly(["a", "b", "c", "a"], []), pe, poly([], []), poly(["d", "e", "g", "d"], [["k", "l", "m", "k"]])]),
        "GeometryCollection": ("geometry_collection::GeometryCollection", [geom("Point", pt("p")), geom("LineString", ls([])), geom("Polygon", pe), geom("Point", pt("p"))]),
        # concrete coordinates, so that comparisons between them are decided: a a b a c c
        "LineString": ("line_string::LineString", [K(0, 0), K(0, 0), K(1, 0), K(0, 0), K(2, 5), K(2, 5)]),
    }

    def m_id(ex_, st, call, args):
        yield st, "ret", args[0]

    def run(fn, args):
        ex = Symex(F, concrete_iters=True, loop_bound=12, inline_crates=("geo_types",), max_depth=12, max_paths=2000, budget_s=20)
        ex.resolve_by_receiver = True
        ex.fold_ground_eq = True
        ex.models["core::convert::Into::into"] = m_id       # the members already have the member type
        ex.models["core::convert::From::from"] = m_id
        ps = [p for p in ex.run(fn, args=args) if p.kind != "cut"]
        if len(ps) != 1 or ps[0].kind != "ret" or ps[0].pc:
            raise Unanalysable("%d paths on a concrete member list (%s)" % (len(ps), "; ".join(show_pc(p.pc)[:80] for p in ps[:2])))
        return ps[0].ret
    n = 0
    for name, (ty, ms) in members.items():
        adt = GT + ty
        whole = ("adt", adt, name, (vec(ms),))
        want_all = [norm(m) for m in ms]
        cases = [
            ("From<Vec>", r"^<%s<T> as core::convert::From<alloc::vec::Vec<\w+>>>::from$" % adt, [vec(ms)], "value", want_all),
            ("FromIterator", r"^<%s<T> as core::iter::traits::collect::FromIterator<\w+>>::from_iter$" % adt, [vec(ms)], "value", want_all),
            ("new", r"^%s::<T>::new$" % adt, [vec(ms)], "value", want_all),
            ("into_iter", r"^<%s<T> as core::iter::traits::collect::IntoIterator>::into_iter$" % adt, [whole], "drain", want_all),
            ("iter", r"^%s::<T>::iter$" % adt, [("&", whole)], "drain", want_all),
        ]
        if name != "LineString":
            cases.append(("From<member>", r"^<%s<T> as core::convert::From<\w+>>::from$" % adt, [ms[1]], "value", [norm(ms[1])]))
        for key, pat, args, how, want in cases:
            k = "coll:%s:%s" % (name, key)
            try:
                fn = F.one(pat, crates=("geo_types",))
            except KeyError as e:
                if key in ("From<Vec>", "iter", "new"):
                    continue           # not every container has every constructor
                rep.bad(rule, k + ":anchor", str(e))
                continue
            try:
                r = run(fn, args)
                if how == "drain":
                    got = [norm(it) for it in drain_value(F, r)]
                else:
                    v = r
                    while v[0] in ("&", "deref"):
                        v = v[1]
                    if not (v[0] == "adt" and v[2] == name and len(v[3]) == 1):
                        raise Unanalysable("the result is not a %s value: %s" % (name, show(v)[:80]))
                    inner = v[3][0]
                    while inner[0] == "call" and inner[1] == "vec!":
                        inner = inner[2][0]
                    if inner[0] != "array":
                        raise Unanalysable("the member list is not concrete: %s" % show(inner)[:80])
                    got = [norm(x) for x in inner[1]]
            except (Unanalysable, NotConcrete) as e:
                if key == "new" and "arity mismatch" in str(e):
                    continue           # a constructor without arguments
                rep.bad(rule, k + ":unanalysable", str(e), where=fn.loc())
                continue
            if got == want:
                n += 1
                rep.ok(rule, k)
            else:
                rep.bad(rule, k, "%s %s of the members [%s] gives [%s]" % (name, key, "; ".join(want), "; ".join(got)), where=fn.loc())
    rep.floor(rule, "container tables", n, 26)
