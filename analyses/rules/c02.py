"""C02 — Intersects / Contains / Within / coordinate_position agree with DE-9IM.

Decided structurally (see DESIGN.md §4 C02):
 R2.1 Within is `b.contains(a)` (blanket impl, swapped operands)
 R2.2 IntersectionMatrix predicates read exactly the cells of their documented masks (exhaustive tables)
 R2.3 relate fall-backs pair operand order and predicate correctly
 R2.4 Intersects dispatch: every pair symmetric by construction (flip / delegate / match / any-fold) or an enumerated
      kernel; no cycle of flip/delegate edges (well-founded)
 R2.5 container folds are sound for the algebra of the operation (any for Intersects behind a bbox *rejection*; for
      Contains by the dimension table)
 R2.6 decision tables of the point kernels against exact reference geometry on integer witnesses
"""
import itertools
import re
from ..facts import Facts, short
from ..symex import Symex, Unanalysable, show, show_pc
from ..dispatch import Dispatch, operand_desc, strip_refs
from ..evalterm import Evaluator, Enum, NoModel
from ..roots_gen import TYPES
from . import c02_kernels, c02_small, c02_linear

LEVEL = "other"
INTERSECTS = "geo::algorithm::intersects::Intersects"
CONTAINS = "geo::algorithm::contains::Contains"
IM = "geo::algorithm::relate::geomgraph::intersection_matrix::IntersectionMatrix"
DIMS = "geo::algorithm::dimensions::Dimensions"
COORDPOS = "geo::algorithm::coordinate_position::CoordPos"

DIM = {"Coord": 0, "Point": 0, "MultiPoint": 0, "Line": 1, "LineString": 1, "MultiLineString": 1,
       "Polygon": 2, "MultiPolygon": 2, "Rect": 2, "Triangle": 2, "Geometry": None, "GeometryCollection": None}
MEMBER = {"MultiPoint": "Point", "MultiLineString": "LineString", "MultiPolygon": "Polygon", "GeometryCollection": "Geometry"}

# kernels of Intersects known on the pinned tree (hand-written per-pair logic); a new one is reported (fail closed)
INTERSECTS_KERNELS = {("Coord", "Coord"), ("Coord", "Point"), ("Line", "Coord"), ("Line", "Line"), ("Polygon", "Coord"), ("Polygon", "Line"),
                      ("Polygon", "Polygon"), ("Rect", "Coord"), ("Rect", "Line"), ("Rect", "Rect"), ("Triangle", "Coord")}
# conversions a delegating impl may apply to an operand before handing it to the impl of another pair
CONVERSIONS = re.compile(r"^(to_polygon\(\)|\.0|\.start|\.end|Point\{\}|from\(\)|into\(\)|to_lines\(\)|exterior\(\))$")


def run(rep, tier):
    rep.explanation = ("Dispatch classification of all 12x12 Intersects and Contains instances (resolved by rustc through a generated roots crate, "
                       "bodies summarised by abstract path enumeration with the trait's own calls uninterpreted); soundness of each class for "
                       "the algebra of the operation; exhaustive tables of the IntersectionMatrix predicates against their masks; decision "
                       "tables of the point-location kernels against exact integer reference geometry on a witness catalogue. Loop-based "
                       "kernels beyond their fold class, and relate itself (C01), are not decided.")
    rep.trusted = ["rustc trait resolution (instance graph)", "symbolic models of core/alloc in analyses/symex.py", "reference geometry in analyses/rules/c02_kernels.py",
                   "relate() returns the true matrix (C01, not decided here)"]
    rep.assumptions = ["operands are valid geometries in the domain of the property (simple linework, disjoint single-dimension collections)"]
    F = Facts("default")
    within_rule(rep, F)
    mask_rules(rep, F)
    DI = Dispatch(F, INTERSECTS, "intersects", "root_intersects", extra_no_inline=[r"Relate::relate$", r"IntersectionMatrix::is_\w+$", r"::coordinate_position$", r"::to_polygon$"])
    DC = Dispatch(F, CONTAINS, "contains", "root_contains", extra_no_inline=[r"Relate::relate$", r"IntersectionMatrix::is_\w+$", r"::coordinate_position$", r"::to_polygon$"])
    intersects_dispatch(rep, F, DI)
    contains_dispatch(rep, F, DC)
    c02_kernels.run(rep, F, tier)
    c02_small.run(rep, F, DI, DC, tier)
    c02_small.run_linestring(rep, F, DI, tier)
    c02_small.run_linear_contains(rep, F, DC, tier)
    c02_small.run_contains_folds(rep, F)
    c02_linear.run(rep, F, tier, D_int=DI)
    # the bounding-box rejections (has_disjoint_bboxes, relate's envelope shortcut) are only as right as bounding_rect itself (tables shared with C19)
    from . import c19
    c19.bbox_tables(rep, F, rule="R2.9")
    # every exact predicate this property rests on is a sign of the orientation kernel (rules shared with C03)
    from . import c03 as _c03
    _c03.kernel_rules(rep, F, "R2.13")


# ------------------------------------------------------------------------------------------------
def within_rule(rep, F):
    rep.rule("R2.1", "the only Within impl is the blanket one and it is b.contains(a)")
    ims = F.impls_of("geo::algorithm::within::Within")
    if len(ims) != 1:
        rep.bad("R2.1", "within-impls", "expected exactly the blanket Within impl, found %d: a hand-written Within can disagree with contains(b,a)" % len(ims))
        return
    fn = F.impl_fn(ims[0], "is_within")
    if fn is None:
        rep.bad("R2.1", "within-method", "is_within not found")
        return
    ex = Symex(F)
    try:
        ps = [p for p in ex.run(fn) if p.kind == "ret"]
    except Unanalysable as e:
        rep.bad("R2.1", "unanalysable", str(e), where=fn.loc())
        return
    good = len(ps) == 1 and ps[0].ret[0] == "call" and ps[0].ret[1] == CONTAINS + "::contains"
    if good:
        a, b = operand_desc(ps[0].ret[2][0]), operand_desc(ps[0].ret[2][1])
        good = a == ("arg", 2, ()) and b == ("arg", 1, ())
    if good:
        rep.ok("R2.1", "within=contains-flipped", sample=show(ps[0].ret))
    else:
        rep.bad("R2.1", "within-body", "is_within(a,b) is not contains(b,a): %s" % [show(p.ret)[:100] for p in ps][:2], where=fn.loc())


# ------------------------------------------------------------------------------------------------
CELLS = ["Inside", "OnBoundary", "Outside"]
# masks: property text for the first three; for the others the OGC definitions quoted in the doc comments
MASKS = {
    "is_disjoint": ["FF*FF****"],
    "is_intersects": ["!FF*FF****"],
    "is_contains": ["T*****FF*"],
    "is_within": ["T*F**F***"],
    "is_covers": ["T*****FF*", "*T****FF*", "***T**FF*", "****T*FF*"],
    "is_coveredby": ["T*F**F***", "*TF**F***", "**FT*F***", "**F*TF***"],
    "is_touches": ["FT*******", "F**T*****", "F***T****"],
}


def mask_match(mask, cells):
    for m, c in zip(mask, cells):
        if m == "*":
            continue
        if m == "T" and c == 0:
            return False
        if m == "F" and c != 0:
            return False
        if m in "012" and c != int(m) + 1:
            return False
    return True


def mask_rules(rep, F):
    rep.rule("R2.2", "IntersectionMatrix predicates equal their DE-9IM masks on every valuation of the cells they read (exhaustive) ")
    ex = Symex(F)
    dim_names = [v["name"] for v in F.adts[DIMS]["variants"]]
    pos_names = [v["name"] for v in F.adts[COORDPOS]["variants"]]
    for name, masks in MASKS.items():
        try:
            fn = F.one(r"intersection_matrix::IntersectionMatrix::%s$" % name, crates=("geo",))
            paths = [p for p in ex.run(fn) if p.kind == "ret"]
        except (KeyError, Unanalysable) as e:
            rep.bad("R2.2", "%s:unanalysable" % name, str(e))
            continue
        # which cells are read?
        read = set()
        for p in paths:
            for t, v in p.pc:
                collect_cells(t, read)
            collect_cells(p.ret, read)
        read = sorted(read)
        if not read or len(read) > 6:
            rep.bad("R2.2", "%s:cells" % name, "reads %d cells" % len(read), where=fn.loc())
            continue
        n = 0
        bad = None
        for vals in itertools.product(range(4), repeat=len(read)):
            cells = [0] * 9
            for (i, j), v in zip(read, vals):
                cells[i * 3 + j] = v
            mat = [[Enum(DIMS, dim_names[cells[i * 3 + j]]) for j in range(3)] for i in range(3)]
            env = {("arg", 1): {"0": {"0": [{"0": row} for row in mat]}}}
            ev = Evaluator(F, env)
            try:
                hit = ev.select_path(paths)
                if len(hit) != 1:
                    bad = "valuation %s selects %d paths" % (cells, len(hit))
                    break
                got = ev.ev(hit[0].ret)
            except NoModel as e:
                bad = "cannot evaluate (%s)" % e
                break
            want = False
            for m in masks:
                if m.startswith("!"):
                    want = want or not mask_match(m[1:], cells)
                else:
                    want = want or mask_match(m, cells)
            n += 1
            if bool(got) != want:
                s = "".join("F012"[c] for c in cells)
                bad = "on the matrix %s (unread cells F) %s returns %s but the mask %s gives %s" % (s, name, got, "|".join(masks), want)
                break
        if bad:
            rep.bad("R2.2", name, bad, where=fn.loc())
        else:
            rep.ok("R2.2", "%s[%d valuations of %d cells]" % (name, n, len(read)), sample={"predicate": name, "cells": read, "masks": masks})
    # LocationArray index bijection
    try:
        for m in ("index", "index_mut"):
            fs = F.find(r"LocationArray<T> as core::ops::index::Index(Mut)?<geo::algorithm::coordinate_position::CoordPos>>::%s$" % m, crates=("geo",))
            if not fs:
                fs = F.find(r"LocationArray.*::%s$" % m, crates=("geo",))
            for fn in fs:
                ps = [p for p in ex.run(fn) if p.kind == "ret"]
                got = {}
                for p in ps:
                    d = [v for t, v in p.pc if t[0] == "discr"]
                    idx = re.findall(r"\[(\d)\]|\.(\d)\b", show(p.ret))
                    flat = [a or b for a, b in idx]
                    if d and flat:
                        got[pos_names[d[0]]] = int(flat[-1])
                if got == {"Inside": 0, "OnBoundary": 1, "Outside": 2}:
                    rep.ok("R2.2", "LocationArray::%s:bijection" % m)
                else:
                    rep.bad("R2.2", "LocationArray::%s" % m, "Inside/OnBoundary/Outside are not mapped to slots 0/1/2: %s" % got, where=fn.loc())
    except (Unanalysable, KeyError) as e:
        rep.bad("R2.2", "LocationArray:unanalysable", str(e))


def collect_cells(t, out):
    """cells M.0[Pos][Pos] mentioned by a term, as (row, col) indices"""
    if not isinstance(t, tuple) or not t:
        return
    if t[0] == "index" and isinstance(t[1], tuple) and t[1][0] == "field" and t[1][2] == "0":
        # (M.0.0[i]).0[j]  after inlining LocationArray::index
        inner = t[1][1]
        if isinstance(inner, tuple) and inner[0] == "index" and t[2][0] == "const" and inner[2][0] == "const":
            out.add((inner[2][1], t[2][1]))
            return
    for x in (t[1:] if isinstance(t[0], str) else t):
        if isinstance(x, tuple):
            collect_cells(x, out)


# ------------------------------------------------------------------------------------------------
def bbox_guard_ok(guards, main_pcs):
    """Every early-exit path returns False and is taken only when the two operands' bounding boxes exist and do not
    intersect (a *rejection*); -> (ok, why)"""
    for txt, val, pc in guards:
        if val is not False:
            return False, "an early exit returns %s" % val
        last = pc[-1] if pc else None
        if not last:
            return False, "unconditional early exit"
        t, v = last
        s = show(t)
        if not (v == 0 and "bounding_rect(&*a1)" in s and "bounding_rect(&*a2)" in s and re.match(r"intersects\(", s)):
            return False, "early `false` is not guarded by `!bbox(a).intersects(bbox(b))` of the two operands: %s=%s" % (s[:120], v)
    return True, ""


def intersects_dispatch(rep, F, D):
    rep.rule("R2.4", "Intersects: every ordered pair resolves to flip / delegate / Geometry match / any-fold / enumerated kernel; each unordered pair is symmetric by construction; no flip-flip or delegate cycle")
    rep.rule("R2.5", "container folds are sound: Intersects distributes over union, so member folds must be `any` of T(member, other), optionally behind a bbox rejection returning false")
    cls = {}
    for a in TYPES:
        for b in TYPES:
            inst, fn = D.impl_instance(a, b)
            if fn is None:
                cls[(a, b)] = None
                continue
            cls[(a, b)] = (D.summarise(inst, fn), fn, inst)
    n_impl = sum(1 for v in cls.values() if v)
    rep.floor("R2.4", "implemented Intersects pairs", n_impl, 142)
    counts = {}
    for (a, b), v in sorted(cls.items()):
        if v is None:
            rep.info.setdefault("intersects_pairs_not_implemented", []).append("%s,%s" % (a, b))
            continue
        s, fn, inst = v
        key = "%s∩%s" % (a, b)
        c = s.cls
        counts[c] = counts.get(c, 0) + 1
        d = s.detail if isinstance(s.detail, dict) else {}
        if c == "flip":
            rv = cls.get((b, a))
            if rv is None or rv[0].cls == "flip":
                rep.bad("R2.4", "flip-cycle:" + key, "%s∩%s flips to %s∩%s which %s: the call never terminates" % (a, b, b, a, "flips back" if rv else "does not exist"), where=fn.loc())
            else:
                rep.ok("R2.4", "flip:" + key)
        elif c in ("delegate", "guarded-delegate"):
            ok = True
            why = ""
            if c.startswith("guarded"):
                ok, why = bbox_guard_ok(d.get("guards", []), d.get("main_pcs"))
            for cv in list(d.get("conv_a") or ()) + list(d.get("conv_b") or ()):
                if not CONVERSIONS.match(cv):
                    ok, why = False, "operand converted by `%s`, which is not a known point-set preserving conversion" % cv
            if ok:
                rep.ok("R2.4", "delegate:" + key, sample={"pair": key, "conv": [d.get("conv_a"), d.get("conv_b")]})
            else:
                rep.bad("R2.5", "guard:" + key, why, where=fn.loc())
        elif c == "match":
            nvar = len(F.adts["geo_types::geometry::Geometry"]["variants"])
            if d.get("arms") == nvar and d.get("arm_classes") in (["delegate"], ["flip"], ["delegate", "flip"]):
                rep.ok("R2.4", "match:" + key)
            else:
                rep.bad("R2.4", "match:" + key, "Geometry match covers %s of %d variants with arm classes %s" % (d.get("arms"), nvar, d.get("arm_classes")), where=fn.loc())
        elif c in ("fold", "guarded-fold") and d.get("source") and d["source"].get("of"):
            problems = []
            if d.get("kind") != "any" or d.get("neg"):
                problems.append("member fold is `%s%s`, but a union intersects x iff ANY member does" % ("not " if d.get("neg") else "", d.get("kind")))
            body = d.get("body") or []
            for bdy in body:
                if bdy.get("call") != "T" or bdy.get("neg"):
                    problems.append("member predicate is not intersects(member, other): %s" % str(bdy)[:120])
                else:
                    ops = bdy["operands"]
                    kinds = sorted(o[0] for o in ops if o)
                    if kinds != ["arg", "bound"] and kinds != ["bound", "other"]:
                        problems.append("member predicate does not relate the member to the other operand: %s" % (ops,))
            if c.startswith("guarded"):
                ok, why = bbox_guard_ok(d.get("guards", []), d.get("main_pcs"))
                if not ok:
                    problems.append(why)
            if problems:
                rep.bad("R2.5", "fold:" + key, "; ".join(problems), where=fn.loc())
            else:
                rep.ok("R2.5", "any-fold:" + key, sample={"pair": key, "source": str(d.get("source"))[:100]})
        else:
            # kernel (or a fold over something that is not a member sequence)
            if (a, b) in INTERSECTS_KERNELS:
                rep.ok("R2.4", "kernel:" + key)
            else:
                rep.bad("R2.4", "unknown-kernel:" + key, "%s∩%s is decided by hand-written logic that is not one of the %d kernels verified on the pinned tree (class %s): "
                        "a new fast path has no decision table to be checked against" % (a, b, len(INTERSECTS_KERNELS), c), where=fn.loc())
    # symmetry of kernel pairs: both orders kernels -> must be the same function through flip, or listed with mirror check in R2.6
    for (a, b) in sorted(INTERSECTS_KERNELS):
        if a != b and cls.get((b, a)) and cls[(b, a)][0].cls == "kernel" and cls.get((a, b)) and cls[(a, b)][0].cls == "kernel":
            rep.bad("R2.4", "two-kernels:%s,%s" % (a, b), "both orders are decided by independent kernels: symmetry is not by construction")
    rep.info["intersects_classes"] = counts


# ------------------------------------------------------------------------------------------------
def contains_dispatch(rep, F, D):
    rep.rule("R2.3", "every Contains impl that falls back to relate pairs operand order and predicate: a.relate(b).is_contains() or b.relate(a).is_within()")
    counts = {}
    n_rel = 0
    for a in TYPES:
        for b in TYPES:
            inst, fn = D.impl_instance(a, b)
            if fn is None:
                continue
            s = D.summarise(inst, fn)
            key = "%s⊇%s" % (a, b)
            c = s.cls
            counts[c] = counts.get(c, 0) + 1
            d = s.detail if isinstance(s.detail, dict) else {}
            if c == "relate":
                n_rel += 1
                good = (d["pred"] == "is_contains" and d["order"] == (1, 2)) or (d["pred"] == "is_within" and d["order"] == (2, 1))
                if good and not d.get("neg") and not d["conv"][0] and not d["conv"][1]:
                    rep.ok("R2.3", "relate:" + key, sample={"pair": key, "pred": d["pred"], "order": d["order"]})
                else:
                    rep.bad("R2.3", "relate:" + key, "falls back to relate with predicate %s on operands in order %s%s: contains(a,b) is a.relate(b).is_contains()" % (d["pred"], d["order"], " negated" if d.get("neg") else ""), where=fn.loc())
            elif c in ("fold", "guarded-fold") and d.get("source") and d["source"].get("of"):
                contains_fold(rep, F, key, a, b, d, fn)
            elif c == "match":
                nvar = len(F.adts["geo_types::geometry::Geometry"]["variants"])
                if d.get("arms") == nvar:
                    rep.ok("R2.3", "match:" + key)
                else:
                    rep.bad("R2.3", "match:" + key, "Geometry match covers %s of %d variants" % (d.get("arms"), nvar), where=fn.loc())
            elif c == "flip":
                rep.bad("R2.3", "flip:" + key, "contains is not symmetric: a flip impl is wrong", where=fn.loc())
    rep.floor("R2.3", "relate fall-backs", n_rel, 60)
    rep.info["contains_classes"] = counts


def contains_fold(rep, F, key, a, b, d, fn):
    """Dimension table for folds in Contains (see DESIGN.md §4 C02 S-folds)."""
    src = d["source"]["of"]
    body = d.get("body") or []
    kind = d.get("kind")
    which = src[1]            # 1 = members of self, 2 = members of rhs
    calls = [x for x in body if x.get("call") == "T"]
    if not calls or len(calls) != len(body):
        return     # not a member fold of the trait (kernel-like): left to R2.6 / not decided
    if which == 2 and kind == "all":
        # all(A.contains(member of B)): sound only if dim(member) > dim(boundary of A)
        mem = MEMBER.get(b)
        dm = DIM.get(mem) if mem else None
        if b == "LineString" or b == "Line":
            # folding over the segments (lines()/windows) or over the coordinates of a line
            dm = 1 if any("windows" in x or "lines" in x for x in d["source"].get("via", [])) else 0
        da = DIM.get(a)
        bdim = None if da is None else da - 1
        if bdim == -1 or (dm is not None and bdim is not None and dm > bdim):
            rep.ok("R2.5", "all-fold:" + key, sample={"pair": key, "member_dim": dm, "boundary_dim": bdim})
        else:
            rep.bad("R2.5", "all-fold:" + key,
                    "%s⊇%s is `all(self.contains(member))`: a member of dimension %s can lie in the boundary (dimension %s) of %s while another member is inside, "
                    "so the container is contained although not every member `contains`-tests true" % (a, b, dm, bdim, a), where=fn.loc())
    elif which == 1 and kind == "any":
        # any(member of A contains x): sound only for 0-dimensional x and containers whose member boundaries cannot cancel
        dx = DIM.get(b)
        # GeometryCollection: the property's domain restricts collections to pairwise disjoint members, whose interiors
        # then simply add up
        if dx == 0 and a in ("MultiPoint", "MultiPolygon", "GeometryCollection"):
            rep.ok("R2.5", "any-fold:" + key)
        else:
            rep.bad("R2.5", "any-fold:" + key,
                    "%s⊇%s is `any(member.contains(x))`: %s" % (a, b, "the mod-2 boundary rule makes an end point shared by two members interior to the multi line string although it is on the boundary of each member"
                                                                 if a == "MultiLineString" else "x may lie across several members / on member boundaries that are interior to the union"), where=fn.loc())
    elif which == 1 and kind == "all":
        rep.bad("R2.5", "all-members-fold:" + key, "`all(member.contains(x))` over the members of the container is not contains", where=fn.loc())
    else:
        rep.ok("R2.5", "fold-other:%s:%s-%s" % (key, kind, which))
