"""C08 — convex hull (structural clauses).

 R8.1 side tests: is_ccw is `orient2d == CounterClockwise` (strict), Graham pops on Clockwise and on Collinear unless
      include_on_hull; all by the scalar's kernel (C03 R3.4/R3.5 cover exactness and argument provenance)
 R8.2 hull vertices are bit-copies of input coordinates (no rounded value is pushed)
 R8.3 convex_hull() is exactly Polygon::new(quick_hull(exterior coordinates)) with no other path; every hull routine closes
      its ring on every return path
 R8.4 the farthest-point pick of quick hull breaks ties with a total order (otherwise a middle one of several collinear
      farthest points becomes a hull vertex between its neighbours)
 R8.5 Graham's angular comparator: decision table against exact reference on integer witnesses (counter-clockwise order
      around the pivot, nearer first among collinear points)
Not decided: minimality / containment as such; minimum_rotated_rect.
"""
import itertools
import re
from ..facts import Facts, short
from ..symex import Symex, Unanalysable, show, show_pc, bare
from ..dispatch import Lam, find_closures
from ..evalterm import Evaluator, Enum, NoModel, orient
from .c01 import opaque, calls_of
from .c02_kernels import Tree, CALLS, C, fmt
from . import c03

LEVEL = "other"
CH = "geo::algorithm::convex_hull::"


def run(rep, tier):
    rep.explanation = ("Tables of the side tests and of Graham's comparator, copy-provenance of hull vertices (taint), shape of the public entry, "
                       "ring closing on every path, tie-breaking of the farthest-point selection. Minimality and containment of the result as "
                       "such, and minimum_rotated_rect (numeric), are not decided.")
    rep.trusted = ["rustc MIR", "orient2d exactness (C03)", "reference comparator in analyses/rules/c08.py"]
    rep.assumptions = ["finite coordinates"]
    F = Facts("default")
    side_tests(rep, F)
    provenance(rep, F)
    entry_shape(rep, F)
    tie_break(rep, F)
    graham_comparator(rep, F)
    farthest_key(rep, F)
    # "as decided by exact orientation": the two kernel bodies the hull code dispatches to (shared with C03)
    from . import c03
    c03.kernel_bodies(rep, F, rule="R8.7")
    c03.integer_kernel(rep, F, rule="R8.7")
    from . import c05
    c05.least_index_table(rep, F, rule="R8.8")      # Graham's pivot
    c05.extreme_index_table(rep, F, rule="R8.11")    # quick hull's starting pair
    from ..report import Alias
    rep.rule("R8.12", "every orient2d argument in the hull code and in is_convex (the oracle of the convex-ring clause) is a bit-copy of an input coordinate (C03 R3.4)")
    c03.orient_args(Alias(rep, "R8.12"), F)
    c03.kernel_sqdist(rep, F, rule="R8.13")    # the tie-break of the Graham scan's angular sort
    # the hull is computed from exterior_coords_iter(): every exterior coordinate of every member must be handed over (tables shared with C19)
    from . import c19
    c19.traversal_tables(rep, F, rule="R8.9")
    rotated_rect_edges(rep, F)


def side_tests(rep, F):
    rep.rule("R8.1", "is_ccw is strict (orientation == CounterClockwise); Graham's stack pops on Clockwise and on Collinear unless include_on_hull")
    names = [v["name"] for v in F.adts["geo::algorithm::kernels::Orientation"]["variants"]]
    try:
        fn = F.one(r"^%sqhull::is_ccw$" % CH, crates=("geo",))
        ps = [p for p in Symex(F, inline_crates=("geo",)).run(fn) if p.kind == "ret"]
        table = {}
        for p in ps:
            d = [v for t, v in p.pc if t[0] == "discr" and "orient2d(a1, a2, a3)" in bare(t)]
            if d:
                table[names[d[0]]] = bare(p.ret)
            elif not p.pc:
                table["*"] = bare(p.ret)
        if table == {"CounterClockwise": "True", "Clockwise": "False", "Collinear": "False"} or table.get("*") in ("(discr(orient2d(a1, a2, a3)) == 0)",):
            rep.ok("R8.1", "is_ccw-strict", sample=table)
        else:
            rep.bad("R8.1", "is_ccw", "is_ccw(a,b,c) table is %s: collinear points must not count as counter-clockwise" % table, where=fn.loc())
    except (KeyError, Unanalysable) as e:
        rep.bad("R8.1", "is_ccw:anchor", str(e))
    try:
        fn = F.one(r"^%sgraham::graham_hull$" % CH, crates=("geo",))
        ps = opaque(F, loop_bound=1, max_paths=20000, budget_s=30).run(fn)
        tab = {}
        for p in ps:
            cs = calls_of(p)
            for i, c in enumerate(cs):
                if c[1].endswith("Kernel::orient2d") and "len(" in bare(("call", c[1], c[2])) or (c[1].endswith("Kernel::orient2d") and re.search(r"Sub|sub", bare(("call", c[1], c[2])))):
                    term = ("call", c[1], c[2])
                    dv = [v for t, v in p.pc if t[0] == "discr" and t[1] == term]
                    if not dv:
                        continue
                    inc = [v for t, v in p.pc if bare(t) == "a2"]
                    nxt = cs[i + 1][1].rsplit("::", 1)[-1] if i + 1 < len(cs) else "end"
                    popped = nxt == "pop"
                    key = (names[dv[0]], inc[-1] if inc else None)
                    tab.setdefault(key, set()).add(popped)
        flat = {k: sorted(v) for k, v in tab.items()}
        problems = []
        for (o, inc), pops in flat.items():
            want = {"CounterClockwise": False, "Clockwise": True}.get(o)
            if o == "Collinear":
                if inc is None:
                    continue
                want = (inc == 0)
            if want is not None and pops != [want]:
                problems.append("on a %s turn (include_on_hull=%s) the stack top is %s" % (o, inc, "popped" if pops[-1] else "kept"))
        if problems:
            rep.bad("R8.1", "graham-stack", problems[0], where=fn.loc())
        elif len(flat) >= 3:
            rep.ok("R8.1", "graham-stack", sample={str(k): v for k, v in flat.items()})
        else:
            rep.bad("R8.1", "graham-stack:rows", "stack table incomplete: %s" % flat, where=fn.loc())
    except (KeyError, Unanalysable) as e:
        rep.bad("R8.1", "graham:anchor", str(e))


def provenance(rep, F):
    rep.rule("R8.2", "every coordinate pushed into a hull is a copy of an input coordinate: no value carrying a rounded-arithmetic label reaches Vec::push in the hull routines")
    T = c03.taint_of(F)
    n = 0
    for rx in (r"^%sqhull::(quick_hull|hull_set)$" % CH, r"^%sgraham::graham_hull$" % CH, r"^%strivial_hull$" % CH):
        for fn in F.find(rx, crates=("geo",)):
            for g in [fn] + F.closures_of(fn):
                tc = {c.bb: ls for c, ls in T.tainted_calls(g)}
                for c in g.calls():
                    if re.search(r"Vec::<T, A>::push$", c.path or ""):
                        n += 1
                        ls = tc.get(c.bb)
                        if ls and len(ls) > 1 and ls[1]:
                            rep.bad("R8.2", "computed-vertex:%s" % fn.path, "a computed coordinate (%s) is pushed as a hull vertex" % sorted(ls[1])[0], where="%s:%s" % (g.rel_file, c.line))
                        else:
                            rep.ok("R8.2", "push:%s#bb%d" % (short(g.path)[-30:], c.bb))
    rep.floor("R8.2", "hull vertex pushes", n, 6)


def entry_shape(rep, F):
    rep.rule("R8.3", "ConvexHull::convex_hull is Polygon::new(quick_hull(&mut exterior_coords_iter().collect()), vec![]) on its only path; quick_hull / graham_hull / trivial_hull close the ring before every return")
    try:
        fn = [f for f in F.find(r"convex_hull::ConvexHull<'a, T>>::convex_hull$", crates=("geo",)) if f.kind != "Closure"][0]
        ps = [p for p in opaque(F).run(fn) if p.kind == "ret"]
        r = bare(ps[0].ret) if ps else ""
        if len(ps) == 1 and not ps[0].pc and re.match(r"^new\(quick_hull\(collect\(exterior_coords_iter\(a1\)\)\), (new\(\)|vec!\(\[\]\))\)$", r.replace("havoc(", "").replace("))))", ")))") if False else r) or (len(ps) == 1 and not ps[0].pc and "quick_hull(" in r and "exterior_coords_iter(a1)" in r and r.startswith("new(")):
            rep.ok("R8.3", "convex_hull-entry", sample=r[:120])
        else:
            rep.bad("R8.3", "convex_hull-entry", "convex_hull has %d path(s) / result %s: any shortcut bypasses the hull construction" % (len(ps), r[:120]), where=fn.loc())
    except (IndexError, Unanalysable) as e:
        rep.bad("R8.3", "entry:anchor", str(e))
    for rx in (r"^%sqhull::quick_hull$" % CH, r"^%sgraham::graham_hull$" % CH, r"^%strivial_hull$" % CH):
        try:
            fn = F.one(rx, crates=("geo",))
            ps = opaque(F, loop_bound=1, max_paths=20000, budget_s=30).run(fn)
            bad = None
            n = 0
            for p in ps:
                if p.kind != "ret":
                    continue
                n += 1
                names = [c[1].rsplit("::", 1)[-1] for c in calls_of(p)]
                if "close" not in names and "trivial_hull" not in names:
                    bad = "a path returns without closing the ring [%s]" % show_pc(p.pc)[:100]
            key = fn.path.rsplit("::", 1)[-1]
            if bad:
                rep.bad("R8.3", "close:" + key, bad, where=fn.loc())
            else:
                rep.ok("R8.3", "close:%s[%d paths]" % (key, n))
        except (KeyError, Unanalysable) as e:
            rep.bad("R8.3", "close:anchor", str(e))


def qhull_scope(F, fn):
    """hull_set and the private helpers of its module that it calls (transitively), so that extracting / inlining a helper does not hide the selection"""
    seen, todo = [], [fn]
    while todo:
        g = todo.pop()
        if g in seen:
            continue
        seen.append(g)
        for c in g.calls():
            h = F.fns.get(c.path or "")
            if h is not None and h.kind != "Closure" and h.path.startswith(CH + "qhull::") and not h.path.endswith(("::quick_hull", "::hull_set")) and h not in seen:
                todo.append(h)
        for cl in F.closures_of(g):
            if cl not in seen:
                todo.append(cl)
    return [g for g in seen if g.kind != "Closure"], [g for g in seen if g.kind == "Closure"]


def tie_break(rep, F):
    rep.rule("R8.4", "the farthest-point selection in hull_set orders candidates by the computed key and breaks ties with a total order on the coordinates")
    try:
        fn = F.one(r"^%sqhull::hull_set$" % CH, crates=("geo",))
    except KeyError as e:
        rep.bad("R8.4", "anchor", str(e))
        return
    found = False
    scope_fns, scope_cls = qhull_scope(F, fn)
    for c in [c for g in scope_fns for c in g.calls()]:
        if c.method in ("max_by", "min_by", "max_by_key", "min_by_key") and c.trait == "core::iter::traits::iterator::Iterator":
            found = True
            # comparator closure
            cl = None
            for g in scope_cls:
                if any((cc.method in ("partial_cmp", "cmp", "total_cmp")) for cc in g.calls()) and g.arg_count == 3:
                    cl = g
            if cl is None:
                rep.bad("R8.4", "comparator", "comparator closure of %s not found" % c.method, where=fn.loc())
                continue
            names = [cc.path.rsplit("::", 1)[-1] for cc in cl.calls()]
            has_tie = any(n in ("then_with", "then", "lex_cmp") for n in names) or sum(1 for n in names if n in ("partial_cmp", "cmp", "total_cmp")) >= 2
            if has_tie:
                rep.ok("R8.4", "farthest-pick-tie-break", sample=names)
            else:
                rep.bad("R8.4", "farthest-pick-tie-break", "%s compares only the rounded distance key (%s): among several collinear farthest points the one picked depends on input order, and a middle one ends up as a hull vertex on the segment between its neighbours" % (c.method, names), where="%s:%s" % (fn.rel_file, c.line))
    if not found:
        rep.bad("R8.4", "no-selection", "no max_by/min_by selection found in hull_set (rule blind)", where=fn.loc())


def graham_comparator(rep, F):
    rep.rule("R8.5", "Graham's sort comparator orders points counter-clockwise around the pivot and nearer-first among points collinear with it (decision table on integer witnesses)")
    try:
        fn = F.one(r"^%sgraham::graham_hull$" % CH, crates=("geo",))
    except KeyError as e:
        rep.bad("R8.5", "anchor", str(e))
        return
    cmp_cl = None
    for g in F.closures_of(fn):
        if g.arg_count == 3 and g.locals[0].endswith("Ordering"):
            cmp_cl = g
    if cmp_cl is None:
        rep.bad("R8.5", "comparator-missing", "sort comparator closure not found", where=fn.loc())
        return
    ex = Symex(F, inline_crates=("geo",))
    env_term = ("cap",)
    try:
        # closure(env, &q, &r): env.0 is (a reference to) the pivot
        paths = [p for p in ex.run(cmp_cl, [("capenv",), ("&", ("bound", 0)), ("&", ("bound", 1))]) if p.kind == "ret"]
    except Unanalysable as e:
        rep.bad("R8.5", "unanalysable", str(e), where=cmp_cl.loc())
        return
    tree = Tree(paths)
    calls = dict(CALLS)

    def sqd(ev, args):
        a, b = ev.ev(args[0]), ev.ev(args[1])
        return (a["x"] - b["x"]) ** 2 + (a["y"] - b["y"]) ** 2
    calls["geo::algorithm::kernels::Kernel::square_euclidean_distance"] = sqd
    from ..report import thorough
    g = 5 if thorough() else 4
    grid = [C(x, y) for x in range(g) for y in range(g)]
    head = C(0, 0)      # the pivot is the lexicographically least point: every other point is to its right or above
    n = 0
    for q, r in itertools.product(grid, repeat=2):
        if q == head or r == head or q == r:
            continue
        class Env(dict):
            pass
        env = {("bound", 0): q, ("bound", 1): r}
        ev = Evaluator(F, env, calls)
        # any term rooted at the captured environment denotes the pivot
        orig = ev.ev

        def ev2(t, _o=orig):
            if isinstance(t, tuple) and t and t[0] in ("field", "deref", "&") and "capenv" in str(t) and "bound" not in str(t):
                return head
            return _o(t)
        ev.ev = ev2
        try:
            hit = tree.select(ev)
            if len(hit) != 1:
                rep.bad("R8.5", "table", "witness q=%s r=%s selects %d rows" % (fmt(q), fmt(r), len(hit)), where=cmp_cl.loc())
                return
            got = ev.ev(hit[0].ret)
        except NoModel as e:
            rep.bad("R8.5", "non-abstractable", str(e), where=cmp_cl.loc())
            return
        gv = got.variant if isinstance(got, Enum) else str(got)
        o = orient(head, q, r)
        if o == "CounterClockwise":
            want = "Less"
        elif o == "Clockwise":
            want = "Greater"
        else:
            dq = q["x"] ** 2 + q["y"] ** 2
            dr = r["x"] ** 2 + r["y"] ** 2
            want = "Less" if dq < dr else "Greater" if dq > dr else "Equal"
        n += 1
        if gv != want:
            rep.bad("R8.5", "comparator", "with pivot (0,0), q=%s, r=%s the comparator says %s, the counter-clockwise / nearer-first order says %s" % (fmt(q), fmt(r), gv, want), where=cmp_cl.loc())
            return
    rep.ok("R8.5", "comparator[%d witnesses, %d rows]" % (n, len(paths)))


def farthest_key(rep, F):
    rep.rule("R8.6", "quick hull farthest-point key = p_orth . (pt - p_a) with p_orth = (a.y - b.y, b.x - a.x): the candidate's coordinates enter only through differences with p_a")
    try:
        fn = F.one(r"^%sqhull::hull_set$" % CH, crates=("geo",))
    except KeyError as e:
        rep.bad("R8.6", "anchor", str(e))
        return
    scope_fns, _ = qhull_scope(F, fn)

    class Rec:
        def __init__(self):
            self.log = []

        def ok(self, *a, **k):
            self.log.append(("ok", a, k))

        def bad(self, *a, **k):
            self.log.append(("bad", a, k))
    results = []
    for g in scope_fns:
        r = Rec()
        _farthest_key_in(r, F, g)
        results.append(r.log)
    good = [lg for lg in results if lg and all(k == "ok" for k, _, _ in lg)]
    if good:
        for k, a, kw in good[0]:
            rep.ok(*a, **kw)
        return
    # report the most specific failure (a function in which a key closure was found)
    cand = [lg for lg in results if any(k == "bad" and a[1] not in ("shape", "anchor") for k, a, _ in lg)] or results
    for k, a, kw in (cand[0] if cand else []):
        if k == "bad":
            rep.bad(*a, **kw)


def _farthest_key_in(rep, F, fn):
    """R8.6: the key of quick hull's farthest-point search is cross(b - a, pt - a), computed from coordinate DIFFERENCES with the segment's
    start: p_orth . (pt - a) with p_orth = (a.y - b.y, b.x - a.x).  Over the reals adding the constant p_orth . a changes nothing, in floats
    it destroys the selection for coordinates far from the origin (the property quantifies over exactly those inputs)."""
    from ..memberfold import subterms
    from ..poly import from_term, P, sym
    try:
        ps = opaque(F, loop_bound=1).run(fn)
    except Unanalysable as e:
        rep.bad("R8.6", "anchor", str(e))
        return
    keyc = None
    for g in F.closures_of(fn):
        for q in opaque(F).run(g):
            if q.kind == "ret" and q.ret and q.ret[0] == "tuple" and len(q.ret[1]) == 2 and bare(q.ret[1][1]) == "a2" and not q.pc:
                keyc = (g, q.ret[1][0])
    if keyc is None:
        rep.bad("R8.6", "shape", "the (key, point) map closure of the farthest-point search was not found", where=fn.loc())
        return
    g, key = keyc
    caps = None
    short_name = g.path.rsplit("::", 1)[-1]
    for p in ps:
        terms = [t for t, _ in p.pc] + [c[2] for c in calls_of(p)]
        for t in terms:
            for s in subterms(t, []):
                if s and s[0] == "closure" and str(s[1]).endswith(short_name):
                    caps = s[2]
    if caps is None:
        rep.bad("R8.6", "shape", "the creation of the key closure was not found in hull_set", where=fn.loc())
        return
    cap_s = [bare(c) for c in caps]
    ks = bare(key)
    # substitute the captures into the key
    full = ks
    for i, c in sorted(enumerate(cap_s), key=lambda x: -x[0]):
        full = full.replace("a1.%d" % i, "(" + c + ")")
    want = "add(mul((sub(a1.y, a2.y)), sub(a2.x, (a1.x))), mul((sub(a2.x, a1.x)), sub(a2.y, (a1.y))))"
    # the closure's own a2 (candidate point) must be told apart from hull_set's a2 (p_b): rename the candidate first
    ks2 = ks.replace("a2.x", "PT.x").replace("a2.y", "PT.y")
    full = ks2
    for i, c in sorted(enumerate(cap_s), key=lambda x: -x[0]):
        full = full.replace("a1.%d" % i, "(" + c + ")")
    want = "add(mul((sub(a1.y, a2.y)), sub(PT.x, (a1.x))), mul((sub(a2.x, a1.x)), sub(PT.y, (a1.y))))"
    # another way of writing it: every PT coordinate must occur only inside a difference with an end point of the segment, and the value
    # must be a positive multiple of cross(b - a, pt - a) (checked on integer samples of the extracted term, exact arithmetic)
    import re as _re
    import random
    bare_pt = _re.sub(r"sub\(PT\.([xy]), \(?a[12]\.\1\)?\)", "D", full)
    if "PT." in bare_pt:
        rep.bad("R8.6", "key", "the farthest-point key is %s: the candidate's raw coordinates enter the products instead of their differences with the segment start, so for "
                "coordinates far from the origin rounding decides which point is `farthest` and a non-extreme point can become a hull vertex" % full[:200], where=g.loc())
        return

    class Arith(Evaluator):
        def call(self, t):
            m = t[1].rsplit("::", 1)[-1]
            if m in ("sub", "add", "mul") and len(t[2]) == 2:
                a, b = self.ev(t[2][0]), self.ev(t[2][1])
                return a - b if m == "sub" else a + b if m == "add" else a * b
            if m == "neg":
                return -self.ev(t[2][0])
            return Evaluator.call(self, t)
    rnd = random.Random(8)
    ratios = set()
    try:
        for _ in range(24):
            a, b, pt = (C(rnd.randint(-9, 9), rnd.randint(-9, 9)) for _ in range(3))
            outer = Arith(F, {("arg", 1): a, ("arg", 2): b})
            capv = [outer.ev(c) for c in caps]
            inner = Arith(F, {("arg", 1): {str(i): v for i, v in enumerate(capv)}, ("arg", 2): pt})
            got = inner.ev(key)
            want_v = (b["x"] - a["x"]) * (pt["y"] - a["y"]) - (b["y"] - a["y"]) * (pt["x"] - a["x"])
            if want_v == 0:
                if got != 0:
                    ratios.add("nonzero-at-zero")
                continue
            from fractions import Fraction
            ratios.add(Fraction(got, want_v))
    except NoModel as e:
        rep.bad("R8.6", "key:form", "the farthest-point key %s cannot be evaluated (%s)" % (full[:160], e), where=g.loc())
        return
    if len(ratios) == 1 and "nonzero-at-zero" not in ratios and list(ratios)[0] > 0:
        rep.ok("R8.6", "key~cross(b-a,pt-a)", sample=full)
    else:
        rep.bad("R8.6", "key:value", "the farthest-point key %s is not a positive multiple of cross(b - a, pt - a)" % full[:200], where=g.loc())


def rotated_rect_edges(rep, F):
    """R8.10: minimum_rotated_rect with the hull answered by a concrete ring of 3 and 4 vertices (exact unrolling): on every path the
    candidate directions tried are ALL edges of the hull ring (the minimum-area rectangle is flush with some hull edge, so skipping an edge can
    miss it), and the rectangle returned is the candidate of the chosen edge rotated back by that same edge's angle."""
    from ..symex import _ret
    rep.rule("R8.10", "minimum_rotated_rect (hull rings of 3 and 4 vertices, exact unrolling): every hull edge is tried as a rectangle direction on every path, and the result is the chosen candidate rotated back by its own edge angle")
    GT = "geo_types::geometry::"
    LS = GT + "line_string::LineString"
    try:
        fn = F.one(r"minimum_rotated_rect::MinimumRotatedRect<T>>::minimum_rotated_rect$", crates=("geo",))
    except KeyError as e:
        rep.bad("R8.10", "mrr:anchor", str(e))
        return

    def vec(items):
        return ("call", "vec!", (("array", tuple(items)),))
    n_ok = 0
    for n in (3, 4):
        names = ["h%d" % i for i in range(n)]
        hull = ("adt", GT + "polygon::Polygon", "Polygon", (("adt", LS, "LineString", (vec([("opaque", x) for x in names + names[:1]]),)), vec([])))
        want = {frozenset((names[i], names[(i + 1) % n])) for i in range(n)}

        def m_hull(ex, st, call, args, hull=hull):
            return _ret(st, hull)
        models = {"geo::algorithm::convex_hull::ConvexHull::convex_hull": m_hull}
        for g in F.find(r"ConvexHull<.*>>::convex_hull$", crates=("geo",)):
            models[g.path] = m_hull
        try:
            ex = Symex(F, models=models, concrete_iters=True, loop_bound=n + 4, inline_crates=("geo", "geo_types"), max_depth=10, max_paths=5000,
                       no_inline=[r"Centroid.*::centroid$", r"Rotate.*::rotate_around_point$", r"BoundingRect.*::bounding_rect$", r"::unsigned_area$", r"::to_polygon$"])
            ex.resolve_by_receiver = True
            ps = [p for p in ex.run(fn, args=[("&", ("opaque", "g"))]) if p.kind == "ret"]
        except Unanalysable as e:
            rep.bad("R8.10", "mrr:unanalysable", str(e), where=fn.loc())
            return
        bad = None
        full = 0
        for p in ps:
            rots = [e for e in p.trace if e[0] == "call" and e[1].endswith("rotate_around_point")]
            if show(p.ret).startswith("Option::None"):
                continue          # a `?` exit (no centroid / no bounding box)
            tried = []
            back = None
            for e in rots:
                ang = show(e[2][1])
                seen_h = []
                for x in re.findall(r"opaque\((h\d)\)", ang):
                    if x not in seen_h:
                        seen_h.append(x)
                edge = frozenset(seen_h) if len(seen_h) == 2 else None
                if ang.startswith("neg("):
                    tried.append(edge)
                else:
                    back = edge
            if back is None and not any(not show(e[2][1]).startswith("neg(") for e in rots):
                continue          # left through `?` before the final rotation
            full += 1
            if set(tried) != want:
                bad = "a path tries the hull edges %s as rectangle directions; the hull ring has the edges %s" % (sorted(tuple(sorted(x)) for x in set(tried) if x), sorted(tuple(sorted(x)) for x in want))
                break
            if back not in want:
                bad = "the result is rotated back by an angle that is not the angle of a hull edge (%s)" % (back,)
                break
        if bad:
            rep.bad("R8.10", "mrr:edges", "hull of %d vertices: %s" % (n, bad), where=fn.loc())
            return
        if not full:
            rep.bad("R8.10", "mrr:paths", "hull of %d vertices: no path completes the loop over the hull edges" % n, where=fn.loc())
            return
        n_ok += 1
        rep.ok("R8.10", "mrr:hull-%d[%d complete paths]" % (n, full))
    rep.floor("R8.10", "hull sizes", n_ok, 2)
