"""C03 — orientation and point-location predicates are exact for all f64 input.

Argument: if every decision in the predicate family is a function only of (i) signs returned by the adaptive
orient2d and (ii) comparisons / equalities of unmodified input coordinates, then the result equals what the same
code computes in exact real arithmetic.
 R3.1 kernel binding  R3.2 kernel body tables + argument provenance  R3.3 arithmetic-free decisions (taint)
 R3.4 orient2d arguments are bit-copies of input coordinates in the family.
"""
import re
from ..facts import Facts, short, op_place, Call
from ..flow import Taint, AccessPaths
from ..symex import Symex, Unanalysable, show, show_pc

LEVEL = "proof"

ARITH_TRAIT = re.compile(r"^core::ops::arith::(Add|Sub|Mul|Div|Rem|Neg|AddAssign|SubAssign|MulAssign|DivAssign|RemAssign)::")
FLOAT_FN = re.compile(r"^num_traits::float::(Float|FloatCore)::(abs|sqrt|hypot|powi|powf|epsilon|mul_add|recip|sin|cos|tan|atan2|atan|asin|acos|exp|ln|log|round|floor|ceil|trunc|fract|signum|abs_sub|cbrt|to_degrees|to_radians|min_positive_value)$"
                      r"|^num_traits::(sign::Signed::(abs|signum|abs_sub)|real::Real::|ops::mul_add::|pow::)"
                      r"|^core::f(32|64)::<impl f(32|64)>::(abs|sqrt|hypot|mul_add|powi|powf|sin|cos|signum|recip)"
                      r"|^std::f(32|64)::<impl f(32|64)>::"
                      r"|^float_next_after::")
ORIENT = re.compile(r"^geo::algorithm::kernels::Kernel::orient2d$|^robust::orient2d$|^<.* as geo::algorithm::kernels::Kernel<T>>::orient2d$")
KERNEL_TRUSTED = re.compile(r"kernels::(Kernel|robust|simple)|<geo::algorithm::kernels::\w+::\w+Kernel as geo::algorithm::kernels::Kernel<T>>")

# The exact family (def-path regexes).  Each entry: (regex, minimum number of functions it must match today)
GT = "geo_types::geometry::"
INTERSECTS = "geo::algorithm::intersects::Intersects"
CONTAINS = "geo::algorithm::contains::Contains"
# The exact family.  ("impl", trait, self regex, first trait argument regex, method, floor) or ("fn", def-path regex, floor)
FAMILY = [
    ("impl", INTERSECTS, r"^%sline::Line<T>$" % GT, r"^%s(coord::Coord|line::Line)<T>$" % GT, "intersects", 2),
    ("impl", INTERSECTS, r"^%s(triangle::Triangle|rect::Rect)<T>$" % GT, r"^%scoord::Coord<T>$" % GT, "intersects", 2),
    ("impl", INTERSECTS, r"^%srect::Rect<T>$" % GT, r"^%srect::Rect<T>$" % GT, "intersects", 1),
    ("impl", CONTAINS, r"^%s(triangle::Triangle|rect::Rect|line::Line)<T>$" % GT, r"^%scoord::Coord<T>$" % GT, "contains", 3),
    ("impl", "geo::algorithm::coordinate_position::CoordinatePosition", None, None, "calculate_coordinate_position", 12),
    ("fn", r"^geo::algorithm::coordinate_position::coord_pos_relative_to_ring$", 1),
    ("fn", r"^geo::algorithm::intersects::(value_in_between|point_in_rect|has_disjoint_bboxes|value_in_range)$", 3),
    ("impl", "geo::algorithm::winding_order::Winding", r"^%sline_string::LineString<T>$" % GT, None, "winding_order", 1),
    ("fn", r"^geo::algorithm::winding_order::triangle_winding_order$", 1),
    ("fn", r"^geo::utils::(least_index|lex_cmp|least_and_greatest_index|least_or_greatest_index)$", 3),
    ("fn", r"^geo::algorithm::line_intersection::(line_intersection|collinear_intersection)$", 2),
    ("fn", r"^geo::algorithm::convex_hull::qhull::is_ccw$", 1),
    ("fn", r"^geo::algorithm::is_convex::is_convex_shaped$", 1),
    ("impl", "geo::algorithm::is_convex::IsConvex", r"^%sline_string::LineString<T>$" % GT, None, "convex_orientation", 1),
    ("impl", "geo::algorithm::relate::geomgraph::line_intersector::LineIntersector", r"RobustLineIntersector$", None, "compute_intersection", 1),
]

# hull code: only the orient2d argument rule (R3.4) applies; the farthest-point selection is C08's business
HULLS = [
    (r"^geo::algorithm::convex_hull::qhull::(quick_hull|hull_set)$", 2),
    (r"^geo::algorithm::convex_hull::graham::graham_hull$", 1),
    (r"^geo::algorithm::convex_hull::trivial_hull$", 1),
]

# reported, not armed (exact key -> reason)
REPORTED = {
}


class RoundingPolicy:
    """Sources: results of rounded arithmetic on scalars.  Sanitizers: the adaptive orientation predicate."""

    def source(self, c):
        p = c.callee or c.path or ""
        if ARITH_TRAIT.search(p):
            st = c.self_ty or (c.gargs[0] if c.gargs else "")
            if re.match(r"(usize|u8|u16|u32|u64|u128|isize|i8|i16|i32|i64|i128|bool)$", st or ""):
                return None
            return "rounded arithmetic %s in %s" % (short(p), c.fn.path)
        if FLOAT_FN.search(p) or FLOAT_FN.search(c.path or ""):
            return "float library call %s in %s" % (short(p), c.fn.path)
        return None

    def source_stmt(self, fn, rv):
        if rv[0] == "bin" and rv[1] in ("Add", "Sub", "Mul", "Div", "Rem", "AddUnchecked", "SubUnchecked", "MulUnchecked") and re.match(r"f(16|32|64|128)$", rv[4] if len(rv) > 4 else ""):
            return "float arithmetic in %s" % fn.path
        if rv[0] == "un" and rv[1] == "Neg" and re.match(r"f(32|64)$", rv[3] if len(rv) > 3 else ""):
            return None   # negation is exact
        if rv[0] == "cast" and rv[1] in ("FloatToInt", "FloatToFloat") and rv[4] == "f64" and rv[3] == "f32":
            return "narrowing float cast in %s" % fn.path
        return None

    def sanitizer(self, c):
        p = c.callee or c.path or ""
        if ORIENT.search(p) or ORIENT.search(c.path or ""):
            return True
        return False

    PERMUTE = re.compile(r"^core::slice::<impl \[T\]>::(swap|reverse|rotate_left|rotate_right|split_first_mut|split_last_mut|split_at_mut|sort\w*|select_nth_unstable\w*)$"
                         r"|^alloc::slice::<impl \[T\]>::sort\w*$|^alloc::vec::Vec::<T, A>::(swap_remove|remove|truncate|pop|dedup\w*|retain\w*)$")
    SELECT = re.compile(r"^core::ops::index::(Index|IndexMut)::(index|index_mut)$|^core::slice::<impl \[T\]>::(get|get_mut|get_unchecked|get_unchecked_mut|first|last|first_mut|last_mut|split_first_mut|split_first|split_at|split_at_mut)$"
                        r"|^alloc::vec::Vec::<T, A>::(swap_remove|remove|pop)$")

    def transfer(self, c):
        """value taint: selecting / moving an element does not compute a new number, whatever the index was"""
        p = c.path or ""
        q = c.callee or ""
        if self.SELECT.search(p) or self.SELECT.search(q):
            return [0]
        if self.PERMUTE.search(p) or self.PERMUTE.search(q):
            return [0]
        return None

    def taints_mut_arg(self, c, i):
        p = c.path or ""
        if self.PERMUTE.search(p) or self.PERMUTE.search(c.callee or ""):
            return False
        return True

    def sink(self, c, targs, T):
        return None


def family_fns(rep, F):
    fam = []
    for e in FAMILY:
        if e[0] == "impl":
            fs = F.impl_methods(e[1], e[2], e[3], e[4], crates=("geo",))
            what = "%s::%s for %s" % (short(e[1]), e[4], e[2] or "*")
            floor = e[5]
        else:
            fs = [f for f in F.find(e[1], crates=("geo",)) if f.kind != "Closure"]
            what = e[1]
            floor = e[2]
        rep.floor("R3.3", "family:%s" % what[:80], len(fs), floor)
        fam.extend(fs)
    out = []
    seen = set()
    for f in fam:
        for g in [f] + F.closures_of(f):
            if g.key not in seen:
                seen.add(g.key)
                out.append((g, f))
    return out


def run(rep, tier):
    rep.explanation = ("Exactness by construction: (R3.1) float scalars are bound to the adaptive kernel, (R3.2) the kernel maps the sign of "
                       "robust::orient2d on the unmodified points to the orientation, (R3.3) in the predicate family no branch, comparison "
                       "or returned predicate value depends on the result of rounded arithmetic (interprocedural taint over MIR; helper "
                       "results count as clean only if the helper is clean), (R3.4) every orient2d argument in the family is a bit-copy of "
                       "an input coordinate, (R3.6) the sign-level decision tables of point-on-segment, segment-segment intersects, "
                       "point-in-triangle, the ring crossing step and the polygon composition agree with exact integer geometry on witness catalogues.")
    rep.trusted = ["the `robust` crate's orient2d is a correct adaptive predicate", "rustc MIR", "flow-insensitive local taint (over-approximates)"]
    rep.assumptions = ["integer scalar types: intermediate products fit the type (hypothesis of the property)",
                       "comparisons and equalities of f64 inputs are exact (IEEE)"]
    F = Facts("default")
    kernel_binding(rep, F)
    kernel_bodies(rep, F)
    taint_family(rep, F)
    orient_args(rep, F)
    kernel_dispatch(rep, F)
    integer_kernel(rep, F)
    kernel_sqdist(rep, F)
    tables(rep, F, tier)


def tables(rep, F, tier):
    """R3.6: the predicates the property names give the exact-arithmetic answer: since R3.2-R3.5 make every decision a function of
    orientation signs and coordinate comparisons, the answer is right for all inputs iff the finite decision table over those signs is
    right; the table is compared with exact integer reference geometry on witness catalogues (shared with C02 R2.6 and C11 R11.4)."""
    from . import c02_kernels, c11
    c02_kernels.run(rep, F, tier, only={"Triangle∩Coord", "Triangle⊇Coord", "Triangle.position", "Line∩Coord", "Line⊇Coord", "Line.position",
                                        "ring-step", "polygon-composition"}, rule="R3.6")
    c11.agreement(rep, F, rule="R3.6")
    from . import c05
    c05.winding_table(rep, F, rule="R3.6")


def kernel_binding(rep, F):
    rep.rule("R3.1", "GeoNum::Ker is RobustKernel for f32/f64 and SimpleKernel for the integer types")
    n = 0
    for im in F.impls_of("geo::GeoNum"):
        ker = [it for it in im["items"] if it["name"] == "Ker"]
        if not ker:
            continue
        n += 1
        ty = im["self_ty"]
        k = ker[0].get("ty", "")
        want = "geo::algorithm::kernels::robust::RobustKernel" if ty in ("f32", "f64") else "geo::algorithm::kernels::simple::SimpleKernel"
        if k == want:
            rep.ok("R3.1", "Ker:%s" % ty, sample="%s -> %s" % (ty, short(k)))
        else:
            rep.bad("R3.1", "Ker:%s" % ty, "<%s as GeoNum>::Ker is %s, expected %s: float predicates would be evaluated with rounded arithmetic" % (ty, short(k), short(want)), where=im["span"]["file"])
    rep.floor("R3.1", "GeoNum impls", n, 7)


def kernel_bodies(rep, F, rule="R3.2"):
    rep.rule(rule, "RobustKernel::orient2d = sign(robust::orient2d(p,q,r)) with no tolerance, points passed unmodified in order; SimpleKernel uses the default sign table")
    try:
        fn = F.impl_method("geo::algorithm::kernels::Kernel", r"robust::RobustKernel$", None, "orient2d", crates=("geo",))
    except KeyError as e:
        rep.bad(rule, "robust-override-missing", "RobustKernel no longer overrides orient2d (%s): the default rounded formula would be used" % e)
        return
    ex = Symex(F)
    try:
        paths = [p for p in ex.run(fn) if p.kind == "ret"]
    except Unanalysable as e:
        rep.bad(rule, "robust:unanalysable", str(e), where=fn.loc())
        return
    table = {}
    for p in paths:
        atoms = []
        o_term = None
        for t, v in p.pc:
            if t[0] == "discr":
                continue   # unwrap() of NumCast::from
            if t[0] == "cmp":
                atoms.append((t, v))
        outcome = p.ret[2] if p.ret[0] == "adt" else show(p.ret)
        table.setdefault(outcome, []).append(atoms)
    # every comparison atom must compare the call result of robust::orient2d with literal 0
    good = True
    ocall = None
    for outcome, alts in table.items():
        for atoms in alts:
            for t, v in atoms:
                a, b = t[2], t[3]
                call = a if a[0] == "call" else b
                lit = b if a[0] == "call" else a
                if not (call[0] == "call" and call[1] == "robust::orient2d" and lit[0] == "const" and float(lit[1]) == 0.0):
                    good = False
                    rep.bad(rule, "robust:tolerance", "orientation decided by %s, not by the sign of robust::orient2d against literal zero" % show(t)[:160], where=fn.loc())
                else:
                    ocall = call
    if good and ocall is not None:
        # sign table: evaluate the decision for sign in {-1,0,1}
        def decide(sign):
            for p in paths:
                okp = True
                for t, v in p.pc:
                    if t[0] != "cmp":
                        continue
                    a, b = t[2], t[3]
                    x = sign if a[0] == "call" else 0
                    y = 0 if a[0] == "call" else sign
                    r = {"lt": x < y, "le": x <= y, "eq": x == y}[t[1]]
                    if (1 if r else 0) != v:
                        okp = False
                if okp:
                    return p.ret[2] if p.ret[0] == "adt" else None
            return None
        want = {1: "CounterClockwise", -1: "Clockwise", 0: "Collinear"}
        for sgn, w in want.items():
            g = decide(sgn)
            if g == w:
                rep.ok(rule, "robust:sign%+d→%s" % (sgn, w))
            else:
                rep.bad(rule, "robust:sign%+d" % sgn, "robust::orient2d sign %+d is mapped to %s, expected %s" % (sgn, g, w), where=fn.loc())
        # argument provenance: three Coord aggregates whose x/y are casts of p.x,p.y / q / r in order
        args = ocall[2]
        names = []
        for a in args:
            s = show(a)
            m = re.findall(r"a(\d)\.(x|y)", s)
            names.append(m)
        if names == [[("1", "x"), ("1", "y")], [("2", "x"), ("2", "y")], [("3", "x"), ("3", "y")]] and not re.search(r"bin|Add|Sub|Mul", show(ocall)):
            rep.ok(rule, "robust:args(p,q,r)", sample=show(ocall)[:200])
        else:
            rep.bad(rule, "robust:args", "robust::orient2d is not called on the unmodified points (p,q,r) in order: %s" % show(ocall)[:200], where=fn.loc())
    # default body (used by SimpleKernel): sign table of `res`
    try:
        dfn = F.one(r"^geo::algorithm::kernels::Kernel::orient2d$", crates=("geo",))
        sk = [im for im in F.impls_of("geo::algorithm::kernels::Kernel") if im["self_ty"].endswith("SimpleKernel")]
        if sk and any(it["name"] == "orient2d" for it in sk[0]["items"]):
            rep.ok(rule, "simple:overrides")   # then its own body is what counts; analysed below if present
        dpaths = [p for p in Symex(F).run(dfn) if p.kind == "ret"]
        outs = sorted(p.ret[2] for p in dpaths if p.ret[0] == "adt")
        if outs == ["Clockwise", "Collinear", "CounterClockwise"]:
            rep.ok(rule, "default:three-way")
        else:
            rep.bad(rule, "default:table", "default orient2d does not distinguish three signs: %s" % outs, where=dfn.loc())
    except (KeyError, Unanalysable) as e:
        rep.bad(rule, "default:unanalysable", str(e))


def integer_kernel(rep, F, rule="R3.7"):
    """R3.7: whatever body the integer scalars' kernel resolves to (SimpleKernel's own orient2d, else the trait default) is evaluated, as an
    extracted decision table, on exact integer witnesses: all point triples of a 3x3 grid and near-collinear triples whose determinant is
    +-1 while both products stay below 2^62 (they fit i64, the hypothesis of the property).  Arithmetic of the scalar type is exact integer
    arithmetic; a conversion to f64 / f32 (`to_f64`, `as f64`, NumCast) is an IEEE rounding, so a kernel that evaluates the determinant in
    floating point gives Collinear on those witnesses."""
    import itertools
    import struct
    from ..evalterm import ArithEval, Enum, NoModel, orient
    rep.rule(rule, "the integer kernel (SimpleKernel::orient2d, or the trait default it inherits) returns the sign of the exact determinant on every witness, including near-collinear triples with 2^30-sized coordinates whose products fit i64: the determinant is evaluated in the scalar's own exact arithmetic, not in floating point")
    try:
        try:
            fn = F.impl_method("geo::algorithm::kernels::Kernel", r"simple::SimpleKernel$", None, "orient2d", crates=("geo",))
            which = "SimpleKernel::orient2d"
        except KeyError:
            fn = F.one(r"^geo::algorithm::kernels::Kernel::orient2d$", crates=("geo",))
            which = "Kernel::orient2d (default, inherited by SimpleKernel)"
        paths = [p for p in Symex(F, inline_crates=("geo", "geo_types")).run(fn) if p.kind in ("ret", "panic")]
    except (KeyError, Unanalysable) as e:
        rep.bad(rule, "integer-kernel:unanalysable", str(e))
        return

    def f32(x):
        return struct.unpack("f", struct.pack("f", float(x)))[0]

    class Ev(ArithEval):
        def ev(self, t):
            if isinstance(t, tuple) and t and t[0] == "cast":
                v = self.ev(t[2])
                ty = str(t[3])
                if ty == "f64":
                    return float(v)
                if ty == "f32":
                    return f32(v)
                return v
            return ArithEval.ev(self, t)

        def call(self, t):
            m = t[1].rsplit("::", 1)[-1]
            if m in ("to_f64", "to_f32") and len(t[2]) == 1:
                v = self.ev(t[2][0])
                return Enum("core::option::Option", "Some", [float(v) if m == "to_f64" else f32(v)])
            if m in ("to_i128", "to_i64", "to_isize") and len(t[2]) == 1:
                return Enum("core::option::Option", "Some", [self.ev(t[2][0])])
            if m in ("is_positive", "is_negative", "is_zero") and len(t[2]) == 1:
                v = self.ev(t[2][0])
                return v > 0 if m == "is_positive" else v < 0 if m == "is_negative" else v == 0
            if m == "signum" and len(t[2]) == 1:
                v = self.ev(t[2][0])
                return (v > 0) - (v < 0)
            return ArithEval.call(self, t)

    grid = [{"x": x, "y": y} for x in range(3) for y in range(3)]
    wit = [(p, q, r) for p in grid for q in grid for r in grid]
    for k in (27, 30):
        a, b = 2 ** k, 2 ** (k + 1)
        for sx, sy in ((1, 1), (-1, 1), (1, -1)):
            p, q, r = {"x": 0, "y": 0}, {"x": sx * (a + 1), "y": sy * a}, {"x": sx * (b + 1), "y": sy * (b - 1)}
            wit += [(p, q, r), (q, p, r), (r, q, p), (q, r, p)]
    bad = None
    for p, q, r in wit:
        ev = Ev(F, {("arg", 1): p, ("arg", 2): q, ("arg", 3): r})
        try:
            hit = ev.select_path(paths)
        except (NoModel, TypeError, KeyError, ZeroDivisionError) as e:
            bad = ("integer-kernel:unanalysable", "%s cannot be evaluated on p=%s q=%s r=%s: %s" % (which, p, q, r, e))
            break
        want = orient(p, q, r)
        got = [h.ret[2] if (h.kind == "ret" and h.ret[0] == "adt") else h.kind for h in hit]
        if got != [want]:
            bad = ("integer-kernel:table", "%s on p=(%d,%d) q=(%d,%d) r=(%d,%d) gives %s; the exact determinant %d means %s" %
                   (which, p["x"], p["y"], q["x"], q["y"], r["x"], r["y"], got or "no row",
                    (q["x"] - p["x"]) * (r["y"] - q["y"]) - (q["y"] - p["y"]) * (r["x"] - q["x"]), want))
            break
    if bad:
        rep.bad(rule, bad[0], bad[1], where=fn.loc())
    else:
        rep.ok(rule, "integer-kernel[%d witnesses]" % len(wit), sample=which)


_TAINT = {}


def taint_of(F):
    if id(F) not in _TAINT:
        _TAINT[id(F)] = Taint(F, RoundingPolicy(), extra_crates=("geo_verif_roots",)).run()
    return _TAINT[id(F)]


PRED_RET = re.compile(r"^bool$|kernels::Orientation$|coordinate_position::CoordPos$|winding_order::WindingOrder$|^core::cmp::Ordering$|^core::option::Option<(geo::algorithm::winding_order::WindingOrder|core::cmp::Ordering|bool)>$")


def taint_family(rep, F):
    rep.rule("R3.3", "in the predicate family no SwitchInt, comparison or returned predicate depends on the result of rounded arithmetic")
    T = taint_of(F)
    fam = family_fns(rep, F)
    ctl = [(f, f) for f in F.find(r"controls::rounded_decision$", crates=("geo_verif_roots",))]
    fired_ctl = False
    n_dec = 0
    per_top = {}
    for fn, top in fam + ctl:
        if KERNEL_TRUSTED.search(fn.path):
            continue
        bad = []
        n_dec += sum(1 for bb in fn.normal_blocks() if fn.term(bb)["k"] == "switch")
        for bb, line, labs in T.switch_labels(fn):
            bad.append((line, "a branch", sorted(labs)[0]))
        rl = T.real(T.labels(fn, 0))
        if rl and PRED_RET.search(fn.locals[0]):
            bad.append((fn.line, "the returned %s" % short(fn.locals[0]), sorted(rl)[0]))
        if fn.crate == "geo_verif_roots":
            fired_ctl = fired_ctl or bool(bad)
            continue
        per_top.setdefault(top.path, [top, []])[1].extend((fn, b) for b in bad)
    for tp, (top, items) in sorted(per_top.items()):
        if items:
            lines = sorted({b[0] for _, b in items if b[0]})
            fn, b = items[0]
            k2 = "decision:%s" % tp
            if k2 in REPORTED:
                rep.info.setdefault("reported_not_armed", {})[k2] = REPORTED[k2]
                rep.ok("R3.3", "exempt:" + k2)
                continue
            rep.bad("R3.3", k2, "%s depends on %s (lines %s): the predicate can be flipped by floating-point rounding" % (b[1], b[2], lines[:6]),
                    where="%s:%s" % (fn.rel_file, lines[0] if lines else fn.line))
        else:
            rep.ok("R3.3", "clean:%s" % tp, sample={"fn": short(tp)})
    rep.info["family_functions"] = len(fam)
    rep.info["decisions_examined"] = n_dec
    rep.expect_control("R3.3")
    rep.control("R3.3", fired_ctl)


def orient_args(rep, F):
    rep.rule("R3.4", "every argument of an orient2d call in the predicate family (hull code included) is a bit-copy of an input coordinate, not a computed point")
    T = taint_of(F)
    n = 0
    fam = family_fns(_Quiet(), F)
    for rx, floor in HULLS:
        fs = F.find(rx, crates=("geo",))
        rep.floor("R3.4", "hull:%s" % rx[:60], len(fs), floor)
        for f in fs:
            for g in [f] + F.closures_of(f):
                fam.append((g, f))
    seen = set()
    for fn, top in fam:
        if KERNEL_TRUSTED.search(fn.path) or fn.key in seen:
            continue
        seen.add(fn.key)
        tc = {c.bb: ls for c, ls in T.tainted_calls(fn)}
        for c in fn.calls():
            p = c.callee or c.path or ""
            if not (ORIENT.search(p) or ORIENT.search(c.path or "") or re.search(r"qhull::is_ccw$", c.path or "")):
                continue
            n += 1
            ls = tc.get(c.bb)
            if ls and any(ls):
                i = [k for k, s in enumerate(ls) if s][0]
                rep.bad("R3.4", "computed-arg:%s" % top.path, "argument %d of %s is computed (%s): the exact sign of rounded points is not the sign for the true points" % (i, short(c.path), sorted(ls[i])[0]),
                        where="%s:%s" % (fn.rel_file, c.line))
            else:
                rep.ok("R3.4", "%s#bb%d" % (fn.path, c.bb))
    rep.floor("R3.4", "orient2d call sites examined", n, 20)


class _Quiet:
    def floor(self, *a):
        pass


def kernel_dispatch(rep, F):
    rep.rule("R3.5", "every Kernel predicate call in geo is dispatched through the scalar's own kernel (<T as GeoNum>::Ker, a parameter bound to it, "
                     "Self inside the trait, or RobustKernel); robust::orient2d is called only from the kernel module and the collinearity helper")
    n = 0
    ctl = False
    for fn in F.lib_fns(("geo", "geo_verif_roots")):
        preds = None
        top = fn
        while top.kind == "Closure" and top.parent in F.by_key:
            top = F.by_key[top.parent]
        for c in fn.calls():
            if c.trait == "geo::algorithm::kernels::Kernel":
                n += 1
                st = c.self_ty or ""
                ok = False
                if re.match(r"^<\w+ as geo::GeoNum>::Ker$", st) or st == "geo::algorithm::kernels::robust::RobustKernel":
                    ok = True
                elif st == "Self" and KERNEL_TRUSTED.search(fn.path):
                    ok = True
                elif re.match(r"^\w+$", st):
                    preds = top.d.get("preds", [])
                    ok = any(re.match(r"^<\w+ as geo::GeoNum>::Ker == %s$" % re.escape(st), p) for p in preds)
                if fn.crate == "geo_verif_roots":
                    ctl = ctl or not ok
                    continue
                if ok:
                    rep.ok("R3.5", "%s#bb%d" % (fn.path, c.bb))
                else:
                    rep.bad("R3.5", "dispatch:%s" % top.path, "calls %s on `%s`, not on the scalar type's own kernel: float input would be decided by the rounded formula" % (short(c.callee), short(st)),
                            where="%s:%s" % (fn.rel_file, c.line))
            if (c.path or "").startswith("robust::") and fn.crate == "geo":
                if KERNEL_TRUSTED.search(fn.path) or re.search(r"robust_check_points_are_collinear$", top.path):
                    rep.ok("R3.5", "robust-caller:%s" % top.path)
                else:
                    rep.bad("R3.5", "robust-caller:%s" % top.path, "calls %s directly" % c.path, where="%s:%s" % (fn.rel_file, c.line))
    rep.floor("R3.5", "Kernel call sites", n, 25)
    rep.expect_control("R3.5")
    rep.control("R3.5", ctl)


def kernel_rules(rep, F, rule):
    """the orientation kernel every exact predicate of the library stands on, registered under a depending property's own rule id: the binding
    of scalar types to kernels (R3.1), RobustKernel::orient2d = sign of robust::orient2d without a tolerance or pre-filter, SimpleKernel by the
    exact integer sign table, also at magnitudes where f64 rounds (R3.2 / R3.7)"""
    from ..report import Alias
    rep.rule(rule, "the orientation kernel (C03 R3.1 / R3.2 / R3.7): floats -> RobustKernel = sign(robust::orient2d) with no tolerance or pre-filter, arguments passed unmodified; "
                   "integers -> SimpleKernel = the exact sign of the determinant in T, also where f64 would round")
    al = Alias(rep, rule)
    kernel_binding(al, F)
    kernel_bodies(al, F, rule=rule)
    integer_kernel(al, F, rule=rule)


def kernel_sqdist(rep, F, rule="R3.8"):
    """Kernel::square_euclidean_distance (the default body and every override), the tie-break of the Graham scan's angular sort: on witness
    pairs with mixed signs it is (p.x - q.x)^2 + (p.y - q.y)^2 (numeric evaluation of the extracted term)."""
    import itertools
    from ..numeval import NumEval
    from ..evalterm import NoModel
    rep.rule(rule, "Kernel::square_euclidean_distance (default and overrides) = (p.x - q.x)^2 + (p.y - q.y)^2 on mixed-sign witnesses")
    fns = [g for k, g in F.fns.items() if k.endswith("::square_euclidean_distance") and g.crate == "geo"]
    if not fns:
        rep.bad(rule, "sqdist:anchor", "no square_euclidean_distance body found")
        return
    W = [(-3.0, 2.0), (1.0, 5.0), (0.0, 0.0), (4.0, -1.0), (2.5, 2.5)]
    for fn in fns:
        try:
            paths = [p for p in Symex(F, inline_crates=("geo", "geo_types")).run(fn) if p.kind != "cut"]
            bad = None
            for p_, q_ in itertools.product(W, repeat=2):
                ev = NumEval(F, {("arg", 1): {"x": p_[0], "y": p_[1]}, ("arg", 2): {"x": q_[0], "y": q_[1]}})
                hit = ev.select_path(paths)
                got = [float(ev.ev(h.ret)) for h in hit if h.kind == "ret"]
                want = (p_[0] - q_[0]) ** 2 + (p_[1] - q_[1]) ** 2
                if len(got) != 1 or abs(got[0] - want) > 1e-9:
                    bad = "square_euclidean_distance(%s, %s) evaluates to %s, expected %s" % (p_, q_, got, want)
                    break
        except (Unanalysable, NoModel, TypeError, KeyError) as e:
            bad = "cannot be evaluated: %s" % e
        if bad:
            rep.bad(rule, "sqdist:%s" % short(fn.path), bad, where=fn.loc())
        else:
            rep.ok(rule, "sqdist:%s[25 witnesses]" % short(fn.path))
