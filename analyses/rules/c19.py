"""C19 — coordinate traversal, mapping and bounding boxes are mutually consistent.

 R19.1 coords_count(g) = count(coords_iter(g))          (sequence terms, count homomorphism, inductive over members)
 R19.2 exterior_coords_iter(g) is the exterior sub-sequence
 R19.5 bounding_rect: merge fold table of the collections; get_min_max table
 R19.6 Geometry / GeometryCow delegate every method variant-by-variant to the *same* method
 R19.7 extremes: each record is updated under a strict comparison on its own axis and direction and always stores the
       coord and index of the same enumerated item
"""
import re
from ..facts import Facts, short
from ..symex import Symex, Unanalysable, show, show_pc
from ..dispatch import Lam, find_closures
from .c01 import opaque, calls_of

LEVEL = "other"
GT = "geo_types::geometry::"
CI = "geo::algorithm::coords_iter::CoordsIter"
TYPES = ["point::Point", "line::Line", "line_string::LineString", "polygon::Polygon", "multi_point::MultiPoint", "multi_line_string::MultiLineString",
         "multi_polygon::MultiPolygon", "geometry_collection::GeometryCollection", "rect::Rect", "triangle::Triangle"]


def run(rep, tier):
    rep.explanation = ("Sequence terms of every CoordsIter impl (once / chain / copied(iter) / flat_map over members) are normalised and compared "
                       "under the count homomorphism with coords_count, and exterior_coords_iter with the exterior part; enum delegation of every "
                       "trait implemented for Geometry is checked arm by arm; decision/effect tables of the bounding-rect merge fold and of "
                       "extremes. In-place/fallible map_coords siblings and size hints are not yet decided in this revision.")
    rep.trusted = ["rustc MIR", "core iterator adaptor semantics as encoded in the normaliser (analyses/rules/c19.py)"]
    rep.assumptions = ["members satisfy the same laws (induction over the geometry structure)"]
    F = Facts("default")
    coords_terms(rep, F)
    delegation(rep, F)
    bounding_rect(rep, F)
    extremes(rep, F)
    bbox_tables(rep, F)
    traversal_tables(rep, F)
    from . import dims
    dims.run(rep, F, "R19.10")      # is_empty / dimensions: 'None exactly when there are no coordinates' rests on them
    from . import c01 as _c01
    from ..report import Alias as _Alias
    _c01.dimension_tables(_Alias(rep, "R19.10"), F)      # the container folds (dimensions / boundary_dimensions / is_closed over the members; C01 R1.6)
    lines_rule(rep, F)
    map_rule(rep, F)
    # MapCoords for Triangle rebuilds through Triangle::new, which re-orders the vertices by an orientation test: its table, also far from the origin
    from . import gt_tables as _gt
    _gt.run(rep, F, "R19.12", select={"Triangle::new"})
    error_discipline(rep, F)


# ------------------------------------------------------------------ sequence normaliser
def strip(t):
    while isinstance(t, tuple) and t and t[0] in ("&", "deref"):
        t = t[1]
    return t


def vec_name(t):
    """a1.0 / a1.exterior.0 / interiors(a1) ... as a readable access path"""
    return show(strip(t)).replace("&", "").replace("*", "")


def seq(ex, t):
    """-> list of items: ('elem', desc) | ('all', vec) | ('flat', vec, method) ; raises ValueError when not understood"""
    t = strip(t)
    if t[0] == "call":
        name = t[1].rsplit("::", 1)[-1]
        args = t[2]
        if name == "once" and len(args) == 1:
            return [("elem", vec_name(args[0]))]
        if name == "chain":
            return seq(ex, args[0]) + seq(ex, args[1])
        if name in ("copied", "cloned"):
            return seq(ex, args[0])
        if name in ("new", "into_iter") and len(args) == 1 and ("Box" in t[1] or "IntoIterator" in t[1]):
            return seq(ex, args[0])
        if name == "iter" and len(args) == 1:
            return [("all", vec_name(args[0]))]
        if name == "flatten" and len(args) == 1:
            inner = strip(args[0])
            if inner[0] == "adt" and inner[1].endswith("MapCoordsIter"):
                src = seq(ex, inner[3][0])
                if len(src) == 1 and src[0][0] == "all":
                    return [("flat", src[0][1], "coords_iter")]
            if inner[0] == "adt" and inner[1].endswith("MapExteriorCoordsIter"):
                src = seq(ex, inner[3][0])
                if len(src) == 1 and src[0][0] == "all":
                    return [("flat", src[0][1], "exterior_coords_iter")]
            raise ValueError("flatten of %s" % show(inner)[:80])
        if name == "flat_map" and len(args) == 2:
            src = seq(ex, args[0])
            cl = strip(args[1])
            if len(src) == 1 and src[0][0] == "all" and cl[0] == "closure":
                lam = Lam(ex, cl, 1)
                if lam.paths and len(lam.paths) == 1:
                    r = strip(lam.paths[0].ret)
                    if r[0] == "call" and strip(r[2][0]) == ("bound", 0):
                        return [("flat", src[0][1], r[1].rsplit("::", 1)[-1])]
            raise ValueError("flat_map %s" % show(t)[:100])
        if name in ("coords_iter", "exterior_coords_iter") and len(args) == 1:
            who = vec_name(args[0])
            if who == "a1":
                return [("self", name)]
            # a sub-geometry that is a line string (the exterior ring): its own law gives all of its coordinates
            return [("all", who + ".0")]
    raise ValueError("unrecognised sequence term %s" % show(t)[:100])


def count_of_seq(items):
    """count homomorphism -> (constant, sorted list of symbolic summands)"""
    const = 0
    syms = []
    for it in items:
        if it[0] == "elem":
            const += 1
        elif it[0] == "all":
            syms.append("len(%s)" % it[1])
        elif it[0] == "flat":
            m = {"coords_iter": "coords_count", "exterior_coords_iter": "exterior_count"}.get(it[2], it[2])
            syms.append("sum(%s,%s)" % (it[1], m))
    return const, sorted(syms)


def count_expr(ex, t):
    """normalise a usize expression: const, len(v), a+b, sum(map(iter(v), |m| m.coords_count()))"""
    t = strip(t)
    if t[0] == "const":
        return t[1], []
    if t[0] == "len":
        return 0, ["len(%s)" % vec_name(t[1])]
    if t[0] == "bin" and t[1] == "Add":
        a, b = count_expr(ex, t[2]), count_expr(ex, t[3])
        return a[0] + b[0], sorted(a[1] + b[1])
    if t[0] == "call":
        name = t[1].rsplit("::", 1)[-1]
        if name == "len" and len(t[2]) == 1:
            return 0, ["len(%s)" % vec_name(t[2][0])]
        if name == "coords_count" and len(t[2]) == 1:
            # count of a sub-geometry (e.g. the exterior line string): its own law gives len(...)
            return 0, ["len(%s.0)" % vec_name(t[2][0])] if "exterior" in vec_name(t[2][0]) else ["coords_count(%s)" % vec_name(t[2][0])]
        if name == "sum" and len(t[2]) == 1:
            inner = strip(t[2][0])
            if inner[0] == "call" and inner[1].endswith("::map"):
                src = seq(ex, inner[2][0])
                cl = strip(inner[2][1])
                if len(src) == 1 and src[0][0] == "all" and cl[0] == "closure":
                    lam = Lam(ex, cl, 1)
                    if lam.paths and len(lam.paths) == 1:
                        r = strip(lam.paths[0].ret)
                        if r[0] == "call" and strip(r[2][0]) == ("bound", 0):
                            return 0, ["sum(%s,%s)" % (src[0][1], r[1].rsplit("::", 1)[-1])]
                        if r[0] == "len" or (r[0] == "call" and r[1].endswith("::len")):
                            return 0, ["sum(%s,coords_count)" % src[0][1]]
    raise ValueError("unrecognised count expression %s" % show(t)[:100])


def coords_terms(rep, F):
    rep.rule("R19.1", "coords_count(g) equals the number of coordinates coords_iter(g) yields (sequence term under the count homomorphism)")
    rep.rule("R19.2", "exterior_coords_iter(g) is the exterior sub-sequence: the exterior ring for Polygon, flat_map of that for MultiPolygon / collections, everything for the other types")
    ex = Symex(F, no_inline=[r"CoordsIter>::", r"::coords_iter$", r"::coords_count$", r"::exterior_coords_iter$", r"Polygon::<T>::exterior$", r"Polygon::<T>::interiors$"], inline_crates=("geo", "geo_types"))
    n = 0
    for ty in TYPES:
        name = ty.split("::")[-1]
        try:
            fi = F.impl_method(CI, r"^%s%s<T>$" % (GT, ty), None, "coords_iter", crates=("geo",))
            fc = F.impl_method(CI, r"^%s%s<T>$" % (GT, ty), None, "coords_count", crates=("geo",))
            fe = F.impl_method(CI, r"^%s%s<T>$" % (GT, ty), None, "exterior_coords_iter", crates=("geo",))
        except KeyError as e:
            rep.bad("R19.1", name + ":anchor", str(e))
            continue
        try:
            pi = [p for p in ex.run(fi) if p.kind == "ret"]
            pc = [p for p in ex.run(fc) if p.kind == "ret"]
            pe = [p for p in ex.run(fe) if p.kind == "ret"]
            if not (len(pi) == len(pc) == len(pe) == 1):
                raise ValueError("expected single-path bodies (%d/%d/%d)" % (len(pi), len(pc), len(pe)))
            s_iter = seq(ex, pi[0].ret)
            s_ext = seq(ex, pe[0].ret)
            want = count_of_seq(s_iter)
            got = count_expr(ex, pc[0].ret)
        except (Unanalysable, ValueError) as e:
            rep.bad("R19.1", name + ":unanalysable", "cannot normalise the traversal of %s (%s); fail closed" % (name, e), where=fi.loc())
            continue
        n += 1
        # members' own law: sum over members of coords_count
        got_n = (got[0], sorted(x.replace("exterior(a1).0", "a1.exterior.0") for x in got[1]))
        want_n = (want[0], sorted(x.replace("exterior(a1).0", "a1.exterior.0") for x in want[1]))
        if name == "MultiPoint":
            # every member is a Point, whose count is the constant 1 (checked above for Point)
            want_n = (want_n[0], sorted(x.replace("sum(a1.0,coords_count)", "len(a1.0)") for x in want_n[1]))
        if normal(got_n) == normal(want_n):
            rep.ok("R19.1", "count:%s" % name, sample={"type": name, "coords_iter": s_iter, "coords_count": got})
        else:
            rep.bad("R19.1", "count:%s" % name, "coords_count is %s but coords_iter yields %s" % (fmt_count(got_n), fmt_count(want_n)), where=fc.loc())
        # exterior
        if name == "Polygon":
            ok = len(s_ext) == 1 and s_ext[0][0] == "all" and "exterior" in s_ext[0][1]
            exp = "the exterior ring"
        elif name in ("MultiPolygon", "GeometryCollection"):
            ok = len(s_ext) == 1 and s_ext[0][0] == "flat" and s_ext[0][2] == "exterior_coords_iter" and s_ext[0][1] == "a1.0"
            exp = "flat_map(members, exterior_coords_iter)"
        else:
            ok = s_ext == s_iter or s_ext == [("self", "coords_iter")]
            exp = "the same as coords_iter"
        if ok:
            rep.ok("R19.2", "exterior:%s" % name)
        else:
            rep.bad("R19.2", "exterior:%s" % name, "exterior_coords_iter yields %s, expected %s" % (s_ext, exp), where=fe.loc())
    rep.floor("R19.1", "CoordsIter impls normalised", n, 10)
    # MapCoordsIter / MapExteriorCoordsIter adapters map to the right method
    for ad, meth in (("MapCoordsIter", "coords_iter"), ("MapExteriorCoordsIter", "exterior_coords_iter")):
        fs = [f for f in F.find(r"coords_iter::%s<.*> as core::iter::traits::iterator::Iterator>::next$" % ad, crates=("geo",)) if f.kind != "Closure"]
        okk = False
        for f in fs:
            for g in [f] + F.closures_of(f):
                for c in g.calls():
                    if c.method == meth and c.trait == CI:
                        okk = True
                    elif c.trait == CI and c.method in ("coords_iter", "exterior_coords_iter") and c.method != meth:
                        okk = None
        if okk:
            rep.ok("R19.2", "adapter:%s" % ad)
        else:
            rep.bad("R19.2", "adapter:%s" % ad, "%s::next does not map members with %s" % (ad, meth))


def normal(c):
    const, syms = c
    out = []
    for s in syms:
        s = s.replace("exterior(a1)", "a1.exterior").replace("interiors(a1)", "a1.interiors")
        out.append(s)
    return const, sorted(out)


def fmt_count(c):
    return " + ".join([str(c[0])] * (1 if c[0] else 0) + c[1]) or "0"


# ------------------------------------------------------------------ enum delegation
def delegation(rep, F):
    rep.rule("R19.6", "every trait method implemented for the Geometry enum by matching on the variant calls the same-named method on the payload, in every arm")
    gvars = len(F.adts["geo_types::geometry::Geometry"]["variants"])
    n = 0
    for im in F.impls:
        if im["crate"] != "geo" or not im.get("trait") or not re.match(r"^(&'a )?geo_types::geometry::Geometry<\w+>$", im["self_ty"]):
            continue
        tname = im["trait"].rsplit("::", 1)[-1]
        for it in im["items"]:
            if it["kind"] != "AssocFn":
                continue
            fn = F.by_key.get(it["key"])
            if fn is None:
                continue
            try:
                paths = [p for p in opaque(F, budget_s=5).run(fn) if p.kind == "ret"]
            except Unanalysable:
                continue
            arms = []
            for p in paths:
                d = [(t, v) for t, v in p.pc if t[0] == "discr" and show(t[1]).replace("*", "").replace("&", "") in ("a1",)]
                if len(d) != 1 or len(p.pc) != 1:
                    arms = None
                    break
                called = []
                for c in calls_of(p):
                    m = re.search(r" as ([\w:]+?)(<.*>)?>::(\w+)$", c[1]) or re.search(r"<impl ([\w:]+?)(<.*>)? for .*>::(\w+)$", c[1])
                    if m and m.group(1).rsplit("::", 1)[-1] == tname and "as %s" % "" != "":
                        if any("as " in show(a) and "a1" in show(a) for a in c[2][:1]):
                            called.append(m.group(3))
                arms.append((d[0][1], called))
            if not arms or len(arms) < gvars:
                continue
            n += 1
            meth = it["name"]
            wrong = [(k, c) for k, c in arms if c and any(x != meth for x in c)]
            none = [k for k, c in arms if not c]
            key = "%s::%s" % (tname, meth)
            if wrong:
                vn = F.adts["geo_types::geometry::Geometry"]["variants"][wrong[0][0]]["name"]
                rep.bad("R19.6", "delegation:" + key, "the %s arm of <Geometry as %s>::%s calls %s on the payload instead of %s" % (vn, tname, meth, wrong[0][1], meth), where=fn.loc())
            else:
                rep.ok("R19.6", "delegation:" + key)
    rep.floor("R19.6", "delegating Geometry methods", n, 15)


# ------------------------------------------------------------------ bounding rect
def bounding_rect(rep, F):
    """R19.5: GeometryCollection::bounding_rect on collections of 0..3 members (exact unrolling, whatever loop / fold form is used): every
    member's bounding_rect is consulted; the result is None iff no member has one, otherwise the merge of exactly the boxes of the members
    that have one."""
    import itertools
    from ..symex import bare
    rep.rule("R19.5", "collection bounding_rect (0..3 members, exact unrolling): None iff every member's box is None, otherwise bounding_rect_merge over exactly the members that have a box")
    BR = "geo::algorithm::bounding_rect::BoundingRect"
    try:
        fn = F.impl_method(BR, r"^%sgeometry_collection::GeometryCollection<T>$" % GT, None, "bounding_rect", crates=("geo",))
    except KeyError as e:
        rep.bad("R19.5", "gc:anchor", str(e))
        return
    GC = GT + "geometry_collection::GeometryCollection"
    rows = 0
    for k in range(4):
        elems = tuple(("index", ("field", ("deref", ("arg", 1)), "0"), ("const", i)) for i in range(k))
        gc = ("&", ("adt", GC, "GeometryCollection", (("call", "vec!", (("array", elems),)),)))
        ex = Symex(F, no_inline=[r"bounding_rect_merge$", r"BoundingRect<T>>::bounding_rect$", r"::bounding_rect$"], inline_crates=("geo", "geo_types"), loop_bound=k + 3,
                   concrete_iters=True, max_paths=5000)
        try:
            ps = ex.run(fn, args=[gc])
        except Unanalysable as e:
            rep.bad("R19.5", "gc:unanalysable", str(e), where=fn.loc())
            return
        for p in ps:
            if p.kind != "ret":
                rep.bad("R19.5", "gc:path", "a %s path for a collection of %d members [%s]" % (p.kind, k, show_pc(p.pc)[:100]), where=fn.loc())
                return
            have = {}
            for t, v in p.pc:
                b = bare(t)
                m = re.match(r"^discr\((?:into\()?bounding_rect\(a1\.0\[(\d)\]\)\)?\)$", b)
                if m:
                    have[int(m.group(1))] = v
                else:
                    rep.bad("R19.5", "gc:foreign-decision", "the result depends on %s, which is not whether a member has a bounding box" % b[:100], where=fn.loc())
                    return
            rows += 1

            def box(t, hv):
                """value of an Option<Rect> / Rect term: None, or the set of members whose boxes were merged into it"""
                while t[0] in ("&", "deref"):
                    t = t[1]
                if t[0] == "adt" and t[1].endswith("Option"):
                    return None if t[2] == "None" else box(t[3][0], hv)
                if t[0] == "call":
                    nm = t[1].rsplit("::", 1)[-1]
                    if nm == "bounding_rect" and t[2]:
                        m_ = re.match(r"^a1\.0\[(\d)\]$", bare(t[2][0]))
                        if m_:
                            i_ = int(m_.group(1))
                            return frozenset([i_]) if hv[i_] else None
                    if nm in ("into", "from", "clone") and t[2]:
                        return box(t[2][0], hv)
                    if nm == "bounding_rect_merge" and len(t[2]) == 2:
                        a_, b_ = box(t[2][0], hv), box(t[2][1], hv)
                        if a_ is None or b_ is None:
                            raise ValueError("merge of a missing box")
                        return a_ | b_
                if t[0] == "field" and t[2] in ("0", 0) and t[1][0] == "as" and t[1][2] == "Some":
                    v_ = box(t[1][1], hv)
                    if v_ is None:
                        raise ValueError("payload of None")
                    return v_
                raise ValueError("term %s" % bare(t)[:60])
            undecided = [i for i in range(k) if i not in have]
            for fill in itertools.product((0, 1), repeat=len(undecided)):
                hv = dict(have)
                hv.update(dict(zip(undecided, fill)))
                want = frozenset(i for i in range(k) if hv[i]) or None
                try:
                    got = box(p.ret, hv)
                except ValueError as e:
                    got = "unevaluable (%s)" % e
                if got != want:
                    rep.bad("R19.5", "gc:merge-table", "for a collection of %d members of which %s have a box the result is %s, i.e. covers %s: expected the merge of exactly the boxes of the "
                            "members that have one (None if none) — a member without coordinates must not discard or replace the box accumulated so far" % (
                                k, sorted(want) if want else "none", bare(p.ret)[:120], sorted(got) if isinstance(got, frozenset) else got), where=fn.loc())
                    return
    if rows < 15:
        rep.bad("R19.5", "gc:floor", "only %d rows" % rows, where=fn.loc())
    else:
        rep.ok("R19.5", "gc:merge-table[%d rows, 0..3 members]" % rows)


# ------------------------------------------------------------------ extremes
def bbox_tables(rep, F, rule="R19.8", only=None):
    """bounding_rect as min / max of the traversed coordinates, decided on witnesses: bounding_rect_merge(a, b) on pairs of grid rectangles, and
    BoundingRect of Point, Line, Triangle, Rect, LineString / MultiPoint (0..3 coordinates), Polygon (triangle ring), MultiLineString and
    MultiPolygon (two members) on grid coordinates: None exactly for no coordinates, otherwise Rect(min x, min y, max x, max y)."""
    import itertools
    import time
    from ..numeval import NumEval
    from ..evalterm import NoModel, Enum
    rep.rule(rule, "bounding boxes on witnesses: bounding_rect_merge(a, b) is the component-wise min / max of the two boxes; bounding_rect of Point, Line, Triangle, Rect, LineString, MultiPoint (0..3 coordinates), Polygon, MultiLineString, MultiPolygon (two members) is None exactly when there is no coordinate and otherwise (min x, min y)-(max x, max y) of the coordinates")
    BR = "geo::algorithm::bounding_rect::BoundingRect"
    grid = [{"x": x, "y": y} for x in range(3) for y in range(3)]
    sub = [grid[0], grid[5], grid[7], grid[2]]       # (0,0) (1,2) (2,1) (0,2)
    n_ok = 0

    def vec(items):
        return ("call", "vec!", (("array", tuple(items)),))

    def C(i):
        return ("opaque", "c%d" % i)

    def rect_of(v):
        """decode an evaluated Option<Rect> / Rect into ((minx, miny), (maxx, maxy)) | None"""
        if isinstance(v, Enum):
            if v.variant == "None":
                return None
            v = v.payload[0]
        if isinstance(v, dict) and "min" in v:
            return ((v["min"]["x"], v["min"]["y"]), (v["max"]["x"], v["max"]["y"]))
        raise NoModel("not a Rect: %r" % (v,))

    def want_of(cs):
        if not cs:
            return None
        return ((min(c["x"] for c in cs), min(c["y"] for c in cs)), (max(c["x"] for c in cs), max(c["y"] for c in cs)))

    def table(key, fn, args, cases, env_of, coords_of, mem=None):
        nonlocal n_ok
        if only and key.split("[")[0] not in only:
            return
        t0 = time.time()
        try:
            ex = Symex(F, concrete_iters=True, loop_bound=10, inline_crates=("geo", "geo_types"), max_depth=14, max_paths=20000)
            paths = [p for p in ex.run(fn, args=args) if p.kind != "cut"]
        except Unanalysable as e:
            rep.bad(rule, key + ":unanalysable", str(e), where=fn.loc())
            return
        k = 0
        for case in cases:
            ev = NumEval(F, env_of(case))
            try:
                hit = ev.select_path(paths)
                got = sorted(set(("panic",) if h.kind != "ret" else (rect_of(ev.ev(h.ret)),) for h in hit), key=str)
            except (NoModel, TypeError, KeyError, IndexError) as e:
                rep.bad(rule, key + ":non-abstractable", "%s cannot be evaluated on %s: %s" % (key, case, e), where=fn.loc())
                return
            want = want_of(coords_of(case))
            k += 1
            if got != [(want,)]:
                rep.bad(rule, key, "%s on %s evaluates to %s, the coordinates span %s" % (key, [(c["x"], c["y"]) for c in coords_of(case)], [g[0] for g in got], want), where=fn.loc())
                return
        n_ok += 1
        rep.ok(rule, "%s[%d witnesses, %d rows, %.1fs]" % (key, k, len(paths), time.time() - t0))

    def env(case):
        return {C(i): c for i, c in enumerate(case)}
    # the merge helper
    try:
        fn = F.one(r"^geo::algorithm::bounding_rect::bounding_rect_merge$", crates=("geo",))
        RECT = GT + "rect::Rect"
        rects = [(a, b) for a in grid for b in grid if a["x"] <= b["x"] and a["y"] <= b["y"]][::2]
        table("bounding_rect_merge", fn, [("adt", RECT, "Rect", (C(0), C(1))), ("adt", RECT, "Rect", (C(2), C(3)))],
              [r1 + r2 for r1 in rects for r2 in rects], env, lambda case: list(case))
    except KeyError as e:
        rep.bad(rule, "bounding_rect_merge:anchor", str(e))

    def impl(ty):
        return F.impl_method(BR, r"^%s%s<T>$" % (GT, ty), None, "bounding_rect", crates=("geo",))
    LS = GT + "line_string::LineString"
    shapes = [
        ("Point", "point::Point", ("adt", GT + "point::Point", "Point", (C(0),)), 1, grid),
        ("Line", "line::Line", ("adt", GT + "line::Line", "Line", (C(0), C(1))), 2, grid),
        ("Triangle", "triangle::Triangle", ("adt", GT + "triangle::Triangle", "Triangle", (C(0), C(1), C(2))), 3, grid[::2] + [grid[1]]),
    ]
    for n in range(0, 4):
        shapes.append(("LineString/%d" % n, "line_string::LineString", ("adt", LS, "LineString", (vec([C(i) for i in range(n)]),)), n, grid if n < 3 else grid[::2] + [grid[1]]))
    for n in range(0, 3):
        shapes.append(("MultiPoint/%d" % n, "multi_point::MultiPoint", ("adt", GT + "multi_point::MultiPoint", "MultiPoint",
                                                                       (vec([("adt", GT + "point::Point", "Point", (C(i),)) for i in range(n)]),)), n, grid))
    ring = ("adt", LS, "LineString", (vec([C(0), C(1), C(2), C(0)]),))
    shapes.append(("Polygon", "polygon::Polygon", ("adt", GT + "polygon::Polygon", "Polygon", (ring, vec([]))), 3, grid[::2] + [grid[1]]))
    shapes.append(("Polygon/empty", "polygon::Polygon", ("adt", GT + "polygon::Polygon", "Polygon", (("adt", LS, "LineString", (vec([]),)), vec([]))), 0, grid))
    shapes.append(("MultiLineString", "multi_line_string::MultiLineString", ("adt", GT + "multi_line_string::MultiLineString", "MultiLineString",
                   (vec([("adt", LS, "LineString", (vec([C(0), C(1)]),)), ("adt", LS, "LineString", (vec([C(2), C(3)]),))]),)), 4, sub))
    shapes.append(("MultiLineString/0", "multi_line_string::MultiLineString", ("adt", GT + "multi_line_string::MultiLineString", "MultiLineString", (vec([]),)), 0, grid))
    r1 = ("adt", LS, "LineString", (vec([C(0), C(1)]),))       # two coordinates per exterior keep the table small (3 rows per coordinate and axis)
    r2 = ("adt", LS, "LineString", (vec([C(2), C(3)]),))
    shapes.append(("MultiPolygon", "multi_polygon::MultiPolygon", ("adt", GT + "multi_polygon::MultiPolygon", "MultiPolygon",
                   (vec([("adt", GT + "polygon::Polygon", "Polygon", (r1, vec([]))), ("adt", GT + "polygon::Polygon", "Polygon", (r2, vec([])))]),)), 4, sub))
    for key, ty, arg, n, dom in shapes:
        try:
            fn = impl(ty)
        except KeyError as e:
            rep.bad(rule, "%s:anchor" % key, str(e))
            continue
        table("BoundingRect:" + key, fn, [("&", arg)], itertools.product(dom, repeat=n), env, lambda case: list(case))
    # Rect: its own box (min <= max: the invariant of the type)
    try:
        fn = impl("rect::Rect")
        rects = [(a, b) for a in grid for b in grid if a["x"] <= b["x"] and a["y"] <= b["y"]]
        table("BoundingRect:Rect", fn, [("&", ("adt", GT + "rect::Rect", "Rect", (C(0), C(1))))], rects, env, lambda case: list(case))
    except KeyError as e:
        rep.bad(rule, "Rect:anchor", str(e))
    if not only:
        rep.floor(rule, "bounding-box tables", n_ok, 17)


def traversal_tables(rep, F, rule="R19.9"):
    """coords_iter / exterior_coords_iter / coords_count on concrete shapes, empty members included: the iterators are drained step by step
    (helper iterator structs through their own `next`, member calls resolved by the member's concrete type) and compared with the expected
    coordinate sequence: every coordinate in part order for coords_iter, only the exterior rings for exterior_coords_iter, and
    coords_count = the length of the former."""
    from .. import citer
    from ..symex import St
    rep.rule(rule, "coords_iter / exterior_coords_iter / coords_count on concrete shapes (empty members in the middle included), iterators drained step by step: all coordinates in part order; exteriors only; the count equals the number of coordinates yielded")
    CI = "geo::algorithm::coords_iter::CoordsIter"
    ITER = "core::iter::traits::iterator::Iterator"
    LS = GT + "line_string::LineString"

    def vec(items):
        return ("call", "vec!", (("array", tuple(items)),))

    def C(n):
        return ("opaque", n)

    def ls(names):
        return ("adt", LS, "LineString", (vec([C(n) for n in names]),))

    def poly(e, hs):
        return ("adt", GT + "polygon::Polygon", "Polygon", (ls(e), vec([ls(h) for h in hs])))

    def pt(n):
        return ("adt", GT + "point::Point", "Point", (C(n),))

    def next_fn(adt):
        for im in F.impls_of(ITER):
            if im["self_ty"].split("<")[0] == adt and im.get("crate") in ("geo", "geo_types"):
                return F.impl_fn(im, "next")
        return None

    def drain(val):
        out = []
        cur = val
        for _ in range(64):
            nf = next_fn(cur[1]) if cur[0] == "adt" else None
            if nf is not None:
                ex = Symex(F, concrete_iters=True, loop_bound=12, inline_crates=("geo", "geo_types"), max_depth=14)
                ex.live_iter_mut = True
                ex.resolve_by_receiver = True
                ps = [p for p in ex.run(nf, args=[("arg", 1)], mem={("arg", 1): cur}) if p.kind != "cut"]
                if len(ps) != 1 or ps[0].pc or ps[0].kind != "ret":
                    raise Unanalysable("a step of %s forks / panics on a concrete shape: %s" % (short(cur[1]), [show_pc(p.pc)[:80] for p in ps][:2]))
                p = ps[0]
                cur = ex.canon(p.st, p.st.mem.get(("S", ("arg", 1)), cur))
                r = p.ret
                if r[0] != "adt":
                    raise Unanalysable("next() does not return a concrete Option: %s" % show(r)[:80])
                if r[2] == "None":
                    return out
                out.append(r[3][0])
            else:
                ex = Symex(F, concrete_iters=True, loop_bound=12, inline_crates=("geo", "geo_types"), max_depth=14)
                ex.resolve_by_receiver = True
                try:
                    res = list(citer.step(ex, St(), cur))
                except citer.NotConcrete as e:
                    raise Unanalysable(str(e))
                if len(res) != 1:
                    raise Unanalysable("a step forks on a concrete shape")
                st, it, cur = res[0]
                if it is None:
                    return out
                out.append(ex.canon(st, it))
        raise Unanalysable("iterator does not end")

    def names(items):
        out = []
        for it in items:
            m = re.findall(r"opaque\((\w+)\)(\.\w+)?", show(it))
            out.append("".join(m[0]) if len(m) == 1 else show(it)[:40])
        return out
    shapes = [
        ("Point", r"point::Point<T>$", pt("p"), ["p"], ["p"]),
        ("Line", r"line::Line<T>$", ("adt", GT + "line::Line", "Line", (C("s"), C("e"))), ["s", "e"], ["s", "e"]),
        ("Triangle", r"triangle::Triangle<T>$", ("adt", GT + "triangle::Triangle", "Triangle", (C("a"), C("b"), C("c"))), ["a", "b", "c"], ["a", "b", "c"]),
        ("LineString", r"line_string::LineString<T>$", ls(["a", "b", "c"]), ["a", "b", "c"], ["a", "b", "c"]),
        ("LineString/0", r"line_string::LineString<T>$", ls([]), [], []),
        ("Polygon", r"polygon::Polygon<T>$", poly(["a", "b"], [["h"], [], ["i", "j"]]), ["a", "b", "h", "i", "j"], ["a", "b"]),
        ("MultiPoint", r"multi_point::MultiPoint<T>$", ("adt", GT + "multi_point::MultiPoint", "MultiPoint", (vec([pt("p"), pt("q")]),)), ["p", "q"], ["p", "q"]),
        ("MultiLineString", r"multi_line_string::MultiLineString<T>$", ("adt", GT + "multi_line_string::MultiLineString", "MultiLineString", (vec([ls(["a", "b"]), ls([]), ls(["c"])]),)),
         ["a", "b", "c"], ["a", "b", "c"]),
        ("MultiPolygon", r"multi_polygon::MultiPolygon<T>$", ("adt", GT + "multi_polygon::MultiPolygon", "MultiPolygon", (vec([poly(["a", "b"], [["h"]]), poly([], []), poly(["c"], [["i"]])]),)),
         ["a", "b", "h", "c", "i"], ["a", "b", "c"]),
        ("MultiPolygon/0", r"multi_polygon::MultiPolygon<T>$", ("adt", GT + "multi_polygon::MultiPolygon", "MultiPolygon", (vec([]),)), [], []),
    ]
    n_ok = 0
    for key, pat, arg, want_all, want_ext in shapes:
        got = {}
        try:
            for meth in ("coords_iter", "exterior_coords_iter", "coords_count"):
                fn = F.impl_method(CI, r"^%s%s" % (GT, pat), None, meth, crates=("geo",))
                ex = Symex(F, concrete_iters=True, loop_bound=12, inline_crates=("geo", "geo_types"), max_depth=14)
                ex.resolve_by_receiver = True
                ps = [p for p in ex.run(fn, args=[("&", arg)]) if p.kind != "cut"]
                if len(ps) != 1 or ps[0].pc or ps[0].kind != "ret":
                    raise Unanalysable("%s of a concrete %s is not a single value" % (meth, key))
                if meth == "coords_count":
                    r = ps[0].ret
                    if r[0] != "const":
                        raise Unanalysable("coords_count is not a constant on a concrete shape: %s" % show(r)[:80])
                    got[meth] = r[1]
                else:
                    got[meth] = names(drain(ps[0].ret))
        except (KeyError, Unanalysable) as e:
            rep.bad(rule, "traversal:%s:unanalysable" % key, str(e))
            continue
        bad = None
        if got["coords_iter"] != want_all:
            bad = "coords_iter yields %s, expected %s" % (got["coords_iter"], want_all)
        elif got["exterior_coords_iter"] != want_ext:
            bad = "exterior_coords_iter yields %s, expected %s" % (got["exterior_coords_iter"], want_ext)
        elif got["coords_count"] != len(want_all):
            bad = "coords_count is %s, coords_iter yields %d coordinates" % (got["coords_count"], len(want_all))
        if bad:
            rep.bad(rule, "traversal:%s" % key, "%s: %s" % (key, bad), where=fn.loc())
        else:
            n_ok += 1
            rep.ok(rule, "traversal:%s" % key, sample=got["coords_iter"])
    rep.floor(rule, "traversal tables", n_ok, len(shapes))


def extremes(rep, F):
    """R19.7: the blanket Extremes impl on traversals of 0..3 coordinates (the traversal is supplied as a concrete iterator, so `for` loops and
    folds unroll alike); the path table is walked with integer coordinate assignments: None iff the traversal is empty, otherwise every record
    names an index within range, carries the coordinate at that index, and that coordinate attains the bound of its axis and direction."""
    import itertools
    from ..evalterm import Evaluator, Enum, NoModel
    from ..symex import _ret
    rep.rule("R19.7", "extremes (traversals of 0..3 coordinates, exact unrolling, integer witnesses): None iff empty; each of x_min / y_min / x_max / y_max holds (i, coords[i]) with coords[i] attaining that bound")
    try:
        fn = [f for f in F.find(r"extremes::.*::extremes$|extremes::Extremes.*extremes$", crates=("geo",)) if f.kind != "Closure"][0]
    except IndexError:
        rep.bad("R19.7", "anchor", "extremes not found")
        return
    n = 0
    for k in range(4):
        items = tuple(("field", ("arg", 1), "c%d" % i) for i in range(k))

        def model(ex, st, call, args, items=items):
            return _ret(st, ("citer", items, 0))
        ex = Symex(F, models={"geo::algorithm::coords_iter::CoordsIter::exterior_coords_iter": model}, loop_bound=k + 3, inline_crates=("geo",), max_paths=20000, concrete_iters=True)
        try:
            paths = ex.run(fn)
        except Unanalysable as e:
            rep.bad("R19.7", "unanalysable", str(e), where=fn.loc())
            return
        if any(p.kind == "cut" for p in paths):
            rep.bad("R19.7", "unbounded", "extremes does not finish within the exact unrolling of %d coordinates" % k, where=fn.loc())
            return
        vals = range(3)
        for assign in itertools.product(itertools.product(vals, vals), repeat=k):
            coords = [{"x": x, "y": y} for x, y in assign]
            ev = Evaluator(F, {("arg", 1): {"c%d" % i: c for i, c in enumerate(coords)}}, {})
            try:
                hit = ev.select_path([p for p in paths if p.kind != "cut"])
                if len(hit) != 1:
                    rep.bad("R19.7", "table", "coordinates %s select %d rows" % (assign, len(hit)), where=fn.loc())
                    return
                if hit[0].kind != "ret":
                    rep.bad("R19.7", "panic", "extremes panics for coordinates %s" % (assign,), where=fn.loc())
                    return
                out = ev.ev(hit[0].ret)
            except NoModel as e:
                rep.bad("R19.7", "non-abstractable", "a decision of extremes is not a coordinate comparison (%s)" % e, where=fn.loc())
                return
            n += 1
            if k == 0:
                if not (isinstance(out, Enum) and out.variant == "None"):
                    rep.bad("R19.7", "records", "an empty traversal gives %r" % (out,), where=fn.loc())
                    return
                continue
            if not (isinstance(out, Enum) and out.variant == "Some" and isinstance(out.payload[0], dict)):
                rep.bad("R19.7", "records", "coordinates %s give %r" % (assign, out), where=fn.loc())
                return
            rec = out.payload[0]
            for name, axis, pick in (("x_min", "x", min), ("y_min", "y", min), ("x_max", "x", max), ("y_max", "y", max)):
                e_ = rec.get(name)
                idx, c = (e_ or {}).get("index"), (e_ or {}).get("coord")
                bound = pick(cc[axis] for cc in coords)
                if not isinstance(idx, int) or not (0 <= idx < k) or c != coords[idx] or c[axis] != bound:
                    rep.bad("R19.7", "records", "for the traversal %s the record %s is (index %s, coord %s): expected an index whose coordinate attains %s %s = %s" % (
                        list(assign), name, idx, c, "min" if pick is min else "max", axis, bound), where=fn.loc())
                    return
    if n < 700:
        rep.bad("R19.7", "rows", "only %d witness traversals" % n, where=fn.loc())
    else:
        rep.ok("R19.7", "records[%d witness traversals of 0..3 coordinates]" % n)


# ------------------------------------------------------------------------------------------------ R19.3 / R19.4
def _rets(F, fn, **kw):
    return [p for p in opaque(F, loop_bound=1, **kw).run(fn) if p.kind == "ret"]


def lines_rule(rep, F):
    """R19.3: lines_iter on concrete shapes (empty and one-coordinate components in the middle, closed rings, a ring whose last two coordinates
    coincide), the iterator drained step by step through the helper structs' own `next`: for each linear component in traversal order its
    consecutive coordinate pairs, nothing dropped at the end of a component, holes also when the exterior is empty; Rect / Triangle give the
    closed corner walk.  (An earlier form matched the shape of the iterator TERM - `chain(lines_iter(exterior), flatten(MapLinesIter(..)))` -
    which a behaviour-preserving rewrite changes; the drained values decide the same clause.)"""
    from .. import citer
    rep.rule("R19.3", "lines_iter on concrete shapes, drained step by step: for each linear component in traversal order its consecutive coordinate pairs (Line itself; LineString windows of 2; Polygon exterior then "
                      "every interior, also when the exterior is empty; Multi* every member; Rect / Triangle the closed corner walk)")
    LI = "geo::algorithm::lines_iter::LinesIter"

    def vec(items):
        return ("call", "vec!", (("array", tuple(items)),))

    def Cn(n):
        return ("opaque", n)

    def ls(names_):
        return ("adt", GT + "line_string::LineString", "LineString", (vec([Cn(n) for n in names_]),))

    def poly(e, hs):
        return ("adt", GT + "polygon::Polygon", "Polygon", (ls(e), vec([ls(h) for h in hs])))

    def pairs(seq):
        return [(seq[k], seq[k + 1]) for k in range(len(seq) - 1)]
    shapes = [
        ("Line", r"line::Line<T>$", ("adt", GT + "line::Line", "Line", (Cn("s"), Cn("e"))), [("s", "e")]),
        ("Triangle", r"triangle::Triangle<T>$", ("adt", GT + "triangle::Triangle", "Triangle", (Cn("a"), Cn("b"), Cn("c"))), [("a", "b"), ("b", "c"), ("c", "a")]),
        ("LineString/0", r"line_string::LineString<T>$", ls([]), []),
        ("LineString/1", r"line_string::LineString<T>$", ls(["a"]), []),
        ("LineString/4", r"line_string::LineString<T>$", ls(["a", "b", "c", "c"]), pairs(["a", "b", "c", "c"])),
        ("Polygon", r"polygon::Polygon<T>$", poly(["a", "b", "c", "a"], [["h"], [], ["i", "j", "k", "i"]]), pairs(["a", "b", "c", "a"]) + pairs(["i", "j", "k", "i"])),
        ("Polygon/empty-exterior", r"polygon::Polygon<T>$", poly([], [["i", "j", "k", "i"]]), pairs(["i", "j", "k", "i"])),
        ("MultiLineString", r"multi_line_string::MultiLineString<T>$", ("adt", GT + "multi_line_string::MultiLineString", "MultiLineString", (vec([ls(["a", "b"]), ls([]), ls(["c", "d", "e"])]),)),
         pairs(["a", "b"]) + pairs(["c", "d", "e"])),
        ("MultiPolygon", r"multi_polygon::MultiPolygon<T>$", ("adt", GT + "multi_polygon::MultiPolygon", "MultiPolygon", (vec([poly(["a", "b", "a"], [["h", "g", "h"]]), poly([], []), poly(["c", "d", "c"], [])]),)),
         pairs(["a", "b", "a"]) + pairs(["h", "g", "h"]) + pairs(["c", "d", "c"])),
    ]

    def line_names(it):
        txt = show(it)
        # an element read from a window that is itself a concrete array: `get_unchecked(&[opaque(a), opaque(b)], 1)` / `[..][1]` is its k-th element
        def pick(mm):
            elems = re.findall(r"opaque\((\w+)\)", mm.group(1))
            k = int(mm.group(2))
            return "opaque(%s)" % elems[k] if k < len(elems) else mm.group(0)
        for _ in range(4):
            txt2 = re.sub(r"(?:slice::<impl \[T\]>::)?get_unchecked\([&*]*\[([^\]]*)\], (\d+)\)", pick, txt)
            txt2 = re.sub(r"[&*]*\[([^\]]*)\]\[(\d+)\]", pick, txt2)
            if txt2 == txt:
                break
            txt = txt2
        m = re.findall(r"opaque\((\w+)\)", txt)
        return tuple(m) if len(m) == 2 else (txt[:80],)
    n_ok = 0
    for key, pat, arg, want in shapes:
        try:
            fn = F.impl_method(LI, r"^%s%s" % (GT, pat), None, "lines_iter", crates=("geo",))
            ex = Symex(F, concrete_iters=True, loop_bound=12, inline_crates=("geo", "geo_types"), max_depth=14)
            ex.resolve_by_receiver = True
            ex.fold_ground_eq = True
            ex.distinct_opaques = True
            ps = [p for p in ex.run(fn, args=[("&", arg)]) if p.kind != "cut"]
            if len(ps) != 1 or ps[0].pc or ps[0].kind != "ret":
                raise Unanalysable("lines_iter of a concrete %s is not a single value (%d paths)" % (key, len(ps)))
            got = [line_names(it) for it in citer.drain_value(F, ps[0].ret, distinct_opaques=True)]
        except (KeyError, Unanalysable, citer.NotConcrete) as e:
            rep.bad("R19.3", "lines:%s:unanalysable" % key, str(e))
            continue
        if got == [tuple(w) for w in want]:
            n_ok += 1
            rep.ok("R19.3", "lines:%s" % key, sample=got[:4])
        else:
            rep.bad("R19.3", "lines:%s" % key, "%s: lines_iter yields %s, expected %s" % (key, got, [tuple(w) for w in want]), where=fn.loc())
    # Rect: the closed corner walk (value-level table of Rect::to_lines is R18.6 / gt_tables)
    rep.floor("R19.3", "lines_iter tables", n_ok, len(shapes))


def map_rule(rep, F):
    """R19.4: map_coords / try_map_coords / map_coords_in_place / try_map_coords_in_place of every geometry type on concrete shapes with an
    abstract coordinate function (tables shared with C13 R13.10): the result is the shape with every coordinate c replaced by f(c), parts in
    traversal order; the try_ forms agree on the all-Ok run, return f's error otherwise and call f no more after it failed.
    (An earlier form of this rule matched the shape of the result TERM - `new(collect(map(iter(..))))` - and alarmed on behaviour-preserving
    rewrites of these impls as loops or with the helper inlined; the tables decide the same clause on the values.)"""
    from . import mapcoords
    mapcoords.run(rep, F, "R19.4")


def error_discipline(rep, F):
    """R19.4 (fallible in-place variants): once the coordinate function (or a nested try_map_coords_in_place) has returned Err, no further
    part is mapped on that path — so the first error is the one reported and a later success cannot overwrite it."""
    from ..memberfold import subterms
    from ..symex import bare
    MI = "geo::algorithm::map_coords::MapCoordsInPlace"
    n = 0
    for im in F.impls_of(MI):
        if im["crate"] != "geo":
            continue
        fn = F.impl_fn(im, "try_map_coords_in_place")
        if fn is None:
            continue
        name = short(im["self_ty"])
        for g in [fn] + F.closures_of(fn):
            try:
                ps = opaque(F, loop_bound=2, max_paths=20000).run(g)
            except Unanalysable as e:
                rep.bad("R19.4", "try_in_place:unanalysable:" + name, str(e), where=g.loc())
                continue
            bad = None
            for p in ps:
                if p.kind == "cut":
                    continue
                first_err = None
                examined = set()
                for t, v in p.pc:
                    for s_ in subterms(t, []):
                        if s_ and s_[0] == "call" and len(s_) == 4 and (s_[1].endswith("try_map_coords_in_place") or s_[1] == "<indirect>" or s_[1].endswith("::call")):
                            examined.add(s_[3])
                            if t[0] == "discr" and v == 1:
                                first_err = s_[3] if first_err is None else min(first_err, s_[3])
                fallible = [e for e in p.trace if e[0] == "call" and e[3] is not None and (e[1].endswith("try_map_coords_in_place") or e[1] == "<indirect>" or e[1].endswith("::call"))]
                for e in fallible[:-1]:
                    if e[3] not in examined:
                        bad = "the Result of mapping one part is not examined before the next part is mapped (it is overwritten)"
                        break
                if bad:
                    break
                if first_err is None:
                    continue
                for e in fallible:
                    if e[3] > first_err:
                        bad = "after a part failed (%s), another part is still mapped (%s)" % (show_pc(p.pc)[:100], e[1].rsplit("::", 1)[-1])
                        break
                if bad:
                    break
            n += 1
            if bad:
                rep.bad("R19.4", "try_in_place:continues-after-error:" + name, "%s::try_map_coords_in_place: %s: the error of an earlier ring / member can be overwritten by a later success, so the "
                        "in-place variant returns Ok where try_map_coords returns Err" % (name, bad), where=g.loc())
            else:
                rep.ok("R19.4", "try_in_place:stops-at-first-error:%s%s" % (name, "" if g is fn else ":closure"))
    rep.floor("R19.4", "try_map_coords_in_place bodies", n, 10)
