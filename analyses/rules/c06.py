"""C06 — centroid is the centre of mass of the highest-dimensional part (structural clauses).

 R6.1 dimension dominance of WeightedCentroid::add_assign / sub_assign (Less -> replace, Greater -> ignore, Equal -> combine
      `accumulated` and `weight` with the same operator)
 R6.2 add_centroid stores centroid*weight; centroid() = accumulated / weight, None iff nothing was added
 R6.3 early-exit guards compare strictly (`>`) with the dimension of what is being added
 R6.4 dispatch of add_geometry over all variants; zero-area fall-backs go to the lower-dimensional adder
 R6.5 ring moment step (start+end)*det accumulated on shifted segments; centroid = acc/(6*area) + shift, weight |area|
Not decided: numeric accuracy, equivariance in floats, hull containment.
"""
import re
from ..facts import Facts, short
from ..symex import Symex, Unanalysable, show, show_pc, bare
from ..dispatch import Lam, find_closures
from .c01 import opaque, calls_of

LEVEL = "other"
CO = "geo::algorithm::centroid::CentroidOperation"
WC = "geo::algorithm::centroid::WeightedCentroid"


def fn_of(F, owner, name):
    return F.one(r"^%s::<T>::%s$" % (owner, name), crates=("geo",))


def run(rep, tier):
    rep.explanation = ("Decision/effect tables and terms of the centroid accumulator extracted from MIR: dimension dominance, pairing of the two "
                       "accumulators, guards, fall-backs for degenerate input, the shoelace moment step. Numeric accuracy is not decided.")
    rep.trusted = ["rustc MIR", "Area (C05) for the ring area used as weight"]
    rep.assumptions = []
    F = Facts("default")
    dominance(rep, F)
    accumulate(rep, F)
    guards(rep, F)
    fallbacks(rep, F)
    ring_step(rep, F)
    weights(rep, F)


def dominance(rep, F):
    rep.rule("R6.1", "add_assign / sub_assign: lower-dimensional accumulator is replaced, higher one keeps itself, equal dimensions combine accumulated AND weight with the same operator")
    for name, op in (("add_assign", "add"), ("sub_assign", "sub")):
        try:
            fn = fn_of(F, WC, name)
            ex = Symex(F, inline_crates=())
            ps = [p for p in ex.run(fn) if p.kind == "ret"]
        except (KeyError, Unanalysable) as e:
            rep.bad("R6.1", name + ":anchor", str(e))
            continue
        table = {}
        for p in ps:
            d = [(t, v) for t, v in p.pc if t[0] == "discr"]
            if len(d) != 1:
                continue
            t, v = d[0]
            s = bare(t)
            if not re.search(r"cmp\(a1\.dimensions, a2\.dimensions\)", s):
                table["?"] = s
                continue
            final = p.st.mem.get(("S", ("arg", 1)))
            if final is None:
                eff = "nothing"
            else:
                fs = bare(ex.canon(p.st, final))
                if fs == "a2":
                    eff = "replace"
                else:
                    acc = bare(ex.canon(p.st, ex.project(p.st, final, ("field", 1, "accumulated"))))
                    w = bare(ex.canon(p.st, ex.project(p.st, final, ("field", 0, "weight"))))
                    dm = bare(ex.canon(p.st, ex.project(p.st, final, ("field", 2, "dimensions"))))
                    if acc == "%s(a1.accumulated, a2.accumulated)" % op and w == "%s(a1.weight, a2.weight)" % op and dm == "a1.dimensions":
                        eff = "combine"
                    else:
                        eff = "acc=%s w=%s" % (acc[:50], w[:40])
            table[v] = eff
        want = {-1: "replace", 0: "combine", 1: "nothing"}
        if table == want:
            rep.ok("R6.1", name, sample={"Less": "replace", "Equal": "combine(%s)" % op, "Greater": "ignore"})
        else:
            rep.bad("R6.1", name, "dimension dominance table is %s (Less/Equal/Greater = -1/0/1), expected replace / combine with `%s` on both accumulators / nothing" % (table, op), where=fn.loc())


def accumulate(rep, F):
    rep.rule("R6.2", "add_centroid stores (dimensions, weight, centroid*weight); centroid() returns accumulated/weight and None iff nothing was added")
    try:
        fn = fn_of(F, CO, "add_centroid")
        ex = opaque(F)
        ex.watch_adts = {WC}
        ps = [p for p in ex.run(fn) if p.kind == "ret"]
        aggs = [e for p in ps for e in p.trace if e[0] == "agg" and e[1] == WC]
        fields = [f["name"] for f in F.adts[WC]["variants"][0]["fields"]]
        okk = bool(aggs)
        for a in aggs:
            vals = dict(zip(fields, [bare(x) for x in a[3]]))
            if not (vals.get("dimensions") == "a2" and vals.get("weight") == "a4" and vals.get("accumulated") == "mul(a3, a4)"):
                okk = False
                rep.bad("R6.2", "add_centroid", "stores %s, expected dimensions, weight, centroid*weight" % vals, where=fn.loc())
        if okk:
            rep.ok("R6.2", "add_centroid")
        fn = fn_of(F, CO, "centroid")
        ex = Symex(F, inline_crates=("geo",), no_inline=[r"Point.*::from$"])
        ps = [p for p in ex.run(fn) if p.kind == "ret"]
        outs = {}
        for p in ps:
            d = [v for t, v in p.pc if t[0] == "discr"]
            outs[d[0] if d else None] = bare(p.ret)
        good = outs.get(0) == "Option::None()" and re.match(r"^Option::Some\((from\()?(Point::Point\()?div\(.*accumulated, .*weight\)\)*$", outs.get(1, "")) is not None
        if good:
            rep.ok("R6.2", "centroid()", sample=outs)
        else:
            rep.bad("R6.2", "centroid()", "centroid() is %s" % outs, where=fn.loc())
    except (KeyError, Unanalysable, IndexError) as e:
        rep.bad("R6.2", "anchor", str(e))


def guards(rep, F):
    rep.rule("R6.3", "add_line_string / add_multi_line_string skip only when the accumulator is strictly above OneDimensional, add_multi_point only when strictly above ZeroDimensional")
    want = {"add_line_string": "OneDimensional", "add_multi_line_string": "OneDimensional", "add_multi_point": "ZeroDimensional"}
    for name, dim in want.items():
        try:
            fn = fn_of(F, CO, name)
            ps = opaque(F, loop_bound=1).run(fn)
        except (KeyError, Unanalysable) as e:
            rep.bad("R6.3", name + ":anchor", str(e))
            continue
        firsts = set()
        for p in ps:
            if p.pc:
                firsts.add((bare(p.pc[0][0]), ))
        guard = [f[0] for f in firsts]
        exp = "gt(centroid_dimensions(a1), Dimensions::%s())" % dim
        exp2 = "lt(Dimensions::%s(), centroid_dimensions(a1))" % dim
        if guard and all(g in (exp, exp2) for g in guard):
            # the true edge returns without adding
            okk = True
            for p in ps:
                if p.kind == "ret" and p.pc and p.pc[0][1] == 1:
                    if [c for c in calls_of(p) if re.search(r"::add_\w+$", c[1])]:
                        okk = False
            if okk:
                rep.ok("R6.3", name, sample=guard[0])
            else:
                rep.bad("R6.3", name + ":skip-branch", "the skip branch still adds", where=fn.loc())
        else:
            rep.bad("R6.3", name, "the early-exit guard is %s, expected the strict comparison `centroid_dimensions() > %s`: with `>=` contributions of the same dimension would be dropped" % (guard[:2], dim), where=fn.loc())


def fallbacks(rep, F):
    rep.rule("R6.4", "add_geometry dispatches every variant to its adder; zero-area polygons fall back to the outline (add_line_string), zero-area rings to line string / point by their dimensions")
    try:
        fn = fn_of(F, CO, "add_geometry")
        ps = [p for p in opaque(F).run(fn) if p.kind == "ret"]
        gv = [v["name"] for v in F.adts["geo_types::geometry::Geometry"]["variants"]]
        expect = {"Point": "add_coord", "Line": "add_line", "LineString": "add_line_string", "Polygon": "add_polygon", "MultiPoint": "add_multi_point",
                  "MultiLineString": "add_multi_line_string", "MultiPolygon": "add_multi_polygon", "GeometryCollection": "add_geometry_collection",
                  "Rect": "add_rect", "Triangle": "add_triangle"}
        got = {}
        for p in ps:
            d = [v for t, v in p.pc if t[0] == "discr" and isinstance(v, int)]
            adds = [c[1].rsplit("::", 1)[-1] for c in calls_of(p) if re.search(r"::add_\w+$", c[1])]
            if d:
                got[gv[d[0]]] = adds
        bad = {k: got.get(k) for k, v in expect.items() if got.get(k) != [v]}
        if not bad:
            rep.ok("R6.4", "add_geometry[10 variants]")
        else:
            rep.bad("R6.4", "add_geometry", "variant dispatch differs: %s" % bad, where=fn.loc())
    except (KeyError, Unanalysable) as e:
        rep.bad("R6.4", "add_geometry:anchor", str(e))
    try:
        fn = fn_of(F, CO, "add_polygon")
        ps = [p for p in opaque(F, loop_bound=1).run(fn) if p.kind == "ret"]
        seen = False
        okk = True
        for p in ps:
            z = [(t, v) for t, v in p.pc if "is_zero" in bare(t)]
            if z and z[-1][1] == 1:
                seen = True
                adds = [(c[1].rsplit("::", 1)[-1], bare(("call", c[1], c[2]))) for c in calls_of(p) if re.search(r"CentroidOperation::<T>::add_\w+$", c[1])]
                last = adds[-1] if adds else None
                if not last or last[0] != "add_line_string" or not re.search(r"add_line_string\(.*a1.*, exterior\(a2\)\)$", last[1]):
                    okk = False
                    rep.bad("R6.4", "polygon-zero-area-fallback", "a polygon whose holes cancel its exterior falls back to %s instead of the outline add_line_string(exterior)" % (last[0] if last else "nothing"), where=fn.loc())
                    break
                if any(a[0] == "add_weighted_centroid" for a in adds):
                    okk = False
                    rep.bad("R6.4", "polygon-zero-area-double", "the zero-area polygon is also added as an area", where=fn.loc())
                    break
        if not seen:
            rep.bad("R6.4", "polygon-zero-area:no-branch", "no zero-weight branch found", where=fn.loc())
        elif okk:
            rep.ok("R6.4", "polygon-zero-area-fallback")
        fn = fn_of(F, CO, "add_ring")
        ps = [p for p in opaque(F).run(fn) if p.kind == "ret"]
        dn = [v["name"] for v in F.adts["geo::algorithm::dimensions::Dimensions"]["variants"]]
        tbl = {}
        for p in ps:
            atoms = [(bare(t), v) for t, v in p.pc]
            zero = [v for s, v in atoms if re.search(r"get_linestring_area\(a2\) == zero\(\)|eq\(get_linestring_area", s)]
            if not zero or zero[0] != 1:
                continue
            d = [v for t, v in p.pc if t[0] == "discr" and "dimensions(" in bare(t)]
            adds = [c[1].rsplit("::", 1)[-1] for c in calls_of(p) if re.search(r"::add_\w+$", c[1])]
            key = dn[d[0]] if d and isinstance(d[0], int) and d[0] < len(dn) else ("other" if d else "?")
            tbl[key] = adds
        good = tbl.get("Empty") == [] and tbl.get("ZeroDimensional") == ["add_coord"] and all(v == ["add_line_string"] for k, v in tbl.items() if k not in ("Empty", "ZeroDimensional"))
        if good and len(tbl) >= 3:
            rep.ok("R6.4", "ring-zero-area-fallback", sample=tbl)
        else:
            rep.bad("R6.4", "ring-zero-area-fallback", "zero-area ring fall-back table is %s" % tbl, where=fn.loc())
    except (KeyError, Unanalysable) as e:
        rep.bad("R6.4", "fallback:anchor", str(e))


def ring_step(rep, F):
    rep.rule("R6.5", "add_ring: moment step accum + (end+start)*det on segments shifted by ring[0]; centroid = acc/(6*area) + shift; weight = |area|; dimension Two")
    try:
        fn = fn_of(F, CO, "add_ring")
        ex = opaque(F)
        ps = [p for p in ex.run(fn) if p.kind == "ret"]
        main = [p for p in ps if any(c[1].endswith("::add_centroid") for c in calls_of(p))]
        if not main:
            rep.bad("R6.5", "no-area-path", "no path adds an area centroid", where=fn.loc())
            return
        c = [c for c in calls_of(main[0]) if c[1].endswith("::add_centroid")][0]
        dims, cen, w = bare(c[2][1]), bare(c[2][2]), bare(c[2][3])
        okk = dims == "Dimensions::TwoDimensional()" and w == "abs(get_linestring_area(a2))"
        m = re.match(r"^add\(div\(fold\(lines\(a2\), zero\(\), closure\[(.*)\]\), mul\((?:unwrap\(from\(6\)\)|\(from\(6\) as Some\)\.0), get_linestring_area\(a2\)\)\), (.*)\)$", cen)
        if not m or m.group(2) != m.group(1) or not re.match(r"^a2\.0\[0\]$|^index\(a2\.0, 0\)$|^a2\.0\[\d\]$", m.group(2)):
            okk = False
        cls = find_closures(c[2][2], [])
        body = None
        if cls:
            from ..poly import from_term, R, sym
            lam = Lam(Symex(F, inline_crates=("geo", "geo_types")), cls[0], 2)
            if lam.paths and len(lam.paths) == 1 and lam.paths[0].ret[0] == "adt":
                r_ = lam.paths[0].ret
                body = bare(r_)
                try:
                    leaf = lambda x: bare(x)
                    gx, gy = from_term(r_[3][0], leaf), from_term(r_[3][1], leaf)
                    S = lambda n: R(sym(n))
                    sx, sy = S("bound(1).start.x") - S("a2.0[0].x"), S("bound(1).start.y") - S("a2.0[0].y")
                    ex_, ey = S("bound(1).end.x") - S("a2.0[0].x"), S("bound(1).end.y") - S("a2.0[0].y")
                    det = sx * ey - sy * ex_
                    wx = S("bound(0).x") + (ex_ + sx) * det
                    wy = S("bound(0).y") + (ey + sy) * det
                    if not (gx.equals(wx) and gy.equals(wy)):
                        okk = False
                except ValueError:
                    okk = False
            else:
                okk = False
        else:
            okk = False
        if okk:
            rep.ok("R6.5", "ring-moment", sample={"centroid": cen[:120], "step": body[:120]})
        else:
            rep.bad("R6.5", "ring-moment", "ring centroid is %s with weight %s, dimension %s, step %s" % (cen[:140], w, dims, (body or "")[:140]), where=fn.loc())
    except (KeyError, Unanalysable, IndexError) as e:
        rep.bad("R6.5", "anchor", str(e))


def weights(rep, F):
    """R6.6: a centre of mass is a convex combination, so every weight handed to add_centroid must be non-negative by construction and of
    the measure that belongs to the dimension: 0-d -> one(), 1-d -> Euclidean length, 2-d -> unsigned_area(..) or abs(..) of an area."""
    rep.rule("R6.6", "every add_centroid call passes (dimension, centroid, weight) with weight = 1 for points, Euclidean length for lines, unsigned / absolute area for areal parts")
    allowed = {
        "Dimensions::ZeroDimensional()": [r"^one\(\)$"],
        "Dimensions::OneDimensional()": [r"^length\(Euclidean::Euclidean\(\), a2\)$"],
        "Dimensions::TwoDimensional()": [r"^unsigned_area\(a2\)$", r"^abs\(get_linestring_area\(a2\)\)$"],
    }
    seen = {}
    for fn in F.find(r"^%s::<T>::\w+$" % CO, crates=("geo",)):
        try:
            ps = opaque(F, loop_bound=1).run(fn)
        except Unanalysable as e:
            rep.bad("R6.6", "unanalysable:" + short(fn.path), str(e), where=fn.loc())
            continue
        name = fn.path.rsplit("::", 1)[-1]
        for p in ps:
            for c in calls_of(p):
                if c[1].endswith("::add_centroid"):
                    dim, cen, w = (bare(a) for a in c[2][1:4])
                    seen.setdefault((name, dim, w), fn)
    for (name, dim, w), fn in sorted(seen.items(), key=lambda x: x[0]):
        pats = allowed.get(dim)
        if pats and any(re.match(pt, w) for pt in pats):
            rep.ok("R6.6", "%s:%s" % (name, dim.split("::")[-1][:-2]), sample={"adder": name, "dimension": dim, "weight": w})
        else:
            rep.bad("R6.6", "weight:" + name, "%s adds a %s part with weight %s: the weight must be the non-negative measure of that dimension (a signed area makes a clockwise "
                    "part count negatively against the other members of a collection)" % (name, dim.split("::")[-1][:-2], w[:80]), where=fn.loc())
    rep.floor("R6.6", "add_centroid sites", len(seen), 5)
