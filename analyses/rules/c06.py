"""C06 — centroid is the centre of mass of the highest-dimensional part (structural clauses).

 R6.1 dimension dominance of WeightedCentroid::add_assign / sub_assign (Less -> replace, Greater -> ignore, Equal -> combine
      `accumulated` and `weight` with the same operator)
 R6.2 add_centroid stores centroid*weight; centroid() = accumulated / weight, None iff nothing was added
 R6.3 early-exit guards compare strictly (`>`) with the dimension of what is being added
 R6.4 dispatch of add_geometry over all variants; zero-area fall-backs go to the lower-dimensional adder
 R6.5 ring moment step (start+end)*det accumulated on shifted segments; centroid = acc/(6*area) + shift, weight |area|
Not decided: numeric accuracy, equivariance in floats, hull containment.
"""
import re
from ..facts import Facts, short
from ..symex import Symex, Unanalysable, show, show_pc, bare
from ..dispatch import Lam, find_closures
from .c01 import opaque, calls_of

LEVEL = "other"
CO = "geo::algorithm::centroid::CentroidOperation"
WC = "geo::algorithm::centroid::WeightedCentroid"


def fn_of(F, owner, name):
    return F.one(r"^%s::<T>::%s$" % (owner, name), crates=("geo",))


def run(rep, tier):
    rep.explanation = ("Decision/effect tables and terms of the centroid accumulator extracted from MIR: dimension dominance, pairing of the two "
                       "accumulators, guards, fall-backs for degenerate input, the shoelace moment step. Numeric accuracy is not decided.")
    rep.trusted = ["rustc MIR", "Area (C05) for the ring area used as weight"]
    rep.assumptions = []
    F = Facts("default")
    dominance(rep, F)
    accumulate(rep, F)
    guards(rep, F)
    fallbacks(rep, F)
    ring_step(rep, F)
    weights(rep, F)
    # add_triangle / add_rect / add_polygon dispatch degenerate shapes on HasDimensions (tables shared with C01)
    from . import dims
    dims.run(rep, F, "R6.7")
    from . import c05 as _c05
    _c05.offset_witnesses(rep, F, rule="R6.12")      # the weights of areal members are their areas: they must survive a translation by 1e8
    from . import c01 as _c01
    from ..report import Alias as _Alias
    _c01.dimension_tables(_Alias(rep, "R6.7"), F)      # the container folds (dimensions / boundary_dimensions / is_closed over the members; C01 R1.6)
    centroid_tables(rep, F)
    # degenerate shapes are classified with the scalar's own kernel (C03 R3.5): a collinear triangle taken for an areal one gets a zero weight
    from . import c03
    from ..report import Alias as _Alias
    rep.rule("R6.11", "every Kernel predicate call is dispatched through the scalar's own kernel (C03 R3.5): the dimension of a degenerate Triangle / ring is decided exactly")
    c03.kernel_dispatch(_Alias(rep, "R6.11"), F)
    # the weights of areal parts are Area::unsigned_area / signed ring areas: the area rules of C05 are clauses of C06 too
    from . import c05
    from ..report import Alias
    rep.rule("R6.10", "the areas used as weights: collection sums, Polygon signed area, the shoelace ring area, Rect = width*height, Triangle = half the edge determinants, unsigned = |signed| (C05 R5.1-R5.4)")
    c05.area_kernels(Alias(rep, "R6.10"), F)
    from . import gt_tables
    gt_tables.run(rep, F, "R6.8", select={"Line::determinant", "Rect::center", "line_euclidean_length"})


DIMS = ["Empty", "ZeroDimensional", "OneDimensional", "TwoDimensional"]
DADT = "geo::algorithm::dimensions::Dimensions"


class _DimEval:
    pass


def _dim_eval(F, env):
    """ArithEval that also orders Dimensions values (cmp / lt / le / gt / ge / eq on the enum by discriminant)"""
    from ..evalterm import ArithEval, Enum

    class E(ArithEval):
        def call(self, t):
            m = t[1].rsplit("::", 1)[-1]
            if m in ("as_ref", "as_mut", "as_deref") and len(t[2]) == 1:
                return self.ev(t[2][0])
            if m in ("cmp", "partial_cmp", "lt", "le", "gt", "ge", "eq", "ne", "max", "min") and len(t[2]) == 2:
                a, b = self.ev(t[2][0]), self.ev(t[2][1])
                if isinstance(a, int) and isinstance(b, int) and not isinstance(a, bool) and m in ("cmp", "partial_cmp"):
                    o = Enum("core::cmp::Ordering", "Less" if a < b else "Greater" if a > b else "Equal")
                    return o if m == "cmp" else Enum("core::option::Option", "Some", [o])
                if isinstance(a, Enum) and isinstance(b, Enum) and a.variant in DIMS and b.variant in DIMS:
                    x, y = DIMS.index(a.variant), DIMS.index(b.variant)
                    if m == "cmp":
                        return Enum("core::cmp::Ordering", "Less" if x < y else "Greater" if x > y else "Equal")
                    if m == "partial_cmp":
                        return Enum("core::option::Option", "Some", [Enum("core::cmp::Ordering", "Less" if x < y else "Greater" if x > y else "Equal")])
                    if m in ("max", "min"):
                        return a if (x >= y) == (m == "max") else b
                    return {"lt": x < y, "le": x <= y, "gt": x > y, "ge": x >= y, "eq": x == y, "ne": x != y}[m]
            return ArithEval.call(self, t)

        def discr_of(self, e):
            if e.adt.endswith("Ordering"):
                return {"Less": -1, "Equal": 0, "Greater": 1}[e.variant]
            return ArithEval.discr_of(self, e)
    return E(F, env)


def dominance(rep, F):
    """R6.1 by evaluation: for every pair of dimensions (self, other) the final accumulator is computed from the path table on numeric witnesses."""
    from ..evalterm import Enum, NoModel
    rep.rule("R6.1", "add_assign / sub_assign (all 16 dimension pairs, numeric witnesses): lower-dimensional accumulator is replaced, higher one keeps itself, equal dimensions combine accumulated AND weight with the same operator")
    for name, sign in (("add_assign", 1), ("sub_assign", -1)):
        try:
            fn = fn_of(F, WC, name)
            ex = Symex(F, inline_crates=("geo", "geo_types"))
            ps = [p for p in ex.run(fn) if p.kind == "ret"]
        except (KeyError, Unanalysable) as e:
            rep.bad("R6.1", name + ":anchor", str(e))
            continue
        bad = None
        for da in DIMS:
            for db in DIMS:
                A = {"weight": 3, "accumulated": {"x": 5, "y": 7}, "dimensions": Enum(DADT, da)}
                B = {"weight": 11, "accumulated": {"x": 13, "y": 17}, "dimensions": Enum(DADT, db)}
                ev = _dim_eval(F, {("arg", 1): A, ("arg", 2): B})
                try:
                    hit = ev.select_path(ps)
                    if len(hit) != 1:
                        bad = "dimensions (%s, %s) select %d rows" % (da, db, len(hit))
                        break
                    p = hit[0]
                    final = p.st.mem.get(("S", ("arg", 1)))
                    if final is None:
                        got = (A["weight"], A["accumulated"]["x"], A["accumulated"]["y"], da)
                    else:
                        def fld(i_, n_):
                            return ev.ev(ex.canon(p.st, ex.project(p.st, final, ("field", i_, n_))))
                        acc = fld(1, "accumulated")
                        dm = fld(2, "dimensions")
                        got = (fld(0, "weight"), acc["x"], acc["y"], dm.variant if isinstance(dm, Enum) else dm)
                except (NoModel, TypeError, KeyError) as e:
                    bad = "not evaluable for dimensions (%s, %s): %s" % (da, db, e)
                    break
                ia, ib = DIMS.index(da), DIMS.index(db)
                if ia < ib:
                    want = (11, 13, 17, db)
                elif ia > ib:
                    want = (3, 5, 7, da)
                else:
                    want = (3 + sign * 11, 5 + sign * 13, 7 + sign * 17, da)
                if got != want:
                    bad = "self of dimension %s %s other of dimension %s gives (weight, acc.x, acc.y, dim) = %s, expected %s" % (da, "+=" if sign > 0 else "-=", db, got, want)
                    break
            if bad:
                break
        if bad:
            rep.bad("R6.1", name, bad, where=fn.loc())
        else:
            rep.ok("R6.1", name, sample={"Less": "replace", "Equal": "combine", "Greater": "ignore"})


def accumulate(rep, F):
    rep.rule("R6.2", "add_centroid stores (dimensions, weight, centroid*weight); centroid() returns accumulated/weight and None iff nothing was added")
    try:
        fn = fn_of(F, CO, "add_centroid")
        ex = opaque(F)
        ex.watch_adts = {WC}
        ps = [p for p in ex.run(fn) if p.kind == "ret"]
        aggs = [e for p in ps for e in p.trace if e[0] == "agg" and e[1] == WC]
        fields = [f["name"] for f in F.adts[WC]["variants"][0]["fields"]]
        okk = bool(aggs)
        for a in aggs:
            vals = dict(zip(fields, [bare(x) for x in a[3]]))
            if not (vals.get("dimensions") == "a2" and vals.get("weight") == "a4" and vals.get("accumulated") == "mul(a3, a4)"):
                okk = False
                rep.bad("R6.2", "add_centroid", "stores %s, expected dimensions, weight, centroid*weight" % vals, where=fn.loc())
        if okk:
            rep.ok("R6.2", "add_centroid")
        fn = fn_of(F, CO, "centroid")
        ex = Symex(F, inline_crates=("geo",), no_inline=[r"Point.*::from$"])
        ps = [p for p in ex.run(fn) if p.kind == "ret"]
        outs = {}
        for p in ps:
            d = [v for t, v in p.pc if t[0] == "discr"]
            outs[d[0] if d else None] = bare(p.ret)
        good = outs.get(0) == "Option::None()" and re.match(r"^Option::Some\((from\()?(Point::Point\()?div\(.*accumulated, .*weight\)\)*$", outs.get(1, "")) is not None
        if good:
            rep.ok("R6.2", "centroid()", sample=outs)
        else:
            rep.bad("R6.2", "centroid()", "centroid() is %s" % outs, where=fn.loc())
    except (KeyError, Unanalysable, IndexError) as e:
        rep.bad("R6.2", "anchor", str(e))


def guards(rep, F):
    """R6.3 by evaluation: for each accumulator state (nothing yet, or a centroid of dimension d) the adder either returns at once (no call at all)
    or goes on to traverse its input; it must return at once exactly when d is strictly above the dimension of what is being added."""
    from ..evalterm import Enum, NoModel
    rep.rule("R6.3", "add_line_string / add_multi_line_string skip exactly when the accumulator is strictly above OneDimensional, add_multi_point exactly when strictly above ZeroDimensional (evaluated for every accumulator state)")
    want = {"add_line_string": "OneDimensional", "add_multi_line_string": "OneDimensional", "add_multi_point": "ZeroDimensional"}
    for name, dim in want.items():
        try:
            fn = fn_of(F, CO, name)
            ex = Symex(F, inline_crates=("geo", "geo_types"), no_inline=[r"CentroidOperation::<T>::add_\w+$", r"::lines$", r"::iter$", r"HasDimensions>::\w+$", r"::coords$"], loop_bound=1)
            ps = [p for p in ex.run(fn) if p.kind in ("ret", "cut")]
        except (KeyError, Unanalysable) as e:
            rep.bad("R6.3", name + ":anchor", str(e))
            continue
        bad = None
        for acc in [None] + DIMS:
            st0 = Enum("core::option::Option", "None") if acc is None else Enum("core::option::Option", "Some", [{"weight": 1, "accumulated": {"x": 0, "y": 0}, "dimensions": Enum(DADT, acc)}])
            ev = _dim_eval(F, {("arg", 1): {"0": st0}})
            outcomes = set()
            for p in ps:
                okp = True
                for t, v in p.pc:
                    try:
                        val = ev.ev(t)
                    except (NoModel, TypeError, KeyError):
                        continue          # a decision about the input geometry, not about the accumulator
                    if isinstance(val, bool):
                        val = 1 if val else 0
                    if isinstance(val, Enum):
                        val = ev.discr_of(val)
                    if val != v:
                        okp = False
                        break
                if okp:
                    touches = [e for e in p.trace if e[0] == "call" and re.search(r"::(next|into_iter|iter|lines|coords|add_\w+)$", e[1])]
                    outcomes.add("skip" if not touches and p.kind == "ret" else "goes-on")
            exp = "skip" if acc is not None and DIMS.index(acc) > DIMS.index(dim) else "goes-on"
            if outcomes != {exp}:
                bad = "with an accumulator of dimension %s the adder %s, expected it to %s: contributions of the same dimension must not be dropped and higher-dimensional results must not be diluted" % (
                    acc, " / ".join(sorted(outcomes)) or "has no matching path", "return at once" if exp == "skip" else "go on")
                break
        if bad:
            rep.bad("R6.3", name, bad, where=fn.loc())
        else:
            rep.ok("R6.3", name)


def fallbacks(rep, F):
    rep.rule("R6.4", "add_geometry dispatches every variant to its adder; zero-area polygons fall back to the outline (add_line_string), zero-area rings to line string / point by their dimensions")
    try:
        fn = fn_of(F, CO, "add_geometry")
        ps = [p for p in opaque(F).run(fn) if p.kind == "ret"]
        gv = [v["name"] for v in F.adts["geo_types::geometry::Geometry"]["variants"]]
        expect = {"Point": "add_coord", "Line": "add_line", "LineString": "add_line_string", "Polygon": "add_polygon", "MultiPoint": "add_multi_point",
                  "MultiLineString": "add_multi_line_string", "MultiPolygon": "add_multi_polygon", "GeometryCollection": "add_geometry_collection",
                  "Rect": "add_rect", "Triangle": "add_triangle"}
        got = {}
        for p in ps:
            d = [v for t, v in p.pc if t[0] == "discr" and isinstance(v, int)]
            adds = [c[1].rsplit("::", 1)[-1] for c in calls_of(p) if re.search(r"::add_\w+$", c[1])]
            if d:
                got[gv[d[0]]] = adds
        bad = {k: got.get(k) for k, v in expect.items() if got.get(k) != [v]}
        if not bad:
            rep.ok("R6.4", "add_geometry[10 variants]")
        else:
            rep.bad("R6.4", "add_geometry", "variant dispatch differs: %s" % bad, where=fn.loc())
    except (KeyError, Unanalysable) as e:
        rep.bad("R6.4", "add_geometry:anchor", str(e))
    try:
        fn = fn_of(F, CO, "add_polygon")
        ps = [p for p in opaque(F, loop_bound=1).run(fn) if p.kind == "ret"]
        seen = False
        okk = True
        for p in ps:
            z = [(t, v) for t, v in p.pc if "is_zero" in bare(t)]
            if z and z[-1][1] == 1:
                seen = True
                adds = [(c[1].rsplit("::", 1)[-1], bare(("call", c[1], c[2]))) for c in calls_of(p) if re.search(r"CentroidOperation::<T>::add_\w+$", c[1])]
                last = adds[-1] if adds else None
                if not last or last[0] != "add_line_string" or not re.search(r"add_line_string\(.*a1.*, exterior\(a2\)\)$", last[1]):
                    okk = False
                    rep.bad("R6.4", "polygon-zero-area-fallback", "a polygon whose holes cancel its exterior falls back to %s instead of the outline add_line_string(exterior)" % (last[0] if last else "nothing"), where=fn.loc())
                    break
                if any(a[0] == "add_weighted_centroid" for a in adds):
                    okk = False
                    rep.bad("R6.4", "polygon-zero-area-double", "the zero-area polygon is also added as an area", where=fn.loc())
                    break
        if not seen:
            rep.bad("R6.4", "polygon-zero-area:no-branch", "no zero-weight branch found", where=fn.loc())
        elif okk:
            rep.ok("R6.4", "polygon-zero-area-fallback")
        fn = fn_of(F, CO, "add_ring")
        ps = [p for p in opaque(F).run(fn) if p.kind == "ret"]
        dn = [v["name"] for v in F.adts["geo::algorithm::dimensions::Dimensions"]["variants"]]
        tbl = {}
        for p in ps:
            atoms = [(bare(t), v) for t, v in p.pc]
            zero = [v for s, v in atoms if re.search(r"get_linestring_area\(a2\) == zero\(\)|eq\(get_linestring_area", s)]
            if not zero or zero[0] != 1:
                continue
            d = [v for t, v in p.pc if t[0] == "discr" and "dimensions(" in bare(t)]
            adds = [c[1].rsplit("::", 1)[-1] for c in calls_of(p) if re.search(r"::add_\w+$", c[1])]
            key = dn[d[0]] if d and isinstance(d[0], int) and d[0] < len(dn) else ("other" if d else "?")
            tbl[key] = adds
        good = tbl.get("Empty") == [] and tbl.get("ZeroDimensional") == ["add_coord"] and all(v == ["add_line_string"] for k, v in tbl.items() if k not in ("Empty", "ZeroDimensional"))
        if good and len(tbl) >= 3:
            rep.ok("R6.4", "ring-zero-area-fallback", sample=tbl)
        else:
            rep.bad("R6.4", "ring-zero-area-fallback", "zero-area ring fall-back table is %s" % tbl, where=fn.loc())
    except (KeyError, Unanalysable) as e:
        rep.bad("R6.4", "fallback:anchor", str(e))


def ring_step(rep, F):
    """R6.5 on a closed ring of 4 coordinates (exact unrolling, helpers inlined): with A := the ring's signed area, the centroid handed to
    add_centroid must be, as a rational function of the coordinates, the centre of mass Σ (p_i + p_{i+1}) det(p_i, p_{i+1}) / (6 A) — any
    conditioning shift has to cancel — with weight |A| and dimension Two."""
    from ..poly import from_term, R, P, sym, show_poly
    rep.rule("R6.5", "add_ring (closed ring of 4 coordinates, exact unrolling): centroid == Σ (p_i + p_{i+1})·det(p_i, p_{i+1}) / (6·area) as a rational identity; weight = |area|; dimension Two")
    try:
        fn = fn_of(F, CO, "add_ring")
        N = 4
        LS = "geo_types::geometry::line_string::LineString"
        elems = tuple(("index", ("field", ("deref", ("arg", 2)), "0"), ("const", k)) for k in range(N))
        ring = ("&", ("adt", LS, "LineString", (("call", "vec!", (("array", elems),)),)))
        ex = Symex(F, inline_crates=("geo", "geo_types"), no_inline=[r"area::get_linestring_area$", r"CentroidOperation::<T>::add_\w+$", r"HasDimensions>::\w+$", r"is_closed$"],
                   loop_bound=N + 3, concrete_iters=True)
        ps = [p for p in ex.run(fn, args=[("arg", 1), ring]) if p.kind == "ret"]
        main = [p for p in ps if any(c[1].endswith("::add_centroid") for c in calls_of(p))]
        if not main:
            rep.bad("R6.5", "no-area-path", "no path adds an area centroid", where=fn.loc())
            return
        for p in main:
            c = [c for c in calls_of(p) if c[1].endswith("::add_centroid")][0]
            dims, w = bare(c[2][1]), bare(c[2][3])
            cen = c[2][2]

            def leaf(t):
                s_ = bare(t)
                if "get_linestring_area(" in s_:
                    return "AREA"
                return s_.replace("a2.0[%d]" % (N - 1), "a2.0[0]")
            X = lambda k: R(sym("a2.0[%d].x" % (k % (N - 1))))
            Y = lambda k: R(sym("a2.0[%d].y" % (k % (N - 1))))
            area2 = R(P(0))
            mx = R(P(0))
            my = R(P(0))
            for k in range(N - 1):
                det = X(k) * Y(k + 1) - X(k + 1) * Y(k)
                area2 = area2 + det
                mx = mx + (X(k) + X(k + 1)) * det
                my = my + (Y(k) + Y(k + 1)) * det
            A = area2 / R(P(2))
            try:
                if cen[0] == "adt":
                    gx, gy = from_term(cen[3][0], leaf), from_term(cen[3][1], leaf)
                else:
                    gx, gy = from_term(("field", cen, "x"), leaf), from_term(("field", cen, "y"), leaf)
            except ValueError as e:
                rep.bad("R6.5", "ring-moment", "the ring centroid is not a rational function of the coordinates (%s)" % e, where=fn.loc())
                return
            from .c13 import rsubst_r
            gx, gy = rsubst_r(gx, {"AREA": A}), rsubst_r(gy, {"AREA": A})
            wx, wy = mx / (R(P(6)) * A), my / (R(P(6)) * A)
            if not (gx.equals(wx) and gy.equals(wy)) or dims != "Dimensions::TwoDimensional()" or w != "abs(get_linestring_area(a2))".replace("a2", bare(ring)) and not re.match(r"^abs\(get_linestring_area\(.*\)\)$", w):
                rep.bad("R6.5", "ring-moment", "the centroid handed over for a ring is not Σ (p_i + p_{i+1})·det / (6·area) (difference in x: %s), or weight %s / dimension %s are not |area| / Two" % (
                    show_poly((gx - wx).n)[:120], w[:60], dims), where=fn.loc())
                return
        rep.ok("R6.5", "ring-moment[rational identity, 4 coordinates]")
    except (KeyError, Unanalysable, IndexError) as e:
        rep.bad("R6.5", "anchor", str(e))


def weights(rep, F):
    """R6.6: a centre of mass is a convex combination, so every weight handed to add_centroid must be non-negative by construction and of
    the measure that belongs to the dimension: 0-d -> one(), 1-d -> Euclidean length, 2-d -> unsigned_area(..) or abs(..) of an area."""
    rep.rule("R6.6", "every add_centroid call passes (dimension, centroid, weight) with weight = 1 for points, Euclidean length for lines, unsigned / absolute area for areal parts")
    allowed = {
        "Dimensions::ZeroDimensional()": [r"^one\(\)$"],
        "Dimensions::OneDimensional()": [r"^length\(Euclidean::Euclidean\(\), a2\)$"],
        "Dimensions::TwoDimensional()": [r"^unsigned_area\(a2\)$", r"^abs\(get_linestring_area\(a2\)\)$"],
    }
    seen = {}
    for fn in F.find(r"^%s::<T>::\w+$" % CO, crates=("geo",)):
        try:
            ps = opaque(F, loop_bound=1).run(fn)
        except Unanalysable as e:
            rep.bad("R6.6", "unanalysable:" + short(fn.path), str(e), where=fn.loc())
            continue
        name = fn.path.rsplit("::", 1)[-1]
        for p in ps:
            for c in calls_of(p):
                if c[1].endswith("::add_centroid"):
                    dim, cen, w = (bare(a) for a in c[2][1:4])
                    seen.setdefault((name, dim, w), fn)
    for (name, dim, w), fn in sorted(seen.items(), key=lambda x: x[0]):
        pats = allowed.get(dim)
        if pats and any(re.match(pt, w) for pt in pats):
            rep.ok("R6.6", "%s:%s" % (name, dim.split("::")[-1][:-2]), sample={"adder": name, "dimension": dim, "weight": w})
        else:
            rep.bad("R6.6", "weight:" + name, "%s adds a %s part with weight %s: the weight must be the non-negative measure of that dimension (a signed area makes a clockwise "
                    "part count negatively against the other members of a collection)" % (name, dim.split("::")[-1][:-2], w[:80]), where=fn.loc())
    rep.floor("R6.6", "add_centroid sites", len(seen), 5)


def centroid_tables(rep, F):
    """R6.9: Centroid::centroid of the basic types on witnesses, through the extracted path tables (the whole CentroidOperation inlined, exact
    unrolling): Point, Line, Rect, Triangle, LineString (0..3 coordinates), Polygon (triangle ring, possibly degenerate), MultiPoint (0..2).
    Reference = the property's definition: the area-weighted centre of mass if the shape has positive area, else the length-weighted mean
    of the segment midpoints, else the mean of the points; None exactly for empty input."""
    import itertools
    import math
    from ..numeval import NumEval
    from ..evalterm import NoModel, Enum
    rep.rule("R6.9", "Centroid::centroid of Point, Line, Rect, Triangle, LineString (0..3 coordinates), Polygon (one triangular ring) and MultiPoint (0..2) on grid witnesses, degenerate ones included: None exactly for empty input, otherwise the area-weighted centre of mass, else the length-weighted mean of segment midpoints, else the mean of the points")
    CT = "geo::algorithm::centroid::Centroid"
    GT = "geo_types::geometry::"
    grid = [(float(x), float(y)) for x in (0, 1, 3) for y in (0, 2, 3)]

    def vec(items):
        return ("call", "vec!", (("array", tuple(items)),))

    def C(i):
        return ("opaque", "c%d" % i)

    def area2(ring):
        return sum(ring[i][0] * ring[i + 1][1] - ring[i + 1][0] * ring[i][1] for i in range(len(ring) - 1))

    def linear_centroid(segs):
        tot = sum(math.hypot(b[0] - a[0], b[1] - a[1]) for a, b in segs)
        if tot == 0:
            return None
        return (sum(math.hypot(b[0] - a[0], b[1] - a[1]) * (a[0] + b[0]) / 2 for a, b in segs) / tot,
                sum(math.hypot(b[0] - a[0], b[1] - a[1]) * (a[1] + b[1]) / 2 for a, b in segs) / tot)

    def mean(ps):
        return (sum(p[0] for p in ps) / len(ps), sum(p[1] for p in ps) / len(ps)) if ps else None

    def ref_ring(ring):
        """closed ring as an areal shape"""
        a2 = area2(ring)
        if a2 != 0:
            cx = sum((ring[i][0] + ring[i + 1][0]) * (ring[i][0] * ring[i + 1][1] - ring[i + 1][0] * ring[i][1]) for i in range(len(ring) - 1)) / (3 * a2)
            cy = sum((ring[i][1] + ring[i + 1][1]) * (ring[i][0] * ring[i + 1][1] - ring[i + 1][0] * ring[i][1]) for i in range(len(ring) - 1)) / (3 * a2)
            return (cx, cy)
        segs = [(ring[i], ring[i + 1]) for i in range(len(ring) - 1)]
        return linear_centroid(segs) or mean(ring[:1])

    def ref_ls(cs):
        if not cs:
            return None
        segs = [(cs[i], cs[i + 1]) for i in range(len(cs) - 1)]
        return linear_centroid(segs) or cs[0]
    LS = GT + "line_string::LineString"
    shapes = [
        ("Point", "point::Point", ("adt", GT + "point::Point", "Point", (C(0),)), 1, grid, lambda cs: cs[0]),
        ("Line", "line::Line", ("adt", GT + "line::Line", "Line", (C(0), C(1))), 2, grid, lambda cs: ((cs[0][0] + cs[1][0]) / 2, (cs[0][1] + cs[1][1]) / 2)),
        ("Triangle", "triangle::Triangle", ("adt", GT + "triangle::Triangle", "Triangle", (C(0), C(1), C(2))), 3, grid[::2] + [grid[1]], lambda cs: ref_ring(list(cs) + [cs[0]])),
        ("Polygon", "polygon::Polygon", ("adt", GT + "polygon::Polygon", "Polygon", (("adt", LS, "LineString", (vec([C(0), C(1), C(2), C(0)]),)), vec([]))), 3, grid[::2] + [grid[1]],
         lambda cs: ref_ring(list(cs) + [cs[0]])),
    ]
    for n in range(0, 4):
        shapes.append(("LineString/%d" % n, "line_string::LineString", ("adt", LS, "LineString", (vec([C(i) for i in range(n)]),)), n, grid if n < 3 else grid[::2] + [grid[1]], ref_ls))
    for n in range(0, 3):
        shapes.append(("MultiPoint/%d" % n, "multi_point::MultiPoint", ("adt", GT + "multi_point::MultiPoint", "MultiPoint", (vec([("adt", GT + "point::Point", "Point", (C(i),)) for i in range(n)]),)),
                       n, grid, lambda cs: mean(list(cs))))
    n_ok = 0

    def dec(v):
        if isinstance(v, Enum):
            if v.variant == "None":
                return None
            v = v.payload[0]
        if isinstance(v, dict) and "0" in v and isinstance(v["0"], dict):
            v = v["0"]
        return (float(v["x"]), float(v["y"]))

    def table(key, ty, arg, cases, ref, env_of):
        nonlocal n_ok
        try:
            fn = F.impl_method(CT, r"^%s%s<T>$" % (GT, ty), None, "centroid", crates=("geo",))
            ex = Symex(F, concrete_iters=True, loop_bound=10, inline_crates=("geo", "geo_types"), max_depth=16, max_paths=20000, budget_s=60)
            paths = [p for p in ex.run(fn, args=[("&", arg)]) if p.kind != "cut"]
        except (KeyError, Unanalysable) as e:
            rep.bad("R6.9", "centroid:%s:unanalysable" % key, str(e))
            return
        k = 0
        for cs in cases:
            ev = NumEval(F, env_of(cs))
            try:
                hit = ev.select_path(paths)
                if len(hit) != 1 or hit[0].kind != "ret":
                    rep.bad("R6.9", "centroid:%s" % key, "%s %s selects %s" % (key, list(cs), [h.kind for h in hit]), where=fn.loc())
                    return
                got = dec(ev.ev(hit[0].ret))
            except (NoModel, TypeError, KeyError, ValueError, ZeroDivisionError) as e:
                rep.bad("R6.9", "centroid:%s:non-abstractable" % key, "%s cannot be evaluated on %s: %s" % (key, list(cs), e), where=fn.loc())
                return
            want = ref(cs)
            k += 1
            ok = (got is None and want is None) or (got is not None and want is not None and abs(got[0] - want[0]) <= 1e-9 and abs(got[1] - want[1]) <= 1e-9)
            if not ok:
                rep.bad("R6.9", "centroid:%s" % key, "centroid(%s %s) = %s, the centre of mass is %s" % (key, list(cs), got, want), where=fn.loc())
                return
        n_ok += 1
        rep.ok("R6.9", "centroid:%s[%d witnesses]" % (key, k))

    def env(cs):
        return {C(i): {"x": c[0], "y": c[1]} for i, c in enumerate(cs)}
    for key, ty, arg, n, dom, ref in shapes:
        table(key, ty, arg, itertools.product(dom, repeat=n), ref, env)
    # R6.14: the same shapes translated by (1e8, -3e8) - `stays accurate at any offset`: the centroid moves with the geometry (tolerance 1e-6)
    rep.rule("R6.14", "centroid of Point / Line / Triangle / Polygon ring / LineString / MultiPoint / Rect witnesses translated by (1e8, -3e8), numeric evaluation in operation order: the centroid of the untranslated shape plus the offset, within 1e-6")
    OX, OY = 1.0e8, -3.0e8
    n14 = 0
    for key, ty, arg, n, dom, ref in shapes:
        try:
            fn = F.impl_method(CT, r"^%s%s<T>$" % (GT, ty), None, "centroid", crates=("geo",))
            ex = Symex(F, concrete_iters=True, loop_bound=10, inline_crates=("geo", "geo_types"), max_depth=16, max_paths=20000, budget_s=60)
            paths = [p for p in ex.run(fn, args=[("&", arg)]) if p.kind != "cut"]
        except (KeyError, Unanalysable) as e:
            rep.bad("R6.14", "offset-centroid:%s:unanalysable" % key, str(e))
            continue
        bad = None
        cases = list(itertools.product(dom, repeat=n))[::max(1, len(list(itertools.product(dom, repeat=n))) // 40)]
        for cs in cases:
            want = ref(cs)
            tcs = [(c[0] + OX, c[1] + OY) for c in cs]
            ev = NumEval(F, env(tcs))
            try:
                hit = ev.select_path(paths)
                got = dec(ev.ev(hit[0].ret)) if len(hit) == 1 and hit[0].kind == "ret" else "no-row"
            except (NoModel, TypeError, KeyError, ValueError, ZeroDivisionError) as e:
                bad = "cannot be evaluated on %s: %s" % (tcs, e)
                break
            ok = (got is None and want is None) or (isinstance(got, tuple) and want is not None and abs(got[0] - (want[0] + OX)) <= 1e-6 and abs(got[1] - (want[1] + OY)) <= 1e-6)
            if not ok:
                bad = "centroid(%s %s) = %s; the same shape at the origin has the centroid %s, so %s is expected" % (key, tcs, got, want, None if want is None else (want[0] + OX, want[1] + OY))
                break
        if bad:
            rep.bad("R6.14", "offset-centroid:%s" % key, bad, where=fn.loc())
        else:
            n14 += 1
            rep.ok("R6.14", "offset-centroid:%s[%d witnesses]" % (key, len(cases)))
    # Rect: min <= max
    rects = [(a, b) for a in grid for b in grid if a[0] <= b[0] and a[1] <= b[1]]
    table("Rect", "rect::Rect", ("adt", GT + "rect::Rect", "Rect", (C(0), C(1))), rects, lambda cs: ((cs[0][0] + cs[1][0]) / 2, (cs[0][1] + cs[1][1]) / 2), env)
    rep.floor("R6.9", "centroid tables", n_ok, 12)
    # R6.13: a triangle that is NOT collinear (exact determinant 1) but whose area vanishes in doubles: the centroid is still a finite point of its
    # bounding box (the polygon form falls back to the outline, `a polygon of zero area falls back to the centroid of its outline`)
    rep.rule("R6.13", "Triangle::centroid of a numerically flat but not collinear triangle ((0,0), (3,4), (2^51+3, 3002399751580335)): a finite point within the bounding box, as for its polygon form - not 0/0")
    try:
        fn = F.impl_method(CT, r"^%striangle::Triangle<T>$" % GT, None, "centroid", crates=("geo",))
        ex = Symex(F, concrete_iters=True, loop_bound=10, inline_crates=("geo", "geo_types"), max_depth=16, max_paths=20000, budget_s=60)
        paths = [p for p in ex.run(fn, args=[("&", ("adt", GT + "triangle::Triangle", "Triangle", (C(0), C(1), C(2))))]) if p.kind != "cut"]
        cs = [(0.0, 0.0), (3.0, 4.0), (float(2 ** 51 + 3), 3002399751580335.0)]
        ev = NumEval(F, env(cs))
        hit = ev.select_path(paths)
        got = dec(ev.ev(hit[0].ret)) if len(hit) == 1 and hit[0].kind == "ret" else None
        ok = got is not None and all(math.isfinite(v) for v in got) and 0.0 <= got[0] <= cs[2][0] and 0.0 <= got[1] <= cs[2][1]
        if ok:
            rep.ok("R6.13", "thin-triangle", sample=got)
        else:
            rep.bad("R6.13", "thin-triangle", "centroid(Triangle %s) = %s: the triangle is not collinear (exact determinant 1) but its area is 0 in doubles, and the area-weighted mean divides 0 by 0" % (cs, got), where=fn.loc())
    except (KeyError, Unanalysable, NoModel, TypeError, ValueError, ZeroDivisionError) as e:
        rep.bad("R6.13", "thin-triangle:unanalysable", str(e))
