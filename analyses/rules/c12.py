"""C12 — closest and interior points lie on the geometry (structural clauses).

 R12.1 Closest::Intersection(x) is built only under the exact `self.intersects(p)` and x is a copy of p; where that test is
       made and true, Intersection is what is returned
 R12.2 best_of_two table (Indeterminate neutral, Intersection absorbing, nearer point wins, ties keep self); closest_of folds
       from Indeterminate with early exit only on Intersection
 R12.3 interior_point: polygon candidates are vertices of the polygon or are confirmed by relate/intersects before being
       returned; the scan line avoids the y of *every* vertex (all rings)
Not decided: nearest-ness, strict interiority, panic freedom of the sweep.
"""
import re
from ..facts import Facts, short
from ..symex import Symex, Unanalysable, show, show_pc, bare, logging_off
from .c01 import opaque, calls_of

LEVEL = "other"
CP = "geo::algorithm::closest_point::ClosestPoint"
CL = "geo::types::Closest"
GT = "geo_types::geometry::"


def run(rep, tier):
    rep.explanation = ("Path tables of every ClosestPoint impl (calls uninterpreted): provenance and guard of Closest::Intersection, the combination "
                       "table of best_of_two and the fold shape of closest_of; scan-line vertex coverage of interior_point. That the returned point "
                       "is the nearest one, strict interiority and panic freedom of the sweep are data-dependent and not decided.")
    rep.trusted = ["rustc MIR", "Intersects (C02/C03)", "relate (C01)"]
    rep.assumptions = ["valid input geometries"]
    F = Facts("default")
    intersection_rule(rep, F)
    best_of_two(rep, F)
    interior_point(rep, F)
    closest_tables(rep, F, tier)
    scan_line_height(rep, F)
    sweep_neighbours(rep, F)
    ordered_crossing(rep, F)
    # "Intersection(p) exactly when p intersects g": the point-in-geometry kernels that closest_point's guard resolves to (tables shared with C02)
    from . import c02_kernels, c02_linear
    c02_kernels.run(rep, F, tier, only={"Triangle∩Coord", "Line∩Coord", "Rect∩Coord", "ring-step", "polygon-composition"}, rule="R12.4")
    c02_linear.run(rep, F, tier, rule="R12.4")
    # every exact predicate this property rests on is a sign of the orientation kernel (rules shared with C03)
    from . import c03 as _c03
    _c03.kernel_rules(rep, F, "R12.9")
    # closest_of compares Euclidean distances of the candidates: the point kernel must not overflow / underflow (table shared with C07)
    from . import c07 as _c07
    _c07.point_kernel(rep, F, rule="R12.10")


def intersection_rule(rep, F):
    rep.rule("R12.1", "Closest::Intersection is constructed only with a copy of the query point and only where self.intersects(p) holds; an intersecting query never yields SinglePoint")
    n = 0
    for im in F.impls_of(CP):
        if im["crate"] != "geo":
            continue
        fn = F.impl_fn(im, "closest_point")
        if fn is None:
            continue
        name = short(im["self_ty"])
        ex = opaque(F, loop_bound=1, max_paths=5000, budget_s=20)
        ex.watch_adts = {CL}
        try:
            paths = ex.run(fn)
        except Unanalysable as e:
            rep.bad("R12.1", "unanalysable:%s" % name, str(e), where=fn.loc())
            continue
        built = False
        problems = []
        for p in paths:
            if p.kind != "ret":
                continue
            atoms = [(bare(t), v) for t, v in p.pc]
            inter = [v for s, v in atoms if re.match(r"^intersects\(a1, a2\)$", s)]
            same = any(s in ("(a1 == a2)", "(a2 == a1)", "eq(a1, a2)") and v == 1 for s, v in atoms)   # Point: p == self is the exact test
            for e in p.trace:
                if e[0] == "agg" and e[1] == CL and e[2] == "Intersection":
                    built = True
                    payload = bare(e[3][0])
                    if same and payload in ("a1", "a2"):
                        continue
                    if payload != "a2":
                        problems.append(("payload", "Closest::Intersection carries %s, not a copy of the query point p: the caller can receive a rounded point that is not p" % payload[:100]))
                    if not any(v == 1 for v in inter):
                        problems.append(("guard", "Closest::Intersection is built on a path where self.intersects(p) was not found true [%s]" % show_pc(p.pc)[:120]))
            differ = any(s in ("(a1 == a2)", "(a2 == a1)", "eq(a1, a2)") and v == 0 for s, v in atoms)
            for e in p.trace:
                # a SinglePoint that is a copy of an end point of self is the clamped case (p projects outside the segment; for a p on the segment the
                # monotone rounding of the projection parameter keeps it within [0, 1]); a COMPUTED point needs the exact negative test
                if e[0] == "agg" and e[1] == CL and e[2] == "SinglePoint" and not re.match(r"^(into\()?a1(\.start|\.end)?\)?$", bare(e[3][0])) \
                        and not (any(v == 0 for v in inter) or differ):
                    problems.append(("single-without-test", "Closest::SinglePoint is built on a path that never found self.intersects(p) false [%s]: a query point lying exactly on the geometry "
                                     "whose rounded projection differs from it is reported as SinglePoint instead of Intersection(p)" % show_pc(p.pc)[:140]))
            if any(v == 1 for v in inter):
                r = p.ret
                if not (r[0] == "adt" and r[1] == CL and r[2] == "Intersection"):
                    problems.append(("not-intersection", "p intersects the geometry but %s is returned" % bare(r)[:80]))
        n += 1
        if problems:
            kinds = {}
            for k, m in problems:
                kinds.setdefault(k, m)
            for k, m in kinds.items():
                rep.bad("R12.1", "%s:%s" % (k, name), "%s::closest_point: %s" % (name, m), where=fn.loc())
        else:
            rep.ok("R12.1", "closest_point:%s%s" % (name, "" if built else " (delegates)"))
    rep.floor("R12.1", "ClosestPoint impls", n, 12)


def best_of_two(rep, F):
    rep.rule("R12.2", "best_of_two: Indeterminate is neutral, Intersection absorbing, otherwise the point with the smaller distance to p (ties keep self); closest_of starts from Indeterminate and leaves early only on Intersection")
    try:
        fn = F.one(r"^geo::types::Closest::<F>::best_of_two$", crates=("geo",))
        ps = [p for p in opaque(F).run(fn) if p.kind == "ret"]
    except (KeyError, Unanalysable) as e:
        rep.bad("R12.2", "anchor", str(e))
        return
    names = [v["name"] for v in F.adts[CL]["variants"]]
    table = {}
    for p in ps:
        ds = {}
        cmpv = None
        for t, v in p.pc:
            s = bare(t)
            if t[0] == "discr" and s == "discr(a1)":
                ds["self"] = names[v] if isinstance(v, int) and v < len(names) else "SinglePoint"
            elif t[0] == "discr" and s == "discr(a2)":
                ds["other"] = names[v] if isinstance(v, int) and v < len(names) else "SinglePoint"
            elif "distance(" in s:
                cmpv = (s, v)
        out = bare(p.ret)
        key = (ds.get("self"), ds.get("other"), None if cmpv is None else cmpv[1])
        table[key] = (out, cmpv[0] if cmpv else None)
    problems = []
    for (s_, o_, c_), (out, cs) in table.items():
        if s_ == "Indeterminate":
            want = "a2"
        elif s_ == "Intersection":
            want = "a1"
        elif o_ == "Indeterminate":
            want = "a1"
        elif o_ == "Intersection":
            want = "a2"
        else:
            if cs is None or not re.match(r"^le\(distance\(.*\(a1 as SinglePoint\)\.0, a3\), distance\(.*\(a2 as SinglePoint\)\.0, a3\)\)$|^\(distance\(.*a1.*\) <= distance\(.*a2.*\)\)$", cs):
                problems.append("two single points are not compared by distance(left, p) <= distance(right, p): %s" % cs)
                continue
            want = "a1" if c_ == 1 else "a2"
        if out != want:
            problems.append("best_of_two(%s, %s%s) returns %s, expected %s" % (s_, o_, "" if c_ is None else ", left<=right=%s" % c_, out, {"a1": "self", "a2": "other"}[want]))
    if len(table) < 6:
        problems.append("table has only %d rows" % len(table))
    if problems:
        rep.bad("R12.2", "best_of_two", problems[0], where=fn.loc())
    else:
        rep.ok("R12.2", "best_of_two[%d rows]" % len(table))
    # closest_of on three candidates (exact unrolling, any loop / fold / try_fold form): B_0 = Indeterminate, B_k = best_of_two(closest_point(item_k), B_{k-1});
    # the result is B_k for the first k at which B_k is an Intersection, otherwise B_3
    try:
        fn = F.one(r"^geo::algorithm::closest_point::closest_of$", crates=("geo",))
        K = 3
        items = ("&", ("array", tuple(("index", ("arg", 1), ("const", k)) for k in range(K))))
        ex = Symex(F, inline_crates=("geo", "geo_types"), no_inline=[r"best_of_two$", r"ClosestPoint.*::closest_point$"], loop_bound=K + 4, concrete_iters=True)
        ps = ex.run(fn, args=[items, ("arg", 2)])
        B = ["Closest::Indeterminate()"]
        for k in range(K):
            B.append("best_of_two(closest_point(a1[%d], a2), %s, a2)" % (k, B[-1]))
        inter = names.index("Intersection")
        bad = None
        seen_early = False
        for p in ps:
            if p.kind != "ret":
                bad = "a %s path" % p.kind
                break
            r = bare(p.ret)
            dd = {}
            for t, v in p.pc:
                b = bare(t)
                m_ = re.match(r"^discr\((best_of_two\(.*\))\)$", b)
                if not m_ or m_.group(1) not in B:
                    bad = "closest_of decides on `%s`, which is not whether the best so far is an Intersection" % b[:120]
                    break
                dd[B.index(m_.group(1))] = (v == inter) if isinstance(v, int) else False
            if bad:
                break
            first_int = min([k for k, is_i in dd.items() if is_i], default=None)
            want = B[first_int] if first_int is not None else B[K]
            if first_int is not None and first_int < K:
                seen_early = True
            if r != want:
                bad = "with the best-so-far being an Intersection first after candidate %s the result is %s, expected %s" % (first_int, r[:100], want[:100])
                break
        if bad is None and not seen_early:
            bad = "no early exit on Intersection"
        if bad:
            rep.bad("R12.2", "closest_of", "closest_of over three candidates: %s (it must fold best_of_two from Indeterminate in order and stop exactly at the first Intersection)" % bad, where=fn.loc())
        else:
            rep.ok("R12.2", "closest_of[%d rows, 3 candidates]" % len(ps))
    except (KeyError, Unanalysable) as e:
        rep.bad("R12.2", "closest_of:anchor", str(e))


def interior_point(rep, F):
    rep.rule("R12.3", "polygon interior point: the scan line's y is chosen against the y of every vertex of every ring (coords_iter, not only the exterior); candidates are confirmed with relate/intersects or are polygon vertices")
    try:
        fn = F.one(r"^geo::algorithm::interior_point::polygon_interior_point_with_segment_length$", crates=("geo",))
    except KeyError as e:
        rep.bad("R12.3", "anchor", str(e))
        return
    users = {"coords_iter": 0, "exterior_coords_iter": 0}
    from ..idioms import call_scope
    sf, sc = call_scope(F, fn, "geo::algorithm::interior_point::", stop=("::interior_point",))
    for g in sf + sc:
        for c in g.calls():
            if c.trait == "geo::algorithm::coords_iter::CoordsIter" and c.method in users and "Polygon" in (c.self_ty or ""):
                users[c.method] += 1
    if users["exterior_coords_iter"]:
        rep.bad("R12.3", "scanline-vertices", "the scan-line height is chosen by looking only at exterior vertices (%d use(s) of exterior_coords_iter): it can run along a horizontal hole edge, whose midpoint is on the boundary" % users["exterior_coords_iter"], where=fn.loc())
    elif users["coords_iter"] >= 2:
        rep.ok("R12.3", "scanline-vertices[%d traversals of all rings]" % users["coords_iter"])
    else:
        rep.bad("R12.3", "scanline-vertices:floor", "expected the vertex scan over all rings (coords_iter) twice, found %s" % users, where=fn.loc())
    # returned candidates are checked
    checked = False
    for g in sf + sc:
        for c in g.calls():
            if (c.path or "").endswith("IntersectionMatrix::is_intersects") or c.method == "intersects" or c.method == "relate":
                checked = True
    if checked:
        rep.ok("R12.3", "candidate-confirmed")
    else:
        rep.bad("R12.3", "candidate-unchecked", "the scan-line candidate is returned without an intersects/relate confirmation", where=fn.loc())


def closest_tables(rep, F, tier="quick"):
    """R12.5: ClosestPoint::closest_point of the basic types on witnesses, through the extracted path tables (exact unrolling; nested
    closest_point calls of members are answered by the member type's own table, intersects() by exact reference geometry):
      Intersection(p) exactly when p lies on the geometry (payload p); otherwise SinglePoint(c) with c on the geometry and |c - p| equal to
      the minimum distance; Indeterminate only for empty or zero-length input."""
    import itertools
    import math
    from ..numeval import NumEval, seg_dist, on_seg, orient
    from ..evalterm import NoModel, Enum
    rep.rule("R12.5", "closest_point of Point, Line, LineString (0..3 coordinates), Triangle, Rect, Polygon (one triangular ring), MultiPoint (0..2) on grid witnesses: Intersection(p) exactly when p is on the geometry, otherwise SinglePoint(c) with c on the geometry at the minimum distance from p; Indeterminate only for empty or zero-length input")
    GT = "geo_types::geometry::"
    LS = GT + "line_string::LineString"
    grid = [(float(x), float(y)) for x in (0, 1, 3) for y in (0, 2, 3)]
    queries = [(float(x), float(y)) for x in (-1, 0, 2, 4) for y in (-1, 0, 2.5)] + [(1.0, 2.0), (0.5, 1.0)]
    if tier == "quick":
        queries = [(-1.0, -1.0), (0.0, 0.0), (2.0, 2.5), (4.0, 0.0), (1.0, 2.0), (0.5, 1.0), (0.0, 2.5), (2.0, -1.0)]

    def vec(items):
        return ("call", "vec!", (("array", tuple(items)),))

    def C(i):
        return ("opaque", "c%d" % i)
    Q = ("&", ("adt", GT + "point::Point", "Point", (("opaque", "q"),)))
    tables = {}

    def table(kind, n=None):
        key = (kind, n)
        if key in tables:
            return tables[key]
        if kind == "Point":
            ty, arg = "point::Point", ("adt", GT + "point::Point", "Point", (C(0),))
        elif kind == "Line":
            ty, arg = "line::Line", ("adt", GT + "line::Line", "Line", (C(0), C(1)))
        elif kind == "LineString":
            ty, arg = "line_string::LineString", ("adt", LS, "LineString", (vec([C(i) for i in range(n)]),))
        elif kind == "Triangle":
            ty, arg = "triangle::Triangle", ("adt", GT + "triangle::Triangle", "Triangle", (C(0), C(1), C(2)))
        elif kind == "Rect":
            ty, arg = "rect::Rect", ("adt", GT + "rect::Rect", "Rect", (C(0), C(1)))
        elif kind == "Polygon":
            ty, arg = "polygon::Polygon", ("adt", GT + "polygon::Polygon", "Polygon", (("adt", LS, "LineString", (vec([C(i) for i in range(n)]),)), vec([])))
        elif kind == "MultiPoint":
            ty, arg = "multi_point::MultiPoint", ("adt", GT + "multi_point::MultiPoint", "MultiPoint", (vec([("adt", GT + "point::Point", "Point", (C(i),)) for i in range(n)]),))
        fn = F.impl_method(CP, r"^%s%s<F>$" % (GT, ty), None, "closest_point", crates=("geo",))
        ex = Symex(F, concrete_iters=True, loop_bound=10, inline_crates=("geo", "geo_types"), max_depth=16, max_paths=20000, budget_s=60, no_inline=[r"Intersects<.*>>::intersects$", r"::intersects$"])
        tables[key] = (fn, [p for p in ex.run(fn, args=[("&", arg), Q]) if p.kind != "cut"])
        return tables[key]

    def coords_of(v):
        """witness value -> (kind, n, list of coordinate dicts)"""
        if isinstance(v, dict) and "start" in v:
            return "Line", None, [v["start"], v["end"]]
        if isinstance(v, dict) and "exterior" in v:
            cs = v["exterior"]["0"]
            return "Polygon", len(cs), cs
        if isinstance(v, dict) and "min" in v:
            return "Rect", None, [v["min"], v["max"]]
        if isinstance(v, dict) and "0" in v and isinstance(v["0"], dict) and "x" in v["0"]:
            return "Point", None, [v["0"]]
        if isinstance(v, dict) and "0" in v and isinstance(v["0"], list):
            items = v["0"]
            if items and isinstance(items[0], dict) and "0" in items[0] and "x" not in items[0]:
                return "MultiPoint", len(items), [i["0"] for i in items]
            return "LineString", len(items), items
        if isinstance(v, dict) and "1" in v and "2" in v:
            return "Triangle", None, [v["0"], v["1"], v["2"]]
        raise NoModel("shape of %r" % (v,))

    def segs_of(kind, cs):
        P = [(c["x"], c["y"]) for c in cs]
        if kind in ("Point", "MultiPoint"):
            return [(p, p) for p in P], False
        if kind == "Line":
            return [(P[0], P[1])], False
        if kind == "LineString":
            return ([(P[i], P[i + 1]) for i in range(len(P) - 1)] or [(p, p) for p in P[:1]]), False
        if kind == "Triangle":
            return [(P[0], P[1]), (P[1], P[2]), (P[2], P[0])], True
        if kind == "Rect":
            a, b = P
            c = [(a[0], a[1]), (b[0], a[1]), (b[0], b[1]), (a[0], b[1])]
            return [(c[i], c[(i + 1) % 4]) for i in range(4)], True
        if kind == "Polygon":
            return [(P[i], P[i + 1]) for i in range(len(P) - 1)], True
        raise NoModel(kind)

    def D(p):
        return {"x": p[0], "y": p[1]}

    def ptxy(v):
        while isinstance(v, dict) and "0" in v and "x" not in v:
            v = v["0"]
        return v

    def inside_area(kind, cs, q):
        """q strictly inside the areal shape (convex witnesses: triangle / rect)"""
        segs, areal = segs_of(kind, cs)
        if not areal:
            return False
        if kind == "Rect":
            (ax, ay), (bx, by) = (cs[0]["x"], cs[0]["y"]), (cs[1]["x"], cs[1]["y"])
            return ax < q[0] < bx and ay < q[1] < by
        P = [(c["x"], c["y"]) for c in cs][:3]
        o = [orient(D(P[i]), D(P[(i + 1) % 3]), D(q)) for i in range(3)]
        return (all(x > 0 for x in o) or all(x < 0 for x in o))

    def ref(kind, cs, q):
        segs, areal = segs_of(kind, cs)
        if not segs:
            return "Indeterminate", None
        on = any(on_seg(D(q), D(a), D(b)) for a, b in segs) or inside_area(kind, cs, q)
        if on:
            return "Intersection", 0.0
        return "SinglePoint", min(seg_dist(D(q), D(a), D(b)) for a, b in segs)

    class Ev(NumEval):
        def call(self, t):
            m = t[1].rsplit("::", 1)[-1]
            a = t[2]
            if m == "closest_point" and len(a) == 2:
                g = self.ev(a[0])
                q = self.ev(a[1])
                return closest(g, q)
            if m == "intersects" and len(a) == 2:
                g = self.ev(a[0])
                q = self.ev(a[1])
                qc = ptxy(q)
                kind, n, cs = coords_of(g)
                return ref(kind, cs, (qc["x"], qc["y"]))[0] == "Intersection"
            return NumEval.call(self, t)

    def closest(g, q):
        kind, n, cs = coords_of(g)
        fn, paths = table(kind, n)
        env = {C(i): c for i, c in enumerate(cs)}
        qc = ptxy(q)
        env[("opaque", "q")] = qc
        ev = Ev(F, env)
        hit = ev.select_path(paths)
        if len(hit) != 1 or hit[0].kind != "ret":
            raise NoModel("closest_point(%s) selects %s" % (kind, [h.kind for h in hit]))
        return ev.ev(hit[0].ret)

    def mk(kind, cs):
        cd = [D(c) for c in cs]
        if kind == "Point":
            return {"0": cd[0]}
        if kind == "Line":
            return {"start": cd[0], "end": cd[1]}
        if kind == "LineString":
            return {"0": cd}
        if kind == "Triangle":
            return {"0": cd[0], "1": cd[1], "2": cd[2]}
        if kind == "Rect":
            return {"min": cd[0], "max": cd[1]}
        if kind == "Polygon":
            return {"exterior": {"0": cd + [cd[0]]}, "interiors": []}
        if kind == "MultiPoint":
            return {"0": [{"0": c} for c in cd]}
    sub = grid[::2] + [grid[1]]
    sub2 = sub + [(3.0, 3.0), (0.0, 2.0)]
    tri = sub if tier == "thorough" else sub[:3] + [(3.0, 3.0)]
    plan = [("Point", 1, grid), ("Line", 2, sub2), ("LineString", 0, grid), ("LineString", 1, grid), ("LineString", 2, sub), ("LineString", 3, sub),
            ("Triangle", 3, tri), ("Polygon", 3, tri), ("MultiPoint", 0, grid), ("MultiPoint", 1, grid), ("MultiPoint", 2, sub)]
    n_ok = 0
    for kind, n, dom in plan + [("Rect", 2, None)]:
        key = "%s/%d" % (kind, n)
        cases = [c for c in itertools.product(grid, repeat=2) if c[0][0] <= c[1][0] and c[0][1] <= c[1][1]] if kind == "Rect" else itertools.product(dom, repeat=n)
        bad = None
        k = 0
        try:
            if kind == "Line":
                # a point that is exactly on the segment in floating point while its computed projection is not bit-identical to it
                cases = list(cases) + [((0.0, 0.0), (10.0, 10.0))]
            for cs in cases:
                if kind in ("Triangle", "Polygon") and orient(D(cs[0]), D(cs[1]), D(cs[2])) == 0:
                    continue       # degenerate areal shapes: the reference for "inside" is ambiguous; the linear types cover the segment logic
                g = mk(kind, cs)
                for q in (queries if cs != ((0.0, 0.0), (10.0, 10.0)) else [(0.007, 0.007), (3.3, 3.3), (0.007, 0.0071)]):
                    r = closest(g, {"0": D(q)})
                    if not isinstance(r, Enum):
                        raise NoModel("result %r" % (r,))
                    kind_r, n_r, cs_r = coords_of(g)
                    want, dmin = ref(kind_r, cs_r, q)
                    k += 1
                    zero_length = kind in ("Line", "LineString", "Rect") and len(set(cs)) <= 1
                    if want == "Indeterminate":
                        ok = r.variant == "Indeterminate"
                    elif zero_length and r.variant == "Indeterminate":
                        ok = True          # "Indeterminate only for empty or zero-length input": allowed here
                    elif want == "Intersection":
                        pay = ptxy(r.payload[0]) if r.payload else None
                        ok = r.variant == "Intersection" and pay is not None and (pay["x"], pay["y"]) == q
                    else:
                        if r.variant == "Indeterminate":
                            ok = False
                        else:
                            pay = ptxy(r.payload[0]) if r.payload else None
                            segs, _ = segs_of(kind_r, cs_r)
                            ok = (r.variant == "SinglePoint" and pay is not None and abs(math.hypot(pay["x"] - q[0], pay["y"] - q[1]) - dmin) <= 1e-9
                                  and min(seg_dist(pay, D(a), D(b)) for a, b in segs) <= 1e-9)
                    if not ok:
                        bad = "closest_point(%s %s, %s) = %s; %s" % (kind, list(cs), q, r, "the point is on the geometry" if want == "Intersection" else "expected %s%s" % (want, "" if dmin is None else " at distance %.6g" % dmin))
                        break
                if bad:
                    break
        except (NoModel, TypeError, KeyError, ValueError, IndexError, Unanalysable) as e:
            import traceback
            bad = "cannot be evaluated: %s %s" % (e, traceback.format_exc()[-400:].replace("\n", " | "))
        if bad:
            rep.bad("R12.5", "closest:%s" % key, bad, where=table(kind, n + 1 if kind == "Polygon" else (n if kind in ("LineString", "MultiPoint") else None))[0].loc() if (kind, n) in tables or True else None)
        else:
            n_ok += 1
            rep.ok("R12.5", "closest:%s[%d witnesses]" % (key, k))
    rep.floor("R12.5", "closest_point tables", n_ok, 12)


def scan_line_height(rep, F):
    """R12.6: the height of the polygon interior point's scan line, as a polynomial in the bounding box and the next-closest vertex height:
    either the mid-height y0 = (min.y + max.y) / 2 of the bounding box, or, when a vertex sits exactly there, a point strictly between y0 and
    the height c of the next-closest vertex: y0 + k * (c - y0) with a constant 0 < k < 1.  Anything else can leave the polygon's y-range or
    land on another vertex, and the fall-back then returns a boundary point."""
    from ..poly import from_term, R, P, sym
    rep.rule("R12.6", "polygon interior point: the scan line's height is the bounding box's mid-height y0, or y0 + k*(c - y0) with a constant 0 < k < 1 for the height c of the next-closest vertex (polynomial identity on every path)")
    try:
        fn = F.one(r"^geo::algorithm::interior_point::polygon_interior_point_with_segment_length$", crates=("geo",))
        # private helpers of the interior_point module are inlined (an extracted `scan_line_y(..)` is the same code); everything else stays a symbol
        ps = Symex(F, inline_crates=("geo",), no_inline=[r"^(?!geo::algorithm::interior_point::)"], loop_bound=1, max_paths=5000).run(fn)
    except (KeyError, Unanalysable) as e:
        rep.bad("R12.6", "scan-height:anchor", str(e))
        return
    ys = {}
    for p in ps:
        for e in p.trace:
            if e[0] == "call" and e[1].endswith("Line::<T>::new") and len(e[2]) == 2:
                for c in e[2]:
                    if c[0] == "adt" and c[1].endswith("coord::Coord") and len(c[3]) == 2:
                        ys[show(c[3][1])] = c[3][1]
    if not ys:
        rep.bad("R12.6", "scan-height:none", "no scan line (Line::new of two coordinates) found on any path", where=fn.loc())
        return
    leaves = {}

    def leaf(t):
        s_ = show(t)
        if re.search(r"min\(.*bounding_rect.*\)\.y$", s_) and "max(" not in s_:
            return "ymin"
        if re.search(r"max\(.*bounding_rect.*\)\.y$", s_) and "min(" not in s_.split("bounding_rect")[0]:
            return "ymax"
        leaves.setdefault(s_, "L%d" % len(leaves))
        return leaves[s_]
    y0 = (R(sym("ymin")) + R(sym("ymax"))) / R(P(2))
    n_mid = n_adj = 0
    for s_, t in ys.items():
        try:
            r = from_term(t, leaf)
        except ValueError as e:
            rep.bad("R12.6", "scan-height:term", "height %s is not an arithmetic term: %s" % (s_[:100], e), where=fn.loc())
            return
        if r.equals(y0):
            n_mid += 1
            continue
        ok = False
        for name in set(leaves.values()):
            c = R(sym(name))
            for k in (R(P(1)) / R(P(2)), R(P(1)) / R(P(3)), R(P(2)) / R(P(3)), R(P(1)) / R(P(4)), R(P(3)) / R(P(4))):
                if r.equals(y0 + k * (c - y0)):
                    ok = True
        if ok:
            n_adj += 1
        else:
            rep.bad("R12.6", "scan-height:formula", "the scan line is placed at %s, which is neither the bounding box's mid-height nor a point strictly between it and the next-closest vertex height" % s_[:220], where=fn.loc())
            return
    if n_mid and n_adj:
        rep.ok("R12.6", "scan-height[mid-height and %d adjusted form(s)]" % n_adj)
    else:
        rep.bad("R12.6", "scan-height:rows", "expected both the mid-height and the adjusted height among the scan lines, found %d / %d" % (n_mid, n_adj), where=fn.loc())


# ------------------------------------------------------------------------------------------------ R12.7
def _calls_in(t, suffix, out, depth=0):
    if isinstance(t, tuple) and depth < 40:
        if t and t[0] == "call" and len(t) == 3 and isinstance(t[1], str) and t[1].endswith(suffix):
            out.append(t)
        for x in t:
            _calls_in(x, suffix, out, depth + 1)
    return out


def _seg_of(t):
    """the opaque segment a term such as geom(&opaque(s2).0) speaks about, or None"""
    found = set()

    def walk(x, d=0):
        if isinstance(x, tuple) and d < 40:
            if x and x[0] == "opaque" and isinstance(x[1], str):
                found.add(x[1])
            for y in x:
                walk(y, d + 1)
    walk(t)
    return found.pop() if len(found) == 1 else None


def sweep_neighbours(rep, F, rule="R12.7"):
    """The Bentley-Ottmann step of the sweep that interior_point's scan line runs on (sweep::proc::Sweep::handle_event), on an active list of
    3..5 abstract segments with the list position of the event's segment given: when a segment ends, the pair tested for a crossing is
    exactly the two segments that become adjacent (the one directly below and the one directly above the removed one, none when it was the
    lowest or the highest), and the list afterwards is the old one without that segment; a point event is tested against exactly the two
    segments around its position.  A crossing between two segments that are never tested is never reported - the scan line of
    interior_point then misses a boundary crossing and the midpoint candidates are not inside."""
    rep.rule(rule, "sweep::Sweep::handle_event on an abstract active list (3..5 segments, every position): a right-end event tests exactly the pair (below, above) of the removed segment "
                   "and leaves the list without it; a point event tests exactly its two neighbours")
    try:
        fn = F.one(r"^geo::algorithm::sweep::proc::Sweep::<C>::handle_event$", crates=("geo",))
    except KeyError as e:
        rep.bad(rule, "sweep-step:anchor", str(e))
        return
    SW = "geo::algorithm::sweep::proc::Sweep"
    VS = "geo::algorithm::sweep::vec_set::VecSet"
    EV = "geo::algorithm::sweep::events::Event"
    ET = "geo::algorithm::sweep::events::EventType"
    try:
        sw_fields = [f["name"] for f in F.adts[SW]["variants"][0]["fields"]]
        ev_fields = [f["name"] for f in F.adts[EV]["variants"][0]["fields"]]
    except (KeyError, IndexError) as e:
        rep.bad(rule, "sweep-step:anchor", "layout of Sweep / Event not found (%s)" % e)
        return
    if set(sw_fields) != {"is_simple", "events", "active_segments"} or set(ev_fields) != {"point", "ty", "payload"}:
        rep.bad(rule, "sweep-step:anchor", "Sweep / Event have other fields than the rule knows: %s / %s" % (sw_fields, ev_fields))
        return

    def _r(st, v):
        yield st, "ret", v
    n_ok = 0
    for n in (3, 4, 5):
        for k in range(n + 1):
            for ty in ("LineRight", "PointLeft", "LineLeft"):
                if ty == "LineRight" and k >= n:
                    continue
                if ty == "LineLeft" and n > 3:
                    continue
                names = ["s%d" % i for i in range(n)]
                segs = tuple(("opaque", s) for s in names)
                the_seg = ("opaque", names[k]) if ty == "LineRight" else ("opaque", "pt_seg")
                by = {"is_simple": ("const", False), "events": ("opaque", "events"),
                      "active_segments": ("adt", VS, "VecSet", (("call", "vec!", (("array", segs),)),))}
                sweep = ("adt", SW, "Sweep", tuple(by[f] for f in sw_fields))
                eb = {"point": ("opaque", "pt"), "ty": ("adt", ET, ty, ()), "payload": the_seg}
                event = ("adt", EV, "Event", tuple(eb[f] for f in ev_fields))
                ex = Symex(F, concrete_iters=True, loop_bound=2, max_paths=20000, budget_s=60,
                           no_inline=[r"intersect_line_ordered$", r"adjust_one_segment$", r"::geom$", r"::overlap$", r"IMSegment.*::is_correct$",
                                      r"Sweep::<C>::handle_event$", r"set_left_event_done$"])
                ex.fold_ground_eq = True
                logging_off(ex)
                hooked = 0
                for key in F.fns:
                    if "vec_set::VecSet" in key and (key.endswith("::index_of") or key.endswith("::index_not_of")):
                        ex.models[key] = lambda ex_, st, call, args, k=k: _r(st, ("const", k))
                        hooked += 1
                if ty == "LineLeft":
                    # the no-crossing run of the insertion step: every crossing test answers None and is recorded
                    def m_isect(ex_, st, call, args):
                        st.notes.append(("isect", ex_.canon(st, args[0]), ex_.canon(st, args[1])))
                        return _r(st, ("adt", "core::option::Option", "None", ()))
                    for key in F.fns:
                        if key.endswith("::intersect_line_ordered"):
                            ex.models[key] = m_isect
                            hooked += 1
                    hooked -= 1
                if hooked < 2:
                    rep.bad(rule, "sweep-step:anchor", "VecSet::index_of / index_not_of not found")
                    return
                try:
                    paths = ex.run(fn, args=[("arg", 1), event, ("arg", 3)], mem={("arg", 1): sweep})
                except Unanalysable as e:
                    rep.bad(rule, "sweep-step:unanalysable", "%s at position %d of %d: %s" % (ty, k, n, e), where=fn.loc())
                    return
                rets = [p for p in paths if p.kind == "ret"]
                if ty == "LineRight":
                    want = {(names[k - 1], names[k + 1])} if 0 < k < n - 1 else set()
                    want_list = names[:k] + names[k + 1:]
                elif ty == "LineLeft":
                    want = {("pt_seg", names[j]) for j in (k, k - 1) if 0 <= j < n}
                    want_list = names[:k] + ["pt_seg"] + names[k:]
                else:
                    want = {("pt_seg", names[j]) for j in (k - 1, k) if 0 <= j < n}
                    want_list = names
                seen = set()
                full = 0
                for p in rets:
                    got = set()
                    for t, _v in p.pc:
                        for c in _calls_in(t, "::intersect_line_ordered", []):
                            got.add((_seg_of(c[2][0]), _seg_of(c[2][1])))
                    for nt in p.notes:
                        if isinstance(nt, tuple) and nt and nt[0] == "isect":
                            got.add((_seg_of(nt[1]), _seg_of(nt[2])))
                    # paths that return before the step proper (a stale event: is_correct false) test nothing and change nothing
                    if any(show(t).find("is_correct") >= 0 and v == 0 for t, v in p.pc):
                        continue
                    seen |= got
                    if got == want:
                        full += 1
                    if not got <= want:
                        extra = sorted(got - want)[0]
                        rep.bad(rule, "sweep-step:%s:pair" % ty, "%s event for the segment at position %d of the active list [%s]: the crossing test is run on (%s, %s); the segments that %s are %s" % (
                            ty, k, ", ".join(names), extra[0], extra[1], "become adjacent" if ty == "LineRight" else "surround the point",
                            " and ".join("(%s, %s)" % w for w in sorted(want)) or "none (it is the lowest / highest one)"), where=fn.loc())
                        return
                    fin = p.st.mem.get(("S", ("arg", 1)))
                    fin = ex.canon(p.st, fin) if fin is not None else None
                    lst = None
                    if fin is not None and fin[0] == "adt":
                        act = fin[3][sw_fields.index("active_segments")]
                        arr = _calls_in(act, "vec!", [])
                        if arr and arr[0][2] and arr[0][2][0][0] == "array":
                            lst = [_seg_of(x) for x in arr[0][2][0][1]]
                    if lst != want_list:
                        rep.bad(rule, "sweep-step:%s:list" % ty, "%s event for the segment at position %d of [%s]: the active list afterwards is %s, expected [%s]" % (
                            ty, k, ", ".join(names), lst, ", ".join(want_list)), where=fn.loc())
                        return
                if want and not full:
                    rep.bad(rule, "sweep-step:%s:untested" % ty, "%s event for the segment at position %d of [%s]: no path tests %s for a crossing (pairs tested: %s)" % (
                        ty, k, ", ".join(names), " and ".join("(%s, %s)" % w for w in sorted(want)), sorted(seen) or "none"), where=fn.loc())
                    return
                if not rets:
                    rep.bad(rule, "sweep-step:%s:no-path" % ty, "no returning path at position %d of %d" % (k, n), where=fn.loc())
                    return
                n_ok += 1
    rep.ok(rule, "sweep-step[%d (event kind, list length, position) cases]" % n_ok)


# ------------------------------------------------------------------------------------------------ R12.8
def ordered_crossing(rep, F, rule="R12.8"):
    """LineOrPoint::intersect_line_ordered(self, other) with the crossing computed by intersect_line given as a witness point p (p.x >= the x of
    self's left end - the crossing is clamped to the segments' envelopes): the point handed back to the sweep never sorts before self's left end in
    sweep order (x, then y).  The sweep has already passed that point; an event queued before it makes the ordering of the active list
    inconsistent (partial_cmp(..).unwrap() on None in release builds, a debug assertion otherwise) - interior_point then panics on a valid
    polygon.  The answers of the segment ordering (partial_cmp of two LineOrPoint) are left open: every path consistent with the witness is checked."""
    import math
    from ..numeval import NumEval
    from ..evalterm import Enum, NoModel
    rep.rule(rule, "intersect_line_ordered (crossing point given as a witness, every consistent path): the point returned does not sort before self.left() in sweep order, "
                   "also when the computed crossing has the x of self's left end and a smaller y")
    try:
        fn = F.one(r"sweep::line_or_point::LineOrPoint::<T>::intersect_line_ordered$", crates=("geo",))
    except KeyError as e:
        rep.bad(rule, "ordered-crossing:anchor", str(e))
        return
    LOP = "geo::algorithm::sweep::line_or_point::LineOrPoint"
    SP = "geo::algorithm::sweep::point::SweepPoint"
    CO = GT + "coord::Coord"
    if LOP not in F.adts or SP not in F.adts:
        rep.bad(rule, "ordered-crossing:anchor", "LineOrPoint / SweepPoint not found")
        return

    def sp(name):
        return ("adt", SP, "SweepPoint", (("adt", CO, "Coord", (("opaque", name + ".x"), ("opaque", name + ".y"))),))
    line = lambda tag: ("&", ("adt", LOP, "Line", (sp(tag + "l"), sp(tag + "r"))))
    ex = Symex(F, loop_bound=2, max_paths=20000, budget_s=60, inline_crates=("geo", "geo_types"),
               no_inline=[r"LineOrPoint.*::intersect_line$", r"<.*LineOrPoint<T> as core::cmp::PartialOrd>::partial_cmp$"])
    logging_off(ex)

    def _r(st, v):
        yield st, "ret", v
    crossing = ("adt", "core::option::Option", "Some", (("adt", LOP, "Point", (sp("p"),)),))
    hooked = 0
    for key in F.fns:
        if key.endswith("LineOrPoint::<T>::intersect_line"):
            ex.models[key] = lambda ex_, st, call, args: _r(st, crossing)
            hooked += 1
    if not hooked:
        rep.bad(rule, "ordered-crossing:anchor", "LineOrPoint::intersect_line not found")
        return
    try:
        paths = [p for p in ex.run(fn, args=[line("s"), line("o")]) if p.kind != "cut"]
    except Unanalysable as e:
        rep.bad(rule, "ordered-crossing:unanalysable", str(e), where=fn.loc())
        return

    class Ev(NumEval):
        def call(self, t):
            m = t[1].rsplit("::", 1)[-1]
            if m == "next_after" and len(t[2]) == 2:
                return math.nextafter(float(self.ev(t[2][0])), float(self.ev(t[2][1])))
            if m == "infinity":
                return math.inf
            if m == "neg_infinity":
                return -math.inf
            if m == "total_cmp" and len(t[2]) == 2:
                a, b = self.ev(t[2][0]), self.ev(t[2][1])
                return Enum("core::cmp::Ordering", "Less" if a < b else "Greater" if a > b else "Equal")
            return NumEval.call(self, t)
    n = 0
    sl = (1.0, 1.0)
    for ol in ((0.0, 0.0), (0.0, 2.0), (1.0, 1.0), (1.0, 0.0), (1.0, 2.0), (-3.0, 1.0)):
        for pt in ((1.0, 0.0), (1.0, 0.5), (1.0, 1.0), (1.0, 2.0), (2.0, 0.0), (2.0, 1.0), (2.0, 3.0), (1.5, -4.0)):
            env = {}
            for tag, (x, y) in (("sl", sl), ("ol", ol), ("p", pt), ("sr", (5.0, 0.0)), ("or", (5.0, 3.0))):
                env[("opaque", tag + ".x")] = x
                env[("opaque", tag + ".y")] = y
            ev = Ev(F, env)
            checked = 0
            for p in paths:
                consistent = True
                for t, v in p.pc:
                    try:
                        val = ev.ev(t)
                    except (NoModel, KeyError, TypeError, AttributeError, IndexError):
                        continue             # an answer of the segment ordering: left open
                    if isinstance(val, bool):
                        val = 1 if val else 0
                    if isinstance(val, Enum):
                        val = ev.discr_of(val)
                    if isinstance(v, tuple) and v and v[0] == "notin":
                        if val in v[1]:
                            consistent = False
                            break
                    elif val != v:
                        consistent = False
                        break
                if not consistent or p.kind != "ret":
                    continue
                try:
                    r = ev.ev(p.ret)
                except (NoModel, KeyError, TypeError, AttributeError, IndexError) as e:
                    rep.bad(rule, "ordered-crossing:non-abstractable", "the point returned cannot be evaluated from the crossing and the end points (%s)" % e, where=fn.loc())
                    return
                if not (isinstance(r, Enum) and r.variant == "Some" and isinstance(r.payload[0], Enum) and r.payload[0].variant == "Point"):
                    continue
                c = r.payload[0].payload[0]
                while isinstance(c, dict) and "0" in c:
                    c = c["0"]
                while isinstance(c, (list, tuple)) and len(c) == 1:
                    c = c[0]
                got = (c["x"], c["y"])
                checked += 1
                if got < sl:
                    rep.bad(rule, "ordered-crossing:before-left", "self = LINE(%s -> ..), other = LINE(%s -> ..), computed crossing %s: intersect_line_ordered returns the point %s, which sorts before self's left end %s" % (
                        sl, ol, pt, got, sl), where=fn.loc())
                    return
            if not checked:
                rep.bad(rule, "ordered-crossing:no-row", "no returning path is consistent with self.left = %s, other.left = %s, crossing %s" % (sl, ol, pt), where=fn.loc())
                return
            n += checked
    rep.ok(rule, "ordered-crossing[%d (witness, path) pairs, %d paths]" % (n, len(paths)))
