"""C12 — closest and interior points lie on the geometry (structural clauses).

 R12.1 Closest::Intersection(x) is built only under the exact `self.intersects(p)` and x is a copy of p; where that test is
       made and true, Intersection is what is returned
 R12.2 best_of_two table (Indeterminate neutral, Intersection absorbing, nearer point wins, ties keep self); closest_of folds
       from Indeterminate with early exit only on Intersection
 R12.3 interior_point: polygon candidates are vertices of the polygon or are confirmed by relate/intersects before being
       returned; the scan line avoids the y of *every* vertex (all rings)
Not decided: nearest-ness, strict interiority, panic freedom of the sweep.
"""
import re
from ..facts import Facts, short
from ..symex import Symex, Unanalysable, show, show_pc, bare
from .c01 import opaque, calls_of

LEVEL = "other"
CP = "geo::algorithm::closest_point::ClosestPoint"
CL = "geo::types::Closest"
GT = "geo_types::geometry::"


def run(rep, tier):
    rep.explanation = ("Path tables of every ClosestPoint impl (calls uninterpreted): provenance and guard of Closest::Intersection, the combination "
                       "table of best_of_two and the fold shape of closest_of; scan-line vertex coverage of interior_point. That the returned point "
                       "is the nearest one, strict interiority and panic freedom of the sweep are data-dependent and not decided.")
    rep.trusted = ["rustc MIR", "Intersects (C02/C03)", "relate (C01)"]
    rep.assumptions = ["valid input geometries"]
    F = Facts("default")
    intersection_rule(rep, F)
    best_of_two(rep, F)
    interior_point(rep, F)
    # "Intersection(p) exactly when p intersects g": the point-in-geometry kernels that closest_point's guard resolves to (tables shared with C02)
    from . import c02_kernels, c02_linear
    c02_kernels.run(rep, F, tier, only={"Triangle∩Coord", "Line∩Coord", "Rect∩Coord", "ring-step", "polygon-composition"}, rule="R12.4")
    c02_linear.run(rep, F, tier, rule="R12.4")


def intersection_rule(rep, F):
    rep.rule("R12.1", "Closest::Intersection is constructed only with a copy of the query point and only where self.intersects(p) holds; an intersecting query never yields SinglePoint")
    n = 0
    for im in F.impls_of(CP):
        if im["crate"] != "geo":
            continue
        fn = F.impl_fn(im, "closest_point")
        if fn is None:
            continue
        name = short(im["self_ty"])
        ex = opaque(F, loop_bound=1, max_paths=5000, budget_s=20)
        ex.watch_adts = {CL}
        try:
            paths = ex.run(fn)
        except Unanalysable as e:
            rep.bad("R12.1", "unanalysable:%s" % name, str(e), where=fn.loc())
            continue
        built = False
        problems = []
        for p in paths:
            if p.kind != "ret":
                continue
            atoms = [(bare(t), v) for t, v in p.pc]
            inter = [v for s, v in atoms if re.match(r"^intersects\(a1, a2\)$", s)]
            same = any(s in ("(a1 == a2)", "(a2 == a1)", "eq(a1, a2)") and v == 1 for s, v in atoms)   # Point: p == self is the exact test
            for e in p.trace:
                if e[0] == "agg" and e[1] == CL and e[2] == "Intersection":
                    built = True
                    payload = bare(e[3][0])
                    if same and payload in ("a1", "a2"):
                        continue
                    if payload != "a2":
                        problems.append(("payload", "Closest::Intersection carries %s, not a copy of the query point p: the caller can receive a rounded point that is not p" % payload[:100]))
                    if not any(v == 1 for v in inter):
                        problems.append(("guard", "Closest::Intersection is built on a path where self.intersects(p) was not found true [%s]" % show_pc(p.pc)[:120]))
            differ = any(s in ("(a1 == a2)", "(a2 == a1)", "eq(a1, a2)") and v == 0 for s, v in atoms)
            for e in p.trace:
                # a SinglePoint that is a copy of an end point of self is the clamped case (p projects outside the segment; for a p on the segment the
                # monotone rounding of the projection parameter keeps it within [0, 1]); a COMPUTED point needs the exact negative test
                if e[0] == "agg" and e[1] == CL and e[2] == "SinglePoint" and not re.match(r"^(into\()?a1(\.start|\.end)?\)?$", bare(e[3][0])) \
                        and not (any(v == 0 for v in inter) or differ):
                    problems.append(("single-without-test", "Closest::SinglePoint is built on a path that never found self.intersects(p) false [%s]: a query point lying exactly on the geometry "
                                     "whose rounded projection differs from it is reported as SinglePoint instead of Intersection(p)" % show_pc(p.pc)[:140]))
            if any(v == 1 for v in inter):
                r = p.ret
                if not (r[0] == "adt" and r[1] == CL and r[2] == "Intersection"):
                    problems.append(("not-intersection", "p intersects the geometry but %s is returned" % bare(r)[:80]))
        n += 1
        if problems:
            kinds = {}
            for k, m in problems:
                kinds.setdefault(k, m)
            for k, m in kinds.items():
                rep.bad("R12.1", "%s:%s" % (k, name), "%s::closest_point: %s" % (name, m), where=fn.loc())
        else:
            rep.ok("R12.1", "closest_point:%s%s" % (name, "" if built else " (delegates)"))
    rep.floor("R12.1", "ClosestPoint impls", n, 12)


def best_of_two(rep, F):
    rep.rule("R12.2", "best_of_two: Indeterminate is neutral, Intersection absorbing, otherwise the point with the smaller distance to p (ties keep self); closest_of starts from Indeterminate and leaves early only on Intersection")
    try:
        fn = F.one(r"^geo::types::Closest::<F>::best_of_two$", crates=("geo",))
        ps = [p for p in opaque(F).run(fn) if p.kind == "ret"]
    except (KeyError, Unanalysable) as e:
        rep.bad("R12.2", "anchor", str(e))
        return
    names = [v["name"] for v in F.adts[CL]["variants"]]
    table = {}
    for p in ps:
        ds = {}
        cmpv = None
        for t, v in p.pc:
            s = bare(t)
            if t[0] == "discr" and s == "discr(a1)":
                ds["self"] = names[v] if isinstance(v, int) and v < len(names) else "SinglePoint"
            elif t[0] == "discr" and s == "discr(a2)":
                ds["other"] = names[v] if isinstance(v, int) and v < len(names) else "SinglePoint"
            elif "distance(" in s:
                cmpv = (s, v)
        out = bare(p.ret)
        key = (ds.get("self"), ds.get("other"), None if cmpv is None else cmpv[1])
        table[key] = (out, cmpv[0] if cmpv else None)
    problems = []
    for (s_, o_, c_), (out, cs) in table.items():
        if s_ == "Indeterminate":
            want = "a2"
        elif s_ == "Intersection":
            want = "a1"
        elif o_ == "Indeterminate":
            want = "a1"
        elif o_ == "Intersection":
            want = "a2"
        else:
            if cs is None or not re.match(r"^le\(distance\(.*\(a1 as SinglePoint\)\.0, a3\), distance\(.*\(a2 as SinglePoint\)\.0, a3\)\)$|^\(distance\(.*a1.*\) <= distance\(.*a2.*\)\)$", cs):
                problems.append("two single points are not compared by distance(left, p) <= distance(right, p): %s" % cs)
                continue
            want = "a1" if c_ == 1 else "a2"
        if out != want:
            problems.append("best_of_two(%s, %s%s) returns %s, expected %s" % (s_, o_, "" if c_ is None else ", left<=right=%s" % c_, out, {"a1": "self", "a2": "other"}[want]))
    if len(table) < 6:
        problems.append("table has only %d rows" % len(table))
    if problems:
        rep.bad("R12.2", "best_of_two", problems[0], where=fn.loc())
    else:
        rep.ok("R12.2", "best_of_two[%d rows]" % len(table))
    # closest_of on three candidates (exact unrolling, any loop / fold / try_fold form): B_0 = Indeterminate, B_k = best_of_two(closest_point(item_k), B_{k-1});
    # the result is B_k for the first k at which B_k is an Intersection, otherwise B_3
    try:
        fn = F.one(r"^geo::algorithm::closest_point::closest_of$", crates=("geo",))
        K = 3
        items = ("&", ("array", tuple(("index", ("arg", 1), ("const", k)) for k in range(K))))
        ex = Symex(F, inline_crates=("geo", "geo_types"), no_inline=[r"best_of_two$", r"ClosestPoint.*::closest_point$"], loop_bound=K + 4, concrete_iters=True)
        ps = ex.run(fn, args=[items, ("arg", 2)])
        B = ["Closest::Indeterminate()"]
        for k in range(K):
            B.append("best_of_two(closest_point(a1[%d], a2), %s, a2)" % (k, B[-1]))
        inter = names.index("Intersection")
        bad = None
        seen_early = False
        for p in ps:
            if p.kind != "ret":
                bad = "a %s path" % p.kind
                break
            r = bare(p.ret)
            dd = {}
            for t, v in p.pc:
                b = bare(t)
                m_ = re.match(r"^discr\((best_of_two\(.*\))\)$", b)
                if not m_ or m_.group(1) not in B:
                    bad = "closest_of decides on `%s`, which is not whether the best so far is an Intersection" % b[:120]
                    break
                dd[B.index(m_.group(1))] = (v == inter) if isinstance(v, int) else False
            if bad:
                break
            first_int = min([k for k, is_i in dd.items() if is_i], default=None)
            want = B[first_int] if first_int is not None else B[K]
            if first_int is not None and first_int < K:
                seen_early = True
            if r != want:
                bad = "with the best-so-far being an Intersection first after candidate %s the result is %s, expected %s" % (first_int, r[:100], want[:100])
                break
        if bad is None and not seen_early:
            bad = "no early exit on Intersection"
        if bad:
            rep.bad("R12.2", "closest_of", "closest_of over three candidates: %s (it must fold best_of_two from Indeterminate in order and stop exactly at the first Intersection)" % bad, where=fn.loc())
        else:
            rep.ok("R12.2", "closest_of[%d rows, 3 candidates]" % len(ps))
    except (KeyError, Unanalysable) as e:
        rep.bad("R12.2", "closest_of:anchor", str(e))


def interior_point(rep, F):
    rep.rule("R12.3", "polygon interior point: the scan line's y is chosen against the y of every vertex of every ring (coords_iter, not only the exterior); candidates are confirmed with relate/intersects or are polygon vertices")
    try:
        fn = F.one(r"^geo::algorithm::interior_point::polygon_interior_point_with_segment_length$", crates=("geo",))
    except KeyError as e:
        rep.bad("R12.3", "anchor", str(e))
        return
    users = {"coords_iter": 0, "exterior_coords_iter": 0}
    from ..idioms import call_scope
    sf, sc = call_scope(F, fn, "geo::algorithm::interior_point::", stop=("::interior_point",))
    for g in sf + sc:
        for c in g.calls():
            if c.trait == "geo::algorithm::coords_iter::CoordsIter" and c.method in users and "Polygon" in (c.self_ty or ""):
                users[c.method] += 1
    if users["exterior_coords_iter"]:
        rep.bad("R12.3", "scanline-vertices", "the scan-line height is chosen by looking only at exterior vertices (%d use(s) of exterior_coords_iter): it can run along a horizontal hole edge, whose midpoint is on the boundary" % users["exterior_coords_iter"], where=fn.loc())
    elif users["coords_iter"] >= 2:
        rep.ok("R12.3", "scanline-vertices[%d traversals of all rings]" % users["coords_iter"])
    else:
        rep.bad("R12.3", "scanline-vertices:floor", "expected the vertex scan over all rings (coords_iter) twice, found %s" % users, where=fn.loc())
    # returned candidates are checked
    checked = False
    for g in sf + sc:
        for c in g.calls():
            if (c.path or "").endswith("IntersectionMatrix::is_intersects") or c.method == "intersects" or c.method == "relate":
                checked = True
    if checked:
        rep.ok("R12.3", "candidate-confirmed")
    else:
        rep.bad("R12.3", "candidate-unchecked", "the scan-line candidate is returned without an intersects/relate confirmation", where=fn.loc())
