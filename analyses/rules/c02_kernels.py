"""R2.6 — decision tables of the loop-free point kernels against exact integer reference geometry.

Code side: the MIR path table of each kernel (atoms = orientation signs, coordinate comparisons, verified helper
predicates).  Spec side: a catalogue of integer witness configurations evaluated with a few lines of exact reference
geometry; every compared valuation is therefore realisable.  geo's code is not executed: the extracted decision
tree is walked with the atom values of the witness.
"""
import itertools
import re
from ..symex import Symex, Unanalysable, show, show_pc
from ..evalterm import Evaluator, Enum, NoModel, orient

GT = "geo_types::geometry::"
INTERSECTS = "geo::algorithm::intersects::Intersects"
CONTAINS = "geo::algorithm::contains::Contains"
COORDPOS_T = "geo::algorithm::coordinate_position::CoordinatePosition"
HELPERS = [r"intersects::point_in_rect$", r"intersects::value_in_between$"]


# ------------------------------------------------------------------ reference geometry (exact, integers)
RULE = "R2.6"      # the rule id the tables are reported under (C03 reuses the point-location tables as R3.6)


def C(x, y):
    return {"x": x, "y": y}


def on_segment(c, s, e):
    if orient(s, e, c) != "Collinear":
        return False
    return min(s["x"], e["x"]) <= c["x"] <= max(s["x"], e["x"]) and min(s["y"], e["y"]) <= c["y"] <= max(s["y"], e["y"])


def tri_position(t, c):
    a, b, cc = t["0"], t["1"], t["2"]
    if any(on_segment(c, p, q) for p, q in ((a, b), (b, cc), (cc, a))):
        return "OnBoundary"
    o = [orient(p, q, c) for p, q in ((a, b), (b, cc), (cc, a))]
    if o[0] == o[1] == o[2] and o[0] != "Collinear":
        return "Inside"
    return "Outside"


def rect_position(r, c):
    mn, mx = r["min"], r["max"]
    if mn["x"] < c["x"] < mx["x"] and mn["y"] < c["y"] < mx["y"]:
        return "Inside"
    if mn["x"] <= c["x"] <= mx["x"] and mn["y"] <= c["y"] <= mx["y"]:
        return "OnBoundary"
    return "Outside"


def line_position(l, c):
    s, e = l["start"], l["end"]
    if s == e:
        return "Inside" if c == s else "Outside"
    if c == s or c == e:
        return "OnBoundary"
    return "Inside" if on_segment(c, s, e) else "Outside"


def m_point_in_rect(ev, args):
    v, a, b = (ev.ev(x) for x in args)
    return min(a["x"], b["x"]) <= v["x"] <= max(a["x"], b["x"]) and min(a["y"], b["y"]) <= v["y"] <= max(a["y"], b["y"])


def m_value_in_between(ev, args):
    v, a, b = (ev.ev(x) for x in args)
    return min(a, b) <= v <= max(a, b)


CALLS = {
    "geo::algorithm::intersects::point_in_rect": m_point_in_rect,
    "geo::algorithm::intersects::value_in_between": m_value_in_between,
    "core::convert::Into::into": lambda ev, args: ev.ev(args[0]),
    "core::convert::From::from": lambda ev, args: ev.ev(args[0]),
}


# ------------------------------------------------------------------ decision tree over the path table
class Tree:
    def __init__(self, paths):
        self.root = {}
        self.n = len(paths)
        for p in paths:
            node = self.root
            for t, v in p.pc:
                if "atom" not in node:
                    node["atom"] = t
                    node["kids"] = {}
                if node["atom"] != t:
                    # not a prefix tree (can happen after joins): fall back to linear selection
                    self.root = None
                    self.paths = paths
                    return
                node = node["kids"].setdefault(v if not isinstance(v, tuple) else ("notin",) + tuple(v[1]), {})
            node.setdefault("leaf", []).append(p)
        self.paths = paths

    def select(self, ev):
        if self.root is None:
            return ev.select_path(self.paths)
        node = self.root
        while "atom" in node:
            val = ev.ev(node["atom"])
            if isinstance(val, bool):
                val = 1 if val else 0
            if isinstance(val, Enum):
                val = ev.discr_of(val)
            kid = node["kids"].get(val)
            if kid is None:
                for k, n in node["kids"].items():
                    if isinstance(k, tuple) and k[0] == "notin" and val not in k[1:]:
                        kid = n
                if kid is None:
                    return []
            node = kid
        return node.get("leaf", [])


def position_of(ex, ev, p, inside_arg=3, count_arg=4):
    """Outcome of a calculate_coordinate_position path: the final accumulators combined as the trait does."""
    st = p.st
    ins = st.mem.get(("S", ("arg", inside_arg)))
    cnt = st.mem.get(("S", ("arg", count_arg)))
    ev.env[("deref", ("arg", inside_arg))] = False
    ev.env[("deref", ("arg", count_arg))] = 0
    i = ev.ev(ex.canon(st, ins)) if ins is not None else False
    c = ev.ev(ex.canon(st, cnt)) if cnt is not None else 0
    if c % 2 == 1:
        return "OnBoundary"
    return "Inside" if i else "Outside"


def check(rep, key, F, fn, witnesses, outcome, no_inline=HELPERS, floor=10, where=None):
    ex = Symex(F, no_inline=no_inline, max_paths=20000, concrete_iters=True, loop_bound=6)
    try:
        paths = ex.run(fn)
    except Unanalysable as e:
        rep.bad(RULE, key + ":unanalysable", "cannot tabulate the kernel (%s); fail closed" % e, where=fn.loc())
        return
    rets = [p for p in paths if p.kind == "ret"]
    tree = Tree(rets)
    n = 0
    distinct = set()
    for env, want, desc in witnesses:
        ev = Evaluator(F, dict(env), CALLS)
        try:
            hit = tree.select(ev)
            if len(hit) != 1:
                rep.bad(RULE, key, "witness %s selects %d rows of the decision table" % (desc, len(hit)), where=fn.loc())
                return
            got = outcome(ex, ev, hit[0])
        except NoModel as e:
            rep.bad(RULE, key + ":non-abstractable", "a decision of the kernel is not a function of orientation signs, coordinate comparisons and verified helpers (%s): exactness and the table are lost" % e, where=fn.loc())
            return
        n += 1
        distinct.add(id(hit[0]))
        ok = got in want if isinstance(want, (set, frozenset)) else got == want
        if not ok:
            rep.bad(RULE, key, "on the witness %s the kernel's decision table gives %s but exact geometry gives %s  [row: %s]" % (desc, got, want, show_pc(hit[0].pc)[:300]),
                    where=fn.loc(), detail={"witness": desc, "got": str(got), "want": str(want), "row": show_pc(hit[0].pc)[:800]})
            return
    if n < floor:
        rep.bad(RULE, key + ":floor", "only %d witnesses" % n)
        return
    rep.ok(RULE, "%s[%d witnesses, %d/%d table rows reached]" % (key, n, len(distinct), len(rets)),
           sample={"kernel": key, "witnesses": n, "rows": len(rets), "rows_reached": len(distinct)})


# ------------------------------------------------------------------ witness catalogues
G3 = [C(x, y) for x in range(3) for y in range(3)]
G4 = [C(x, y) for x in range(4) for y in range(4)]
GQ = [C(x, y) for x in range(-1, 4) for y in range(-1, 4)]
G5 = [C(x, y) for x in range(5) for y in range(5)]
THOROUGH = False     # set by run(): larger catalogues


def tri_witnesses(spec):
    for a, b, c in itertools.product(G4 if THOROUGH else G3, repeat=3):
        if orient(a, b, c) == "Collinear":
            continue
        t = {"0": a, "1": b, "2": c}
        for q in (G5 if THOROUGH else G4):
            pos = tri_position(t, q)
            yield {("arg", 1): t, ("arg", 2): q}, spec(pos), "triangle %s query %s (%s)" % (fmt(t), fmt(q), pos)


def rect_witnesses(spec, degenerate=False):
    vals = [0, 1, 2, 3, 4] if THOROUGH else [0, 2, 3]
    for x0, x1, y0, y1 in itertools.product(vals, repeat=4):
        if x0 > x1 or y0 > y1:
            continue
        if not degenerate and (x0 == x1 or y0 == y1):
            continue
        r = {"min": C(x0, y0), "max": C(x1, y1)}
        for q in GQ:
            pos = rect_position(r, q)
            yield {("arg", 1): r, ("arg", 2): q}, spec(pos), "rect %s query %s (%s)" % (fmt(r), fmt(q), pos)


def line_witnesses(spec, degenerate=True):
    for s, e in itertools.product(G5 if THOROUGH else G4, repeat=2):
        if not degenerate and s == e:
            continue
        l = {"start": s, "end": e}
        for q in (G5 if THOROUGH else G4):
            pos = line_position(l, q)
            yield {("arg", 1): l, ("arg", 2): q}, spec(pos, l, q), "line %s query %s (%s)" % (fmt(l), fmt(q), pos)


def fmt(v):
    if isinstance(v, dict):
        if set(v) == {"x", "y"}:
            return "(%s,%s)" % (v["x"], v["y"])
        return "{" + " ".join("%s" % fmt(x) for x in v.values()) + "}"
    return str(v)


def run(rep, F, tier, only=None, rule="R2.6"):
    global RULE, THOROUGH
    RULE = rule
    THOROUGH = tier == "thorough"
    rep.rule(RULE, "decision tables of the point kernels (Rect, Triangle, Line; intersects / contains / position; bbox helpers; ring crossing step; "
                     "Polygon and collection composition) agree with exact integer reference geometry on every witness of the catalogue")
    bool_out = lambda ex, ev, p: bool(ev.ev(p.ret))
    # helpers first (compositional): value_in_between, point_in_rect
    try:
        f = F.one(r"^geo::algorithm::intersects::value_in_between$", crates=("geo",))
        # small integers, and the same configurations at magnitudes where a product of two offsets underflows / overflows (the test is a comparison, not arithmetic)
        w = (({("arg", 1): v * k, ("arg", 2): a * k, ("arg", 3): b * k}, min(a, b) <= v <= max(a, b), "value %s between %s,%s" % (v * k, a * k, b * k))
             for k in (1, 2.0 ** -600, 2.0 ** 600) for v, a, b in itertools.product(range(4), repeat=3))
        check(rep, "value_in_between", F, f, w, bool_out, no_inline=[])
        f = F.one(r"^geo::algorithm::intersects::point_in_rect$", crates=("geo",))
        w = (({("arg", 1): v, ("arg", 2): a, ("arg", 3): b}, m_point_in_rect(Evaluator(F, {}), [("const", 0)] * 0 or [v, a, b]) if False else
              (min(a["x"], b["x"]) <= v["x"] <= max(a["x"], b["x"]) and min(a["y"], b["y"]) <= v["y"] <= max(a["y"], b["y"])), "point %s in box %s %s" % (fmt(v), fmt(a), fmt(b)))
             for v, a, b in itertools.product(G3, repeat=3))
        check(rep, "point_in_rect", F, f, w, bool_out, no_inline=[r"intersects::value_in_between$"])
    except KeyError as e:
        rep.bad(RULE, "helpers:anchor", str(e))
    specs = [
        ("Triangle∩Coord", INTERSECTS, r"triangle::Triangle<T>$", r"coord::Coord<T>$", "intersects", lambda: tri_witnesses(lambda pos: pos != "Outside"), bool_out),
        ("Triangle⊇Coord", CONTAINS, r"triangle::Triangle<T>$", r"coord::Coord<T>$", "contains", lambda: tri_witnesses(lambda pos: pos == "Inside"), bool_out),
        ("Triangle.position", COORDPOS_T, r"triangle::Triangle<T>$", None, "calculate_coordinate_position", lambda: tri_witnesses(lambda pos: pos), position_of),
        ("Rect∩Coord", INTERSECTS, r"rect::Rect<T>$", r"coord::Coord<T>$", "intersects", lambda: rect_witnesses(lambda pos: pos != "Outside", degenerate=True), bool_out),
        ("Rect⊇Coord", CONTAINS, r"rect::Rect<T>$", r"coord::Coord<T>$", "contains", lambda: rect_witnesses(lambda pos: pos == "Inside"), bool_out),
        ("Rect.position", COORDPOS_T, r"rect::Rect<T>$", None, "calculate_coordinate_position", lambda: rect_witnesses(lambda pos: pos), position_of),
        ("Line∩Coord", INTERSECTS, r"line::Line<T>$", r"coord::Coord<T>$", "intersects", lambda: line_witnesses(lambda pos, l, q: on_segment(q, l["start"], l["end"])), bool_out),
        ("Line⊇Coord", CONTAINS, r"line::Line<T>$", r"coord::Coord<T>$", "contains", lambda: line_witnesses(lambda pos, l, q: pos == "Inside"), bool_out),
        ("Line.position", COORDPOS_T, r"line::Line<T>$", None, "calculate_coordinate_position", lambda: line_witnesses(lambda pos, l, q: pos, degenerate=False), position_of),
    ]
    for key, trait, sre, are, meth, wit, out in specs:
        if only is not None and key not in only:
            continue
        try:
            fn = F.impl_method(trait, sre, are, meth, crates=("geo",))
        except KeyError as e:
            rep.bad(RULE, key + ":anchor", str(e))
            continue
        check(rep, key, F, fn, wit(), out)
    if only is None or "Rect∩Rect" in only:
        rect_rect(rep, F, bool_out)
    if only is None or "ring-step" in only:
        ring_step(rep, F)
        composition(rep, F)
        ring_whole(rep, F)
    if only is None or "polygon-composition" in only:
        polygon_composition(rep, F)
        polygon_witness(rep, F)
        multipoint_witness(rep, F)
    if only is None:
        container_composition(rep, F)
    RULE = "R2.6"


def rect_rect(rep, F, bool_out):
    try:
        fn = F.impl_method(INTERSECTS, r"rect::Rect<T>$", r"rect::Rect<T>$", "intersects", crates=("geo",))
    except KeyError as e:
        rep.bad(RULE, "Rect∩Rect:anchor", str(e))
        return

    def wit():
        vals = [0, 1, 2, 3]
        ivs = [(a, b) for a in vals for b in vals if a <= b]
        for (ax0, ax1), (ay0, ay1), (bx0, bx1), (by0, by1) in itertools.product(ivs, repeat=4):
            if (ax0 + ay0 + bx0 + by0) % 2:   # thin the catalogue
                continue
            a = {"min": C(ax0, ay0), "max": C(ax1, ay1)}
            b = {"min": C(bx0, by0), "max": C(bx1, by1)}
            want = ax0 <= bx1 and bx0 <= ax1 and ay0 <= by1 and by0 <= ay1
            yield {("arg", 1): a, ("arg", 2): b}, want, "rects %s %s" % (fmt(a), fmt(b))
    check(rep, "Rect∩Rect", F, fn, wit(), bool_out)


def ring_step(rep, F):
    """One edge of coord_pos_relative_to_ring (loop unrolled once): boundary detection and the crossing rule
    (upward edges include their start and exclude their end, downward the reverse, horizontal excluded), or the
    mirrored half-open convention as a whole-table alternative."""
    try:
        fn = F.one(r"^geo::algorithm::coordinate_position::coord_pos_relative_to_ring$", crates=("geo",))
    except KeyError as e:
        rep.bad(RULE, "ring-step:anchor", str(e))
        return
    ex = Symex(F, no_inline=HELPERS, loop_bound=1, max_paths=20000)
    try:
        paths = ex.run(fn)
    except Unanalysable as e:
        rep.bad(RULE, "ring-step:unanalysable", str(e), where=fn.loc())
        return
    # paths that consume exactly one edge: one `next` yielding Some, then None
    one = []
    for p in paths:
        if p.kind != "ret":
            continue
        nexts = [(t, v) for t, v in p.pc if t[0] == "discr" and isinstance(t[1], tuple) and t[1][0] == "call" and t[1][1].endswith("::next")]
        vals = [v for _, v in nexts]
        if vals == [1, 0] or vals == [1]:      # one edge consumed: loop exhausted afterwards, or early return inside it
            one.append((p, nexts[0][0][1]))
    if len(one) < 6:
        rep.bad(RULE, "ring-step:rows", "only %d single-edge rows found in the table of coord_pos_relative_to_ring" % len(one), where=fn.loc())
        return
    next_term = one[0][1]
    edge = ("field", ("as", next_term, "Some"), "0")
    calls = dict(CALLS)
    calls["alloc::vec::Vec::<T, A>::is_empty"] = lambda ev, args: False
    calls["alloc::vec::Vec::<T, A>::len"] = lambda ev, args: 2
    conv = {"primary": 0, "mirror": 0}
    n = 0
    first_bad = None
    rows = [p for p, _ in one]
    for s, e in itertools.product(G4, repeat=2):
        if s == e:
            continue
        for q in G4:
            l = {"start": s, "end": e}
            env = {("arg", 1): q, edge: l, next_term: Enum("core::option::Option", "Some", [l])}
            ev = Evaluator(F, env, calls)
            ev.env[("len", ("field", ("deref", ("arg", 2)), "0"))] = 2
            hit = []
            try:
                for p in rows:
                    ok = True
                    for t, v in p.pc:
                        if t[0] == "discr" and isinstance(t[1], tuple) and t[1][0] == "call" and t[1][1].endswith("::next"):
                            continue
                        if t[0] == "call" and ("is_empty" in t[1]):
                            continue
                        if "len(" in show(t):
                            continue
                        val = ev.ev(t)
                        if isinstance(val, bool):
                            val = 1 if val else 0
                        if isinstance(val, Enum):
                            val = ev.discr_of(val)
                        if val != v:
                            ok = False
                            break
                    if ok:
                        hit.append(p)
            except NoModel as ex2:
                rep.bad(RULE, "ring-step:non-abstractable", "a decision of the crossing step is not an orientation sign / coordinate comparison (%s)" % ex2, where=fn.loc())
                return
            if len(hit) != 1:
                rep.bad(RULE, "ring-step", "edge %s query %s selects %d rows" % (fmt(l), fmt(q), len(hit)), where=fn.loc())
                return
            got = hit[0].ret[2] if hit[0].ret[0] == "adt" else show(hit[0].ret)
            n += 1
            o = orient(s, e, q)
            if q == s:
                # the ring is closed (C18), so the edge *ending* at this vertex reports it; this edge may say anything
                want_p = want_m = got
            elif on_segment(q, s, e):
                want_p = want_m = "OnBoundary"
            else:
                up_p = s["y"] <= q["y"] < e["y"] and o == "CounterClockwise"
                dn_p = e["y"] <= q["y"] < s["y"] and o == "Clockwise"
                up_m = s["y"] < q["y"] <= e["y"] and o == "CounterClockwise"
                dn_m = e["y"] < q["y"] <= s["y"] and o == "Clockwise"
                want_p = "Inside" if (up_p or dn_p) else "Outside"
                want_m = "Inside" if (up_m or dn_m) else "Outside"
            if got == want_p:
                conv["primary"] += 1
            elif first_bad is None:
                first_bad = ("edge %s query %s" % (fmt(l), fmt(q)), got, want_p, show_pc(hit[0].pc)[:300])
            if got == want_m:
                conv["mirror"] += 1
    if conv["primary"] == n or conv["mirror"] == n:
        rep.ok(RULE, "ring-step[%d edge/query witnesses, %s half-open convention]" % (n, "lower-inclusive" if conv["primary"] == n else "upper-inclusive"),
               sample={"kernel": "coord_pos_relative_to_ring (one edge)", "witnesses": n, "rows": len(rows)})
    else:
        rep.bad(RULE, "ring-step", "the crossing step disagrees with the winding-number rule on %d of %d witnesses; first: %s gives %s, expected %s [row %s]" %
                (n - conv["primary"], n, first_bad[0], first_bad[1], first_bad[2], first_bad[3]), where=fn.loc())


def composition(rep, F):
    """CoordinatePosition::coordinate_position: odd boundary count -> OnBoundary, else the inside flag."""
    try:
        fn = F.one(r"^geo::algorithm::coordinate_position::CoordinatePosition::coordinate_position$", crates=("geo",))
    except KeyError as e:
        rep.bad(RULE, "combine:anchor", str(e))
        return
    # the default method must not be overridden
    over = [im["self_ty"] for im in F.impls_of(COORDPOS_T) if any(it["name"] == "coordinate_position" for it in im["items"])]
    if over:
        rep.bad(RULE, "combine:overridden", "coordinate_position is overridden for %s" % over[:3])
    ex = Symex(F, no_inline=[r"::calculate_coordinate_position$"])
    try:
        paths = [p for p in ex.run(fn) if p.kind == "ret"]
    except Unanalysable as e:
        rep.bad(RULE, "combine:unanalysable", str(e), where=fn.loc())
        return
    # after the opaque calculate call the two accumulators are havoc'd: rows decide on (count % 2 == 1) and the flag
    outs = {}
    for p in paths:
        s = show_pc(p.pc)
        out = p.ret[2] if p.ret[0] == "adt" else show(p.ret)
        outs[out] = outs.get(out, 0) + 1
        if out == "OnBoundary":
            if not re.search(r"Rem.*2.*== 1\)=1|% 2", s) and "Rem" not in s:
                rep.bad(RULE, "combine:boundary", "OnBoundary is not decided by the parity of the boundary count: %s" % s[:200], where=fn.loc())
                return
    if set(outs) == {"OnBoundary", "Inside", "Outside"}:
        rep.ok(RULE, "combine:parity-then-inside-flag", sample=outs)
    else:
        rep.bad(RULE, "combine:table", "final combination has outcomes %s" % outs, where=fn.loc())


# ------------------------------------------------------------------ composition tables
def member_contract_model(ex, st, call, args):
    """A member's calculate_coordinate_position, abstracted by the contract stated in the trait: Inside -> set the flag,
    OnBoundary -> increment the counter, Outside -> nothing.  The member's position is an uninterpreted 3-valued atom."""
    n = sum(1 for x in st.notes if x == "member")
    if len(args) < 4 or args[2][0] != "ref" or args[3][0] != "ref":
        return NotImplemented

    def gen():
        for pos in (0, 1, 2):       # 0 = Inside, 1 = OnBoundary, 2 = Outside
            s = st.clone()
            s.notes.append("member")
            s.assume(("memberpos", n), pos)
            if pos == 0:
                ex.store(s, args[2][1], ("const", True), log=False)
            elif pos == 1:
                old = ex.load(s, args[3][1])
                ex.store(s, args[3][1], ex.binop(s, "Add", old, ("const", 1)), log=False)
            yield s, "ret", ("tuple", ())
    return gen()


def final_position(ex, p, inside_arg=3, count_arg=4):
    ev = Evaluator(ex.facts, {("deref", ("arg", inside_arg)): False, ("deref", ("arg", count_arg)): 0}, CALLS)
    ins = p.st.mem.get(("S", ("arg", inside_arg)))
    cnt = p.st.mem.get(("S", ("arg", count_arg)))
    i = ev.ev(ex.canon(p.st, ins)) if ins is not None else False
    c = ev.ev(ex.canon(p.st, cnt)) if cnt is not None else 0
    return "OnBoundary" if c % 2 == 1 else ("Inside" if i else "Outside")


POS = ["Inside", "OnBoundary", "Outside"]


def container_composition(rep, F):
    """Two abstract members with positions in {In, On, Out}; the container's answer must be the position in the union
    of the members (areal members: union; linear members: mod-2 boundary rule)."""
    TRAIT_M = COORDPOS_T + "::calculate_coordinate_position"

    def areal(p1, p2):
        if "Inside" in (p1, p2):
            return None if "OnBoundary" in (p1, p2) else "Inside"      # In+On cannot happen for a valid multi polygon
        if "OnBoundary" in (p1, p2):
            return "OnBoundary"                                         # incl. (On, On): members touching at a vertex
        return "Outside"

    def linear(p1, p2):
        n_on = (p1, p2).count("OnBoundary")
        if n_on == 1:
            return "OnBoundary"
        if n_on == 2:
            return "Inside"           # even number of end points: not boundary by the mod-2 rule, but part of the geometry
        return "Inside" if "Inside" in (p1, p2) else "Outside"

    def disjoint(p1, p2):
        if p1 != "Outside" and p2 != "Outside":
            return None               # outside the property's domain (members pairwise disjoint)
        return p1 if p1 != "Outside" else p2

    for name, sre, spec in (("MultiPolygon", r"multi_polygon::MultiPolygon<T>$", areal), ("MultiLineString", r"multi_line_string::MultiLineString<T>$", linear),
                            ("GeometryCollection", r"geometry_collection::GeometryCollection<T>$", disjoint)):
        try:
            fn = F.impl_method(COORDPOS_T, sre, None, "calculate_coordinate_position", crates=("geo",))
        except KeyError as e:
            rep.bad(RULE, "compose:%s:anchor" % name, str(e))
            continue
        ex = Symex(F, models={TRAIT_M: member_contract_model}, loop_bound=2, max_paths=5000)
        try:
            paths = [p for p in ex.run(fn) if p.kind == "ret"]
        except Unanalysable as e:
            rep.bad(RULE, "compose:%s:unanalysable" % name, str(e), where=fn.loc())
            continue
        table = {}
        for p in paths:
            mp = [v for t, v in p.pc if t[0] == "memberpos"]
            if len(mp) != 2:
                continue
            got = final_position(ex, p)
            table.setdefault((POS[mp[0]], POS[mp[1]]), set()).add(got)
        if len(table) < 9:
            rep.bad(RULE, "compose:%s:rows" % name, "only %d of the 9 two-member rows found" % len(table), where=fn.loc())
            continue
        for (p1, p2), gots in sorted(table.items()):
            want = spec(p1, p2)
            if want is None:
                continue
            key = "compose:%s:(%s,%s)" % (name, p1, p2)
            if gots == {want}:
                rep.ok(RULE, key)
            else:
                rep.bad(RULE, key, "a coordinate that is %s of one member and %s of another is reported %s, but in the %s it is %s" %
                        (p1, p2, "/".join(sorted(gots)), {"MultiPolygon": "union of the (validly touching) polygons", "MultiLineString": "multi line string under the mod-2 boundary rule",
                                                           "GeometryCollection": "collection"}[name], want), where=fn.loc())


def polygon_composition(rep, F):
    """Polygon: exterior result and up to two hole results -> position."""
    try:
        fn = F.impl_method(COORDPOS_T, r"polygon::Polygon<T>$", None, "calculate_coordinate_position", crates=("geo",))
    except KeyError as e:
        rep.bad(RULE, "compose:Polygon:anchor", str(e))
        return
    ex = Symex(F, no_inline=[r"coord_pos_relative_to_ring$"], loop_bound=2, max_paths=5000)
    try:
        paths = [p for p in ex.run(fn) if p.kind == "ret"]
    except Unanalysable as e:
        rep.bad(RULE, "compose:Polygon:unanalysable", str(e), where=fn.loc())
        return
    names = [v["name"] for v in F.adts["geo::algorithm::coordinate_position::CoordPos"]["variants"]]
    n = 0
    for p in paths:
        ring = []
        for t, v in p.pc:
            if t[0] == "discr" and isinstance(t[1], tuple) and t[1][0] == "call" and t[1][1].endswith("coord_pos_relative_to_ring"):
                if isinstance(v, int):
                    ring.append(names[v])
                else:
                    ring.append("other")
        if not ring:
            continue
        ext, holes = ring[0], ring[1:]
        if ext == "Outside":
            want = "Outside"
        elif ext == "OnBoundary":
            want = "OnBoundary"
        elif "OnBoundary" in holes:
            want = "OnBoundary"
        elif "Inside" in holes:
            want = "Outside"
        else:
            want = "Inside"
        got = final_position(ex, p)
        n += 1
        key = "compose:Polygon:ext=%s,holes=%s" % (ext, ",".join(holes))
        if got == want:
            rep.ok(RULE, key)
        else:
            rep.bad(RULE, key, "exterior %s / holes %s gives %s, expected %s" % (ext, holes, got, want), where=fn.loc())
    if n < 5:
        rep.bad(RULE, "compose:Polygon:rows", "only %d rows" % n, where=fn.loc())


def polygon_witness(rep, F):
    """Polygon::calculate_coordinate_position on polygons with 0, 1 and 2 holes (the hole list unrolled exactly; the ring test, the bounding boxes and
    box tests answered by exact reference geometry): on every query point of a 9x9 grid the position is Outside / OnBoundary / Inside as exact
    geometry says - EVERY hole counts, whichever order the holes are stored in, including a hole lying in the notch of another (L-shaped) hole,
    i.e. inside that hole's bounding box."""
    try:
        fn = F.impl_method(COORDPOS_T, r"polygon::Polygon<T>$", None, "calculate_coordinate_position", crates=("geo",))
    except KeyError as e:
        rep.bad(RULE, "witness:Polygon:anchor", str(e))
        return
    LS = GT + "line_string::LineString"
    sq = lambda a, b: [C(a, a), C(b, a), C(b, b), C(a, b), C(a, a)]
    ext = sq(0, 8)
    ell = [C(1, 1), C(7, 1), C(7, 2), C(2, 2), C(2, 7), C(1, 7), C(1, 1)]
    notch = sq(4, 6)
    cases = [[], [ell], [notch], [ell, notch], [notch, ell]]
    calls = dict(CALLS)
    calls["geo::algorithm::coordinate_position::coord_pos_relative_to_ring"] = lambda ev, a: Enum("geo::algorithm::coordinate_position::CoordPos", _pip(ev.ev(a[1])["0"], ev.ev(a[0])))
    calls["vec!"] = lambda ev, a: list(ev.ev(a[0]))
    calls["core::convert::AsRef::as_ref"] = lambda ev, a: ev.ev(a[0])
    calls["alloc::vec::Vec::<T, A>::is_empty"] = lambda ev, a: len(ev.ev(a[0])) == 0
    calls["alloc::vec::Vec::<T, A>::len"] = lambda ev, a: len(ev.ev(a[0]))

    def m_bbox(ev, a):
        v = ev.ev(a[0])
        if isinstance(v, dict) and "exterior" in v:
            v = v["exterior"]
        if isinstance(v, dict) and "0" in v and isinstance(v["0"], list):
            cs = v["0"]
            if not cs:
                return Enum("core::option::Option", "None")
            return Enum("core::option::Option", "Some", [{"min": C(min(c["x"] for c in cs), min(c["y"] for c in cs)), "max": C(max(c["x"] for c in cs), max(c["y"] for c in cs))}])
        if isinstance(v, dict) and set(v) == {"x", "y"}:
            return {"min": v, "max": v}
        raise NoModel("bounding_rect of %r" % (v,))

    def m_intersects(ev, a):
        x, c = ev.ev(a[0]), ev.ev(a[1])
        if isinstance(x, dict) and set(x) == {"x", "y"}:
            x, c = c, x
        if isinstance(c, dict) and set(c) == {"x", "y"}:
            if isinstance(x, dict) and set(x) == {"min", "max"}:
                return x["min"]["x"] <= c["x"] <= x["max"]["x"] and x["min"]["y"] <= c["y"] <= x["max"]["y"]
            if isinstance(x, dict) and "0" in x and isinstance(x["0"], list):
                return any(on_segment(c, x["0"][i], x["0"][i + 1]) for i in range(len(x["0"]) - 1))
        raise NoModel("intersects(%r, %r)" % (x, c))
    for k in list(F.fns):
        if k.endswith("::bounding_rect") and "BoundingRect" in k:
            calls[k] = m_bbox
        if k.endswith("::intersects") and "Intersects" in k and ("Rect<T>" in k or "Coord<T>" in k):
            calls[k] = m_intersects
    calls["geo::algorithm::bounding_rect::BoundingRect::bounding_rect"] = m_bbox
    calls["geo::algorithm::intersects::Intersects::intersects"] = m_intersects
    total = 0
    for holes in cases:
        n = len(holes)
        h_t = ("call", "vec!", (("array", tuple(("opaque", "hole%d" % i) for i in range(n))),))
        poly_t = ("&", ("adt", GT + "polygon::Polygon", "Polygon", (("opaque", "exterior"), h_t)))
        ex = Symex(F, no_inline=[r"coord_pos_relative_to_ring$", r"BoundingRect.*::bounding_rect$", r"Intersects.*::intersects$"], loop_bound=n + 3, max_paths=20000, budget_s=60, concrete_iters=True)
        try:
            paths = [p for p in ex.run(fn, args=[poly_t, ("arg", 2), ("arg", 3), ("arg", 4)]) if p.kind != "cut"]
        except Unanalysable as e:
            rep.bad(RULE, "witness:Polygon:unanalysable", "%d hole(s): %s" % (n, e), where=fn.loc())
            return
        rets = [p for p in paths if p.kind == "ret"]
        env0 = {("opaque", "exterior"): {"0": ext}}
        for i, h in enumerate(holes):
            env0[("opaque", "hole%d" % i)] = {"0": h}
        for qx in range(9):
            for qy in range(9):
                q = C(qx, qy)
                env = dict(env0)
                env[("arg", 2)] = q
                env[("deref", ("arg", 2))] = q
                ev = Evaluator(F, env, calls)
                try:
                    hit = ev.select_path(rets)
                    gots = {position_of(ex, ev, h) for h in hit}
                except NoModel as e:
                    rep.bad(RULE, "witness:Polygon:non-abstractable", "a decision of Polygon::calculate_coordinate_position is not a function of the ring tests and bounding boxes (%s)" % e, where=fn.loc())
                    return
                e_pos = _pip(ext, q)
                h_pos = [_pip(h, q) for h in holes]
                want = e_pos if e_pos != "Inside" else "OnBoundary" if "OnBoundary" in h_pos else "Outside" if "Inside" in h_pos else "Inside"
                total += 1
                if gots != {want}:
                    rep.bad(RULE, "witness:Polygon", "polygon POLYGON(%s) with hole(s) %s: position of %s is %s in the path table, exact geometry gives %s" % (
                        " ".join(fmt(v) for v in ext), "; ".join(" ".join(fmt(v) for v in h) for h in holes) or "none", fmt(q), "/".join(sorted(gots)) or "no row", want), where=fn.loc())
                    return
    rep.ok(RULE, "witness:Polygon[%d witnesses; 0, 1 and 2 holes]" % total)


def multipoint_witness(rep, F):
    """MultiPoint::calculate_coordinate_position on multi points of 0..3 members (unrolled exactly): Inside exactly when the coordinate equals
    SOME member (a multi point has no boundary), on every assignment of three grid positions and every query."""
    try:
        fn = F.impl_method(COORDPOS_T, r"multi_point::MultiPoint<T>$", None, "calculate_coordinate_position", crates=("geo",))
    except KeyError as e:
        rep.bad(RULE, "witness:MultiPoint:anchor", str(e))
        return
    W = [C(0, 0), C(1, 2), C(2, 1)]
    total = 0
    for n in range(4):
        pts_t = ("call", "vec!", (("array", tuple(("adt", GT + "point::Point", "Point", (("opaque", "m%d" % i),)) for i in range(n))),))
        mp_t = ("&", ("adt", GT + "multi_point::MultiPoint", "MultiPoint", (pts_t,)))
        ex = Symex(F, loop_bound=n + 3, max_paths=5000, budget_s=30, concrete_iters=True, inline_crates=("geo", "geo_types"))
        try:
            paths = [p for p in ex.run(fn, args=[mp_t, ("arg", 2), ("arg", 3), ("arg", 4)]) if p.kind != "cut"]
        except Unanalysable as e:
            rep.bad(RULE, "witness:MultiPoint:unanalysable", "%d member(s): %s" % (n, e), where=fn.loc())
            return
        rets = [p for p in paths if p.kind == "ret"]
        for ms in itertools.product(W, repeat=n):
            for q in W + [C(5, 5)]:
                env = {("opaque", "m%d" % i): ms[i] for i in range(n)}
                env[("arg", 2)] = q
                env[("deref", ("arg", 2))] = q
                ev = Evaluator(F, env, dict(CALLS))
                try:
                    hit = ev.select_path(rets)
                    gots = {position_of(ex, ev, h) for h in hit}
                except NoModel as e:
                    rep.bad(RULE, "witness:MultiPoint:non-abstractable", "a decision of MultiPoint::calculate_coordinate_position is not a coordinate comparison (%s)" % e, where=fn.loc())
                    return
                want = "Inside" if q in ms else "Outside"
                total += 1
                if gots != {want}:
                    rep.bad(RULE, "witness:MultiPoint", "MULTIPOINT(%s): position of %s is %s in the path table, exact geometry gives %s" % (
                        " ".join(fmt(m) for m in ms) or "EMPTY", fmt(q), "/".join(sorted(gots)) or "no row", want), where=fn.loc())
                    return
    rep.ok(RULE, "witness:MultiPoint[%d witnesses; 0..3 members]" % total)


# ------------------------------------------------------------------ whole-ring tables (exact unrolling for rings of 4 and 5 coordinates)
def _pip(ring, q):
    """exact point-in-ring for a closed integer ring: 'OnBoundary' / 'Inside' / 'Outside' (winding number by orientation)"""
    n = len(ring) - 1
    for i in range(n):
        if on_segment(q, ring[i], ring[i + 1]):
            return "OnBoundary"
    wn = 0
    for i in range(n):
        a, b = ring[i], ring[i + 1]
        o = orient(a, b, q)
        if a["y"] <= q["y"]:
            if b["y"] > q["y"] and o == "CounterClockwise":
                wn += 1
        elif b["y"] <= q["y"] and o == "Clockwise":
            wn -= 1
    return "Inside" if wn != 0 else "Outside"


def _simple(ring):
    n = len(ring) - 1
    for i in range(n):
        for j in range(i + 1, n):
            a, b, c, d = ring[i], ring[i + 1], ring[j], ring[j + 1]
            adjacent = j == i + 1 or (i == 0 and j == n - 1)
            if adjacent:
                # adjacent edges may only share their common vertex
                shared = b if j == i + 1 else a
                other1 = a if j == i + 1 else b
                other2 = d if j == i + 1 else c
                if on_segment(other1, c, d) and other1 != shared or on_segment(other2, a, b) and other2 != shared:
                    return False
                continue
            o1, o2, o3, o4 = orient(a, b, c), orient(a, b, d), orient(c, d, a), orient(c, d, b)
            if (o1 != o2 and o3 != o4) or on_segment(c, a, b) or on_segment(d, a, b) or on_segment(a, c, d) or on_segment(b, c, d):
                return False
    return True


def ring_whole(rep, F):
    """coord_pos_relative_to_ring on closed rings of 4 and 5 coordinates: the complete path table (loops unrolled exactly) is walked with every
    simple ring on a 3x3 grid (both orientations, every start vertex) and every query point of a 4x4 grid."""
    try:
        fn = F.one(r"^geo::algorithm::coordinate_position::coord_pos_relative_to_ring$", crates=("geo",))
    except KeyError as e:
        rep.bad(RULE, "ring-whole:anchor", str(e))
        return
    LS = GT + "line_string::LineString"
    total = 0
    for N in (4, 5):
        elems = tuple(("index", ("field", ("deref", ("arg", 2)), "0"), ("const", i)) for i in range(N))
        ring_t = ("&", ("adt", LS, "LineString", (("call", "vec!", (("array", elems),)),)))
        ex = Symex(F, no_inline=HELPERS + [r"is_closed$"], loop_bound=N + 3, max_paths=300000, budget_s=120, concrete_iters=True)
        try:
            paths = [p for p in ex.run(fn, args=[("arg", 1), ring_t]) if p.kind != "cut"]
        except Unanalysable as e:
            rep.bad(RULE, "ring-whole:unanalysable", str(e), where=fn.loc())
            return
        tree = Tree([p for p in paths if p.kind == "ret"])
        calls = dict(CALLS)
        calls["geo_types::geometry::line_string::LineString::<T>::is_closed"] = lambda ev, args: True
        n = 0
        for vs in itertools.product(G3, repeat=N - 1):
            if len({(v["x"], v["y"]) for v in vs}) != N - 1:
                continue
            ring = list(vs) + [vs[0]]
            a2 = sum(ring[i]["x"] * ring[i + 1]["y"] - ring[i + 1]["x"] * ring[i]["y"] for i in range(N - 1))
            if a2 == 0 or not _simple(ring):
                continue
            for q in G4:
                ev = Evaluator(F, {("arg", 1): q, ("arg", 2): {"0": ring}}, calls)
                try:
                    hit = tree.select(ev)
                    if len(hit) != 1:
                        rep.bad(RULE, "ring-whole", "ring %s query %s selects %d rows" % (fmt({"r": ring}), fmt(q), len(hit)), where=fn.loc())
                        return
                    r = ev.ev(hit[0].ret)
                    got = r.variant if isinstance(r, Enum) else str(r)
                except NoModel as e:
                    rep.bad(RULE, "ring-whole:non-abstractable", "a decision of the ring test is not a function of orientation signs and coordinate comparisons (%s)" % e, where=fn.loc())
                    return
                want = _pip(ring, q)
                n += 1
                if got != want:
                    rep.bad(RULE, "ring-whole", "for the ring %s and the query %s the path table of coord_pos_relative_to_ring gives %s, exact geometry gives %s  [row: %s]" % (
                        " ".join(fmt(v) for v in ring), fmt(q), got, want, show_pc(hit[0].pc)[:240]), where=fn.loc(), detail={"ring": [fmt(v) for v in ring], "query": fmt(q), "got": got, "want": want})
                    return
        total += n
    if total < 5000:
        rep.bad(RULE, "ring-whole:floor", "only %d witnesses" % total)
    else:
        rep.ok(RULE, "ring-whole[%d witnesses; rings of 4 and 5 coordinates]" % total, sample={"witnesses": total})
